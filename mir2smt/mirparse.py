"""Parser for rustc's textual MIR (`-Zunpretty=mir`).

Only the structure is parsed here (items, locals, basic blocks, statement strings, terminator
string); statements are interpreted lazily by symex.py, which raises `Unsupported` on anything
outside its subset.  Nothing is ever skipped silently.
"""
import re


class Unsupported(Exception):
    """A MIR construct / callee outside the encoder's subset.  Surfaces as `inconclusive`."""


class Block:
    __slots__ = ("name", "stmts", "term", "cleanup")

    def __init__(self, name, cleanup):
        self.name = name
        self.stmts = []
        self.term = None
        self.cleanup = cleanup


class Item:
    """A MIR body: fn, const, static or promoted."""

    def __init__(self, kind, name, args, ret, header, line):
        self.kind = kind          # 'fn' | 'const'
        self.name = name          # path as printed, e.g. "num::<impl at f.rs:283:1: 283:20>::checked_mul_div"
        self.args = args          # [(local, type-string)]
        self.ret = ret            # type-string
        self.header = header
        self.line = line
        self.locals = {}          # local -> type-string
        self.blocks = {}          # "bb0" -> Block
        self.inline_const = None  # for `const X: T = const V;`
        self.ctfe = False

    @property
    def last(self):
        return split_path(self.name)[-1]

    def impl_span(self):
        m = re.search(r"<impl at ([^:>]+):(\d+):(\d+): (\d+):(\d+)>", self.name)
        if not m:
            return None
        return (m.group(1), int(m.group(2)), int(m.group(3)), int(m.group(4)), int(m.group(5)))

    def __repr__(self):
        return f"<{self.kind} {self.name}>"


OPEN = {"(": ")", "[": "]", "{": "}", "<": ">"}
CLOSE = {v: k for k, v in OPEN.items()}


def scan_top(s, start=0):
    """Yield (index, char, depth) for every char of s outside string literals, tracking bracket
    depth over () [] {} <>.  `->` and `=>` are not brackets; comparison operators do not occur in the
    MIR strings handled here (binary ops are printed as `Lt(a, b)`)."""
    depth = 0
    i = start
    n = len(s)
    while i < n:
        c = s[i]
        if c == '"':
            # string literal (MIR prints escapes with backslash)
            j = i + 1
            while j < n and s[j] != '"':
                j += 2 if s[j] == "\\" else 1
            i = j + 1
            continue
        if c == "'" and i + 2 < n and (s[i + 2] == "'" or (s[i + 1] == "\\" and i + 3 < n and s[i + 3] == "'")):
            # char literal
            i += 3 if s[i + 2] == "'" else 4
            continue
        if c in OPEN:
            if c == "<" and i + 1 < n and s[i + 1] == "=":
                i += 1
            else:
                yield i, c, depth
                depth += 1
                i += 1
                continue
        elif c in CLOSE:
            if c == ">" and i > 0 and s[i - 1] in "-=":
                pass
            else:
                depth -= 1
                yield i, c, depth
                i += 1
                continue
        yield i, c, depth
        i += 1


def split_top(s, sep=","):
    """Split s at top-level separators."""
    out = []
    last = 0
    for i, c, d in scan_top(s):
        if c == sep and d == 0:
            out.append(s[last:i].strip())
            last = i + 1
    tail = s[last:].strip()
    if tail or out:
        out.append(tail)
    return [x for x in out if x != ""] if sep == "," else out


def split_path(s):
    """Split a path at top-level `::`."""
    out = []
    last = 0
    prev = None
    for i, c, d in scan_top(s):
        if c == ":" and d == 0 and prev == (i - 1, ":"):
            out.append(s[last:i - 1])
            last = i + 1
            prev = None
            continue
        prev = (i, c) if d == 0 else None
    out.append(s[last:])
    return out


def match_close(s, i):
    """s[i] is an opening bracket; return index of its matching close."""
    assert s[i] in OPEN, (s, i)
    for j, c, d in scan_top(s, i):
        if d == 0 and j > i and c == OPEN[s[i]]:
            return j
    raise Unsupported(f"unbalanced brackets in {s!r}")


HEADER_FN = re.compile(r"^fn (.*) \{$")
HEADER_CONST = re.compile(r"^(?:const |static (?:mut )?)?(\S.*) = \{$")
INLINE_CONST = re.compile(r"^const (.*): ([^=]+?) = (const .*);$")


def parse_fn_header(text):
    # text: NAME(ARGS) -> RET   ; find the argument parenthesis: first top-level '(' at depth 0
    for i, c, d in scan_top(text):
        if c == "(" and d == 0:
            j = match_close(text, i)
            name = text[:i]
            args = []
            for a in split_top(text[i + 1:j]):
                m = re.match(r"^(_\d+): (.*)$", a)
                if not m:
                    raise Unsupported(f"argument {a!r} in {text!r}")
                args.append((m.group(1), m.group(2)))
            rest = text[j + 1:].strip()
            if not rest.startswith("->"):
                raise Unsupported(f"header without return type: {text!r}")
            return name, args, rest[2:].strip()
    raise Unsupported(f"cannot parse fn header {text!r}")


def parse(text):
    """Return list of Items in file order."""
    items = []
    lines = text.split("\n")
    i = 0
    n = len(lines)
    ctfe_next = False
    while i < n:
        ln = lines[i]
        if ln.startswith("// MIR FOR CTFE"):
            ctfe_next = True
            i += 1
            continue
        if ln.startswith("//") or not ln.strip() or ln.startswith("warning") or ln.startswith(" "):
            i += 1
            continue
        m = INLINE_CONST.match(ln)
        if m:
            it = Item("const", m.group(1), [], m.group(2).strip(), ln, i + 1)
            it.inline_const = m.group(3)
            items.append(it)
            i += 1
            continue
        mf = HEADER_FN.match(ln)
        mc = HEADER_CONST.match(ln)
        if mf:
            name, args, ret = parse_fn_header(mf.group(1))
            it = Item("fn", name, args, ret, ln, i + 1)
        elif mc:
            body = mc.group(1)
            # NAME: TYPE   (split at the first top-level ": ")
            k = None
            for j, c, d in scan_top(body):
                if c == ":" and d == 0 and body[j:j + 2] == ": " and body[j - 1] != ":" :
                    k = j
                    break
            if k is None:
                raise Unsupported(f"const header {ln!r}")
            it = Item("const", body[:k], [], body[k + 2:], ln, i + 1)
        elif re.match(r"^alloc\d+ \(", ln):
            # allocation dump: skip to closing brace
            while i < n and lines[i] != "}":
                i += 1
            i += 1
            continue
        else:
            raise Unsupported(f"unrecognised top-level MIR line {i + 1}: {ln[:120]!r}")
        it.ctfe = ctfe_next
        ctfe_next = False
        i += 1
        cur = None
        while i < n and lines[i] != "}":
            s = lines[i].strip()
            i += 1
            if not s or s == "}" or s.startswith("debug ") or s.startswith("scope ") or s.startswith("//"):
                if s == "}" and cur is not None:
                    cur = None
                continue
            m = re.match(r"^let (?:mut )?(_\d+): (.*);$", s)
            if m and cur is None:
                it.locals[m.group(1)] = m.group(2)
                continue
            m = re.match(r"^(bb\d+)( \(cleanup\))?: \{$", s)
            if m:
                cur = Block(m.group(1), bool(m.group(2)))
                it.blocks[cur.name] = cur
                continue
            if cur is None:
                raise Unsupported(f"unexpected line in {it.name}: {s!r}")
            if not s.endswith(";"):
                raise Unsupported(f"multi-line statement in {it.name}: {s!r}")
            cur.stmts.append(s[:-1])
        i += 1
        for a, t in it.args:
            it.locals[a] = t
        for b in it.blocks.values():
            if not b.stmts:
                raise Unsupported(f"empty block {b.name} in {it.name}")
            b.term = b.stmts.pop()
        items.append(it)
    return items
