"""Persistent SMT solver processes (z3 -in, cvc5 --incremental) driven through push/pop.

Every query is self-contained (declarations are sent inside the push), so a solver that has to be
killed on a hard timeout is simply restarted.  Any `(error` in the output makes the answer `error`.
"""
import os
import re
import select
import subprocess
import time


class Solver:
    def __init__(self, kind, timeout_s, log=None):
        self.kind = kind
        self.timeout_s = timeout_s
        self.proc = None
        self.log = open(log, "w") if log else None
        self.nq = 0

    def cmd(self):
        ms = int(self.timeout_s * 1000)
        if self.kind == "z3":
            return ["z3", "-in", f"-t:{ms}"]
        if self.kind == "cvc5":
            return ["cvc5", "--lang", "smt2", "--incremental", "--produce-models", f"--tlimit-per={ms}"]
        raise ValueError(self.kind)

    def start(self):
        self.proc = subprocess.Popen(self.cmd(), stdin=subprocess.PIPE, stdout=subprocess.PIPE,
                                     stderr=subprocess.STDOUT, text=True, bufsize=1)
        self.send("(set-logic ALL)")
        if self.kind == "z3":
            self.send("(set-option :produce-models true)")

    def stop(self):
        if self.proc:
            try:
                self.proc.kill()
                self.proc.wait()
            except Exception:
                pass
            self.proc = None

    def send(self, line):
        if self.log:
            self.log.write(line + "\n")
        self.proc.stdin.write(line + "\n")

    def read_until(self, marker, deadline):
        out = []
        fd = self.proc.stdout.fileno()
        buf = ""
        while True:
            left = deadline - time.time()
            if left <= 0:
                return out, False
            r, _, _ = select.select([fd], [], [], min(left, 1.0))
            if not r:
                if self.proc.poll() is not None:
                    return out, False
                continue
            chunk = os.read(fd, 65536).decode(errors="replace")
            if chunk == "":
                return out, False
            buf += chunk
            while "\n" in buf:
                ln, buf = buf.split("\n", 1)
                if marker in ln:
                    return out, True
                out.append(ln)

    def query(self, lines, values=()):
        """-> (status, model, raw, seconds); status in sat|unsat|unknown|timeout|error"""
        if self.proc is None or self.proc.poll() is not None:
            self.start()
        self.nq += 1
        marker = f"<<q{self.nq}>>"
        t0 = time.time()
        if self.log:
            self.log.write(f"; ---- query {self.nq}\n")
        self.send("(push 1)")
        for ln in lines:
            self.send(ln)
        self.send("(check-sat)")
        self.send(f'(echo "{marker}")')
        self.proc.stdin.flush()
        out, ok = self.read_until(marker, t0 + self.timeout_s + 15)
        dt = time.time() - t0
        if not ok:
            self.stop()
            return "timeout", {}, "\n".join(out), dt
        raw = "\n".join(out)
        status = "error"
        if "(error" in raw:
            status = "error"
        else:
            toks = [x.strip() for x in out if x.strip()]
            if toks and toks[-1] in ("sat", "unsat", "unknown"):
                status = toks[-1]
            elif toks and "timeout" in toks[-1]:
                status = "timeout"
        model = {}
        if status == "sat" and values:
            m2 = f"<<v{self.nq}>>"
            self.send("(get-value (" + " ".join(values) + "))")
            self.send(f'(echo "{m2}")')
            self.proc.stdin.flush()
            out2, ok2 = self.read_until(m2, time.time() + 120)
            txt = "\n".join(out2)
            if not ok2 or "(error" in txt:
                status = "error"
                raw += "\n" + txt
            else:
                model = parse_values(txt, values)
        if status == "unknown":
            # z3 prints unknown on its soft timeout
            status = "timeout" if dt >= self.timeout_s * 0.95 else "unknown"
        if self.proc:
            self.send("(pop 1)")
            self.proc.stdin.flush()
        if self.log:
            self.log.write(f"; -> {status} {dt:.2f}s\n")
            self.log.flush()
        return status, model, raw, dt


def tokenize(s):
    return re.findall(r"\|[^|]*\||\(|\)|[^\s()]+", s)


def parse_sexp(tokens):
    def rd(i):
        if tokens[i] == "(":
            lst = []
            i += 1
            while tokens[i] != ")":
                v, i = rd(i)
                lst.append(v)
            return lst, i + 1
        return tokens[i], i + 1
    v, _ = rd(0)
    return v


def sexp_value(v):
    if isinstance(v, str):
        if v == "true":
            return True
        if v == "false":
            return False
        return int(v)
    if len(v) == 2 and v[0] == "-":
        return -sexp_value(v[1])
    raise ValueError(f"unexpected value {v}")


def parse_values(txt, names):
    toks = tokenize(txt)
    if not toks:
        return {}
    sx = parse_sexp(toks)
    out = {}
    for pair, name in zip(sx, names):
        out[name] = sexp_value(pair[1])
    return out
