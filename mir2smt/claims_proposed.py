# NOTE: props for C24 and C29 live in mir2smt/props_experimental/ (not run by ./check): their E2 parts decide every clause but
# report three natively reproduced findings as VIOLATION until these keys are listed in /verif/known_findings.json:
#   C24 c24_deviation_rounded_up_to_grid_or_skipped_at_zero ; C29 c29_out_of_band_on_coarse_or_unequal_grid ; C29 c29_inverted_on_coarse_or_unequal_grid
# With the keys listed (tested with VERIF_KNOWN_FINDINGS=<copy>) C24 is 410/410, exit 0, KNOWN-FINDING printed, ~3.5 min; then `mv props_experimental/C2{4,9}.py props/`.
# Proposed claims for the E2 parts of properties whose ./check is not (yet) quiet end-to-end or that are
# shared with Kani harnesses of other areas.  Not read by gen_manifest; merge by hand (`BOUNDED` as in lib/manifest_data.py).
PROPOSED = {
    "C26": dict(
        text=BOUNDED + "for every u128 price: the MIR of the real Decimal::try_from_price is executed for each of the 4851 settings (decimals, token_decimals, precision) within "
             "the limits and Ok(dec) implies dec.decimal_multiplier = 20 - token_decimals - precision and dec.value = floor(price * 10^precision / 10^decimals) <= u32::MAX "
             "(truncation, never up, error below one precision step), Err implies that this value exceeds u32::MAX; for all u8 settings outside the limits the result is Err; no "
             "overflow, shift or division panic is reachable for any u8 settings. Decimal::to_unit_price = value * 10^multiplier and Decimal::with_unit_price = floor/ceil(price / "
             "10^multiplier) or None above u32::MAX (every u32 value, every multiplier <= 20). find_divisor_decimals returns min{k : num <= u128::MAX * 10^k} for every U192 "
             "number and convert_to_u128_storage returns (floor(num / 10^k), decimals - k) or None when k > decimals, never panicking.",
        note="Trusted: rustc's MIR dump, the translator in /verif/mir2smt, z3 (cvc5 confirms every unsat in the thorough tier), the callee models listed in the evidence (u128::pow "
             "by table of all non-overflowing powers, checked_mul, div_ceil, TryFrom, ruint U192 from_limbs/pow/div_assign/try_into as exact integers, slice::binary_search on the "
             "concrete strictly increasing table). Assumes decimal_multiplier <= 20 for to_unit_price/with_unit_price (the documented invariant, proved for values produced by "
             "try_from_price). find_divisor_decimals is minimal with respect to the table bound u128::MAX*10^k, not 2^128*10^k (pinned by the repository's tests). "
             "crates/utils/src/oracle.rs (pyth_price_value_to_decimal) is not decided by this engine.",
        technique="symbolic execution of the compiler's MIR of the real functions into SMT-LIB2 over mathematical integers, one obligation set per decimal setting, decided by z3 (cvc5 cross-check), counterexamples replayed natively",
        design="C26", engine="mir2smt+kani"),

    "C14": dict(
        text=BOUNDED + "E2 part, full u128 width: the MIR of the real PositionImpactMarketExt::pending_position_impact_pool_distribution_amount (Num = u128, DECIMALS = 20) "
             "is executed for every pool amount, minimum, distribute factor (all u128) and every u64 duration, with utils::apply_factor and <u128 as MulDiv>::checked_mul_div "
             "inlined from their MIR: the call never fails and never panics, next = current - distributed <= current, current > min implies next >= min, nothing is "
             "distributed when the factor is zero or current <= min, and otherwise distributed = min(floor(t*rate/10^20), current - min) exactly. The post-state is again "
             "an arbitrary state of the same domain, so repeated distributions follow.",
        note="Abstract market: position_impact_pool_amount() and position_impact_distribution_params() return Ok(arbitrary values); their Err results are only propagated. "
             "DistributePositionImpact::execute (clock, pool update) is not encoded by E2.",
        technique="MIR -> SMT-LIB2 over Int (z3, cvc5 cross-check), native replay through the repository's TestMarket", design="C14", engine="mir2smt+kani"),
    "C31": dict(
        text=BOUNDED + "E2 part, program side, full u128 width: the MIR of the real Store::order_fee_discount_factor, GtState::order_fee_discount_factor, Store::get_factor_by_key / "
             "Factors::get (plus gmsol-model's apply_factor / checked_mul_div inlined across the crate boundary) is executed on an arbitrary store image restricted to the "
             "fields read (gt.max_rank <= 15, the 16 rank factors <= 100%, the referred-user factor <= 100%), every u8 rank and both referral states: Err exactly when "
             "rank > max_rank, unreferred = the rank factor, referred = B + floor(A*(UNIT-B)/UNIT), always within [0, 100%] and >= both A and B; no panic (array index, overflow) is reachable.",
        note="Assumes the representation invariant gt.max_rank <= MAX_RANK established by GtState::init (without it the array index can panic) and factors <= 100% (validated by "
             "set_order_fee_discount_factors; property quantifier). Anchor error construction is opaque. The SDK copy and the program/SDK equality are not encoded by E2.",
        technique="MIR -> SMT-LIB2 over Int with lazily materialised state struct, z3 (cvc5 cross-check), native replay on a zeroed Store filled through the verif hooks", design="C31", engine="mir2smt"),
    "C32": dict(
        text=BOUNDED + "E2 part, helpers only, full width: the MIR of the real compute_builder_fee_amount, clamp_builder_fee_amount and charge_builder_fee_on_collateral_increment "
             "(with apply_factor, checked_round_up_div, Price::pick_price, <u128 as MulDiv>::checked_mul_div inlined from gmsol-model's MIR) for every u128 size, factor, min/max price "
             "and every u64 increment: factor 0 gives Ok(0) whatever the price; otherwise Ok(fee) iff fee = ceil(floor(size*factor/10^20) / p_min) and no intermediate overflows, "
             "Err exactly for p_min = 0 or an overflowing intermediate; clamp = min(fee, available); charge returns (after, fee) with after + fee = increment and fee the computed "
             "fee fitting u64, Err exactly when the fee cannot be computed, exceeds u64 or exceeds the increment; no panic is reachable.",
        note="estimate_builder_fee_for_collateral_withdrawal (enum comparison from gmsol-utils), Order::record_builder_fee (&mut state) and SettleBuilderFee::invoke (token CPI) are not encoded by E2. "
             "Anchor error construction is opaque.",
        technique="MIR -> SMT-LIB2 over Int across two crates (store + model), z3 (cvc5 cross-check), native replay through ops::order::verif_hooks", design="C32", engine="mir2smt"),
}

PROPOSED.update({
    "C29": dict(
        text=BOUNDED + "E2, full width: the MIR of the real try_adjust_price_with_max_deviation_factor (with Price::<u128>::from(&Price), Price::checked_mid, Decimal::to_unit_price / "
             "with_unit_price, apply_factor / <u128 as MulDiv>::checked_mul_div inlined from gmsol-model's and gmsol-utils' MIR) for every u32 value of min / max / reference, every reference "
             "multiplier <= 20, explicit and mid reference, every u128 factor, per pair of (min, max) multipliers (quick: the 21 equal pairs + 4 unequal; thorough: all 441). Decided: the reference R and "
             "deviation D = floor(R*factor/10^20) the code uses are the defined ones; Some(p) keeps both multipliers, leaves a side inside [R-D, R+D] untouched, sets an out-of-band max to "
             "floor((R+D)/10^m) and an out-of-band min to ceil((R-D)/10^m); None exactly when nothing is out of band or D / R+D / R-D / a rounded value does not fit; no panic. "
             "R-D <= p.min <= p.max <= R+D holds whenever min and max use the same multiplier and the grid step 10^m of every adjusted side is <= 2D+1.",
        note="KNOWN FINDING (reproduced natively, keys c29_out_of_band_on_coarse_or_unequal_grid / c29_inverted_on_coarse_or_unequal_grid): when the grid step of an adjusted side exceeds the "
             "band width (10^m > 2D+1, e.g. D = 0) or min / max carry different multipliers, the rounded bound can leave the band or invert the price, e.g. factor 0, min = 1e8, "
             "max = 4294967294e8 (m = 8, mid reference) gives min = 2147483648e8 > max = 2147483647e8. Multipliers <= 20 assumed (C26). try_adjust_price (caller keeps the input on None) and the "
             "later validation are not part of this function.",
        technique="MIR -> SMT-LIB2 over Int across three crates; internal values (R, D) tapped from the real computation and tied to their definitions by lemma clauses; z3 (cvc5 cross-check), native replay through states::oracle::verif_hooks",
        design="C29", engine="mir2smt"),
    "C24": dict(
        text=BOUNDED + "E2, full width: the MIR of the real PriceValidator::{validate_one, merge_range, finish} and SmallPrices::from_price for every i64 timestamp / clock, u64 max-age / range / "
             "future-excess / slot, u32 timestamp adjustment and deviation ratio, u32 price values (validate_one per (min, max) multiplier pair: quick 21 equal pairs + 2, thorough all 441), from an "
             "arbitrary accumulated range state. validate_one: Ok exactly when the accessors succeed, oracle_ts - adj + max_age >= now without i64 overflow, min(now + excess, i64::MAX) >= oracle_ts, and "
             "(no deviation configured, or D = floor(R*ratio*10^12/10^20) = 0, or both |p - R| <= ceil(D/10^m_max)*10^m_max); on Ok the range state becomes the merge with (slot, ts, ts), ts = oracle_ts - adj, "
             "on Err it is unchanged; merge_range = (min slot, min ts, max ts); finish: Ok exactly when 0 <= max_ts - min_ts <= range; from_price: Ok exactly when multipliers are equal and "
             "0 < min.value <= max.value, storing them unchanged; no panic.",
        note="KNOWN FINDING (by design, reproduced natively, key c24_deviation_rounded_up_to_grid_or_skipped_at_zero): the literal |p - R| <= D is exceeded by less than one grid step of p.max "
             "because D is rounded up to that grid, and the check is skipped altogether when D == 0; outside that region (D > 0 a multiple of the grid step) the literal clause is decided. "
             "TokenConfig accessors abstract; provider / feed identity, clock sysvar and Oracle::with_prices_opts clearing not encoded.",
        technique="MIR -> SMT-LIB2 over Int with &mut state, tapped internal values, z3 (cvc5 cross-check), native replay through PriceValidator::verif_* and a real TokenConfig",
        design="C24", engine="mir2smt+kani"),
    "C30": dict(
        text=BOUNDED + "E2, full width: GtState::get_mint_amount (Ok((minted, minted_value, cost)): minted*cost = minted_value <= value, value - minted_value < cost, Err exactly for cost 0 or "
             "minted > u64::MAX), GtState::next_minting_cost with the growth loop unrolled 3 times (steps = floor(next/step_amount); cost = the (steps - grow_steps)-fold iterate of "
             "c -> floor(c*factor/10^20) from the stored cost, checked both against the tapped intermediate values and against an independently defined ghost chain; Err exactly for a zero step amount "
             "or an iterate above u128; `loop bound exceeded` unreachable under the stated bound) and GtState::unchecked_update_rank (rank = number of thresholds among the first max_rank <= 15 that "
             "are <= the amount, for every strictly increasing table), no panic. Path independence of the minting cost follows from the iterate characterisation (not decided as a composite).",
        note="At most 3 new growth steps per call (assumption next < (grow_steps+4)*step); sorted-ranks / max_rank <= 15 invariant assumed (GtState::init). mint_to / burn (clock, supply ledger) and the "
             "exchange vault are not encoded by E2. A three-run composite for path independence timed out on some splits and was removed.",
        technique="MIR -> SMT-LIB2 over Int with bounded CFG unrolling, symbolic-length slice model of binary_search, z3 (cvc5 cross-check), native replay on a zeroed Store with fields written at offsets computed from the zero_copy declaration",
        design="C30", engine="mir2smt+kani"),
    "C45": dict(
        text=BOUNDED + "E2, state part: the MIR of the real Glv::validate_market_token_balance / GlvMarketConfig::validate_balance (market_token_amount_to_usd and <u128 as MulDiv>::checked_mul_div "
             "inlined from gmsol-model) for every u64 max_amount / balance, u128 max_value / supply, i128 pool value: Ok exactly when the market is in the GLV and (no caps, or balance <= max_amount "
             "if set, and pool value >= 0, supply > 0 and floor(pool*balance/supply) <= max_value if set); no panic.",
        note="GlvMarkets::get abstract (C34 decides the map). GLV pricing in gmsol-model and the instruction layer are not encoded by E2.",
        technique="MIR -> SMT-LIB2 over Int across store + model, z3 (cvc5 cross-check), native replay through glv_insert_market / glv_validate_market_token_balance hooks",
        design="C45", engine="mir2smt+kani"),
})

PROPOSED.update({
    "C37": dict(
        text=BOUNDED + "E2 part: the MIR of the real GtBank::reserve_balances for a bank holding one token balance (the fixed-map iterator is abstract and yields that entry; loop unrolled once, bound checked): "
             "Ok exactly when numerator <= denominator and (balance == 0 or denominator != 0); then the new balance is floor(balance*numerator/denominator) <= the old one; on Err the balance is unchanged; no panic "
             "(every u64 balance, every u128 numerator / denominator). Claim formula of CompleteGtExchange::execute: only its kernel <u64 as MulDiv>::checked_mul_div(balance, gt_amount, total) under the precondition "
             "total >= gt_amount the code checks first: Some(amount) with amount = floor(balance*gt_amount/total) <= balance, None exactly for total == 0.",
        note="CompleteGtExchange::execute itself (account loop, token CPIs) and banks with several balances (same body per entry, documented as not atomic) are outside the subset; claim orders / draining are not decided by E2.",
        technique="MIR -> SMT-LIB2 over Int with bounded CFG unrolling and an abstract map iterator, z3 (cvc5 cross-check), native replay through gmsol_treasury::verif_hooks", design="C37", engine="mir2smt+kani"),
    "C38": dict(
        text=BOUNDED + "E2 part: calculate_gt_reward_amount (every u128 stake value / APY per second / inverse-cost integral, every i64 duration): Ok exactly when duration >= 0 and neither product exceeds u128; "
             "the amount is min(floor(floor(stake*apy/10^20)*integral/10^20), u64::MAX) - saturating, never wrapping, hence monotone in stake and integral; no panic. compute_time_weighted_apy with the 53-bucket "
             "loop unrolled 52 times (bound checked), one obligation set per number of full weeks 0..51 and one for >= 52: the result is floor(sum over every elapsed second of that second's weekly bucket / "
             "elapsed seconds), weeks past the last bucket using the last one, <= 200%; now <= start gives the first bucket.",
        note="Assumes gradient entries <= 2*10^20 (the cap), start >= 0 and now = start + elapsed <= i64::MAX (with a negative start and more than i64::MAX elapsed seconds the overflow-checked `now - start` panics), "
             "elapsed <= 1701411834604692317 s (beyond it the saturating accumulator can clip). Unstake / exit logic is not encoded by E2.",
        technique="MIR -> SMT-LIB2 over Int with bounded CFG unrolling and interval folding of the week arithmetic, z3 (cvc5 cross-check), native replay through gmsol_liquidity_provider::verif_hooks", design="C38", engine="mir2smt+kani"),
})
