# Proposed claims for the E2 parts of properties whose ./check is not (yet) quiet end-to-end or that are
# shared with Kani harnesses of other areas.  Not read by gen_manifest; merge by hand (`BOUNDED` as in lib/manifest_data.py).
PROPOSED = {
    "C26": dict(
        text=BOUNDED + "for every u128 price: the MIR of the real Decimal::try_from_price is executed for each of the 4851 settings (decimals, token_decimals, precision) within "
             "the limits and Ok(dec) implies dec.decimal_multiplier = 20 - token_decimals - precision and dec.value = floor(price * 10^precision / 10^decimals) <= u32::MAX "
             "(truncation, never up, error below one precision step), Err implies that this value exceeds u32::MAX; for all u8 settings outside the limits the result is Err; no "
             "overflow, shift or division panic is reachable for any u8 settings. Decimal::to_unit_price = value * 10^multiplier and Decimal::with_unit_price = floor/ceil(price / "
             "10^multiplier) or None above u32::MAX (every u32 value, every multiplier <= 20). find_divisor_decimals returns min{k : num <= u128::MAX * 10^k} for every U192 "
             "number and convert_to_u128_storage returns (floor(num / 10^k), decimals - k) or None when k > decimals, never panicking.",
        note="Trusted: rustc's MIR dump, the translator in /verif/mir2smt, z3 (cvc5 confirms every unsat in the thorough tier), the callee models listed in the evidence (u128::pow "
             "by table of all non-overflowing powers, checked_mul, div_ceil, TryFrom, ruint U192 from_limbs/pow/div_assign/try_into as exact integers, slice::binary_search on the "
             "concrete strictly increasing table). Assumes decimal_multiplier <= 20 for to_unit_price/with_unit_price (the documented invariant, proved for values produced by "
             "try_from_price). find_divisor_decimals is minimal with respect to the table bound u128::MAX*10^k, not 2^128*10^k (pinned by the repository's tests). "
             "crates/utils/src/oracle.rs (pyth_price_value_to_decimal) is not decided by this engine.",
        technique="symbolic execution of the compiler's MIR of the real functions into SMT-LIB2 over mathematical integers, one obligation set per decimal setting, decided by z3 (cvc5 cross-check), counterexamples replayed natively",
        design="C26", engine="mir2smt+kani"),

    "C14": dict(
        text=BOUNDED + "E2 part, full u128 width: the MIR of the real PositionImpactMarketExt::pending_position_impact_pool_distribution_amount (Num = u128, DECIMALS = 20) "
             "is executed for every pool amount, minimum, distribute factor (all u128) and every u64 duration, with utils::apply_factor and <u128 as MulDiv>::checked_mul_div "
             "inlined from their MIR: the call never fails and never panics, next = current - distributed <= current, current > min implies next >= min, nothing is "
             "distributed when the factor is zero or current <= min, and otherwise distributed = min(floor(t*rate/10^20), current - min) exactly. The post-state is again "
             "an arbitrary state of the same domain, so repeated distributions follow.",
        note="Abstract market: position_impact_pool_amount() and position_impact_distribution_params() return Ok(arbitrary values); their Err results are only propagated. "
             "DistributePositionImpact::execute (clock, pool update) is not encoded by E2.",
        technique="MIR -> SMT-LIB2 over Int (z3, cvc5 cross-check), native replay through the repository's TestMarket", design="C14", engine="mir2smt+kani"),
    "C31": dict(
        text=BOUNDED + "E2 part, program side, full u128 width: the MIR of the real Store::order_fee_discount_factor, GtState::order_fee_discount_factor, Store::get_factor_by_key / "
             "Factors::get (plus gmsol-model's apply_factor / checked_mul_div inlined across the crate boundary) is executed on an arbitrary store image restricted to the "
             "fields read (gt.max_rank <= 15, the 16 rank factors <= 100%, the referred-user factor <= 100%), every u8 rank and both referral states: Err exactly when "
             "rank > max_rank, unreferred = the rank factor, referred = B + floor(A*(UNIT-B)/UNIT), always within [0, 100%] and >= both A and B; no panic (array index, overflow) is reachable.",
        note="Assumes the representation invariant gt.max_rank <= MAX_RANK established by GtState::init (without it the array index can panic) and factors <= 100% (validated by "
             "set_order_fee_discount_factors; property quantifier). Anchor error construction is opaque. The SDK copy and the program/SDK equality are not encoded by E2.",
        technique="MIR -> SMT-LIB2 over Int with lazily materialised state struct, z3 (cvc5 cross-check), native replay on a zeroed Store filled through the verif hooks", design="C31", engine="mir2smt"),
    "C32": dict(
        text=BOUNDED + "E2 part, helpers only, full width: the MIR of the real compute_builder_fee_amount, clamp_builder_fee_amount and charge_builder_fee_on_collateral_increment "
             "(with apply_factor, checked_round_up_div, Price::pick_price, <u128 as MulDiv>::checked_mul_div inlined from gmsol-model's MIR) for every u128 size, factor, min/max price "
             "and every u64 increment: factor 0 gives Ok(0) whatever the price; otherwise Ok(fee) iff fee = ceil(floor(size*factor/10^20) / p_min) and no intermediate overflows, "
             "Err exactly for p_min = 0 or an overflowing intermediate; clamp = min(fee, available); charge returns (after, fee) with after + fee = increment and fee the computed "
             "fee fitting u64, Err exactly when the fee cannot be computed, exceeds u64 or exceeds the increment; no panic is reachable.",
        note="estimate_builder_fee_for_collateral_withdrawal (enum comparison from gmsol-utils), Order::record_builder_fee (&mut state) and SettleBuilderFee::invoke (token CPI) are not encoded by E2. "
             "Anchor error construction is opaque.",
        technique="MIR -> SMT-LIB2 over Int across two crates (store + model), z3 (cvc5 cross-check), native replay through ops::order::verif_hooks", design="C32", engine="mir2smt"),
}
