"""Forward symbolic execution of loop-free MIR bodies into SMT-LIB2 over Int.

* every Rust integer is an SMT Int; wrap-around is never implicit: `*WithOverflow` yields the exact
  result plus the exact overflow flag, casts reduce explicitly, a MIR `assert` whose condition can be
  false is recorded as a reachable panic (`Exec.panics`).
* enums Option / Result / ControlFlow / Ordering are (tag, payload per variant); structs and tuples are
  field lists; shared references are the value they point to; `&mut` is supported for whole locals only.
* control flow: the acyclic CFG is executed in topological order, states are merged at join points
  with `ite` on the path condition of the incoming edges.  A back edge raises Unsupported unless the
  caller allows bounded unrolling (`Exec.unroll`), in which case the loop is unrolled up to that many
  header visits and reaching the bound is itself a recorded panic-like obligation.
* calls: a table of exact integer models for library callees (`models.py`, every model used is
  listed in the evidence as trusted base) or inlining of the callee's own MIR (crate-local functions,
  trait methods resolved through the `impl` headers read from the source).
Anything else raises `Unsupported`.
"""
import os
import re

from mirparse import Unsupported, split_top, split_path, scan_top, match_close
from terms import (is_c, smt, t_add, t_sub, t_mul, t_neg, t_eq, t_lt, t_le, t_not, t_and, t_or,
                   t_ite, t_mod_c, t_implies, t_assume, set_bound, bnd)

# ---------------------------------------------------------------------------------------------
# types
# ---------------------------------------------------------------------------------------------
PRIMS = {}
for _b in (8, 16, 32, 64, 128):
    PRIMS[f"u{_b}"] = (0, 2 ** _b - 1)
    PRIMS[f"i{_b}"] = (-2 ** (_b - 1), 2 ** (_b - 1) - 1)
PRIMS["usize"] = PRIMS["u64"]
PRIMS["isize"] = PRIMS["i64"]

SIGNED_OF = {"u8": "i8", "u16": "i16", "u32": "i32", "u64": "i64", "u128": "i128"}
UNSIGNED_OF = {v: k for k, v in SIGNED_OF.items()}


def int_range(ty):
    if ty in PRIMS:
        return PRIMS[ty]
    m = re.match(r"^Uint<(\d+), (\d+)>$", ty)
    if m:
        return (0, 2 ** int(m.group(1)) - 1)
    return None


def is_int_ty(ty):
    return int_range(ty) is not None


STD_NAMES = ("Option", "Result", "ControlFlow", "Infallible", "TryFrom", "TryInto", "From", "Into",
             "Ordering", "TryFromIntError", "Clone", "PartialOrd", "PartialEq", "Ord", "Try",
             "FromResidual", "Mul", "Div", "Add", "Sub", "Rem", "DivAssign", "MulAssign", "AddAssign",
             "SubAssign", "Neg", "Not", "Default", "Range", "IntoIterator", "Iterator", "Index", "Deref")
_STD_RE = re.compile(r"\b(?:std|core)::(?:\w+::)*(" + "|".join(STD_NAMES) + r")\b")
_INT = "(?:u8|u16|u32|u64|u128|i8|i16|i32|i64|i128|usize|isize)"


def normalize(s):
    """Normalise paths and resolve the associated-type projections of the number traits."""
    prev = None
    while prev != s:
        prev = s
        s = _STD_RE.sub(r"\1", s)
        s = re.sub(r"\bruint::Uint<", "Uint<", s)
        s = re.sub(r"\bnum_traits::(?:\w+::)*(\w+)", r"\1", s)
        s = re.sub(r"<(u8|u16|u32|u64|u128) as (?:\w+::)*Unsigned>::Signed",
                   lambda m: SIGNED_OF[m.group(1)], s)
        s = re.sub(r"<(i8|i16|i32|i64|i128) as (?:\w+::)*UnsignedAbs>::Unsigned",
                   lambda m: UNSIGNED_OF[m.group(1)], s)
        s = re.sub(rf"<{_INT} as TryFrom<{_INT}>>::Error", "TryFromIntError", s)
        s = re.sub(rf"<{_INT} as TryInto<{_INT}>>::Error", "TryFromIntError", s)
    return s


def apply_subst(s, subst):
    """Substitute generic parameters (`T`, `Self`, const generics) and, for keys that are not plain
    identifiers, whole projections such as `<Self as BaseMarket<DECIMALS>>::Num` (longest first)."""
    if not subst:
        return s
    keys = sorted(subst, key=lambda k: (re.fullmatch(r"\w+", k) is not None, -len(k)))
    for k in keys:
        v = subst[k]
        if re.fullmatch(r"\w+", k):
            s = re.sub(rf"(?<![\w:]){re.escape(k)}(?![\w])(?!::)", v, s)
        else:
            s = s.replace(k, v)
    return s


def strip_const_suffix(ty):
    """`Fixed<u64, 9_u8>` -> `Fixed<u64, 9>` (type positions only)."""
    return re.sub(rf"\b(\d+)_{_INT}\b", r"\1", ty)


def ty_tree(s):
    s = s.strip()
    if s.startswith("&"):
        rest = s[1:].strip()
        rest = re.sub(r"^'\w+\s+", "", rest)
        if rest.startswith("mut "):
            return ("&mut", [ty_tree(rest[4:])])
        return ("&", [ty_tree(rest)])
    if s.startswith("(") and s.endswith(")") and match_close(s, 0) == len(s) - 1:
        return ("()", [ty_tree(x) for x in split_top(s[1:-1])])
    if s.startswith("[") and s.endswith("]"):
        inner = s[1:-1]
        parts = split_top(inner, ";")
        return ("[]", [ty_tree(p) for p in parts])
    if s.endswith(">") and not s.startswith("<"):
        for i, c, d in scan_top(s):
            if c == "<" and d == 0:
                j = match_close(s, i)
                if j == len(s) - 1:
                    head = s[:i]
                    if head.endswith("::"):
                        head = head[:-2]
                    return (head, [ty_tree(x) for x in split_top(s[i + 1:j])])
                break
    return (s, [])


def ty_str(t):
    h, a = t
    if h == "&":
        return "&" + ty_str(a[0])
    if h == "&mut":
        return "&mut " + ty_str(a[0])
    if h == "()":
        return "(" + ", ".join(ty_str(x) for x in a) + ")"
    if h == "[]":
        return "[" + "; ".join(ty_str(x) for x in a) + "]"
    if not a:
        return h
    return h + "<" + ", ".join(ty_str(x) for x in a) + ">"


def last_seg(p):
    return split_path(p)[-1]


def unify(pat, conc, vars_, out):
    """Unify type tree `pat` (variables `vars_`) with concrete tree `conc`; bindings into `out`."""
    h, a = pat
    if h in vars_ and not a:
        s = ty_str(conc)
        if h in out and strip_const_suffix(out[h]) != strip_const_suffix(s):
            return False
        out.setdefault(h, s)
        return True
    ch, ca = conc
    if not a and not ca:
        return strip_const_suffix(last_seg(h)) == strip_const_suffix(last_seg(ch))
    if last_seg(h) != last_seg(ch) or len(a) != len(ca):
        return False
    return all(unify(x, y, vars_, out) for x, y in zip(a, ca))


class ImplHeader:
    def __init__(self, generics, trait, self_ty, text):
        self.generics = generics      # [(name, const_type|None)]
        self.trait = trait
        self.self_ty = self_ty
        self.text = text


def parse_generics(g):
    out = []
    for p in split_top(g):
        p = p.strip()
        if p.startswith("'"):
            continue
        m = re.match(r"^const (\w+)\s*:\s*(\w+)", p)
        if m:
            out.append((m.group(1), m.group(2)))
            continue
        m = re.match(r"^(\w+)", p)
        out.append((m.group(1), None))
    return out


def parse_impl_header(text):
    t = " ".join(text.split())
    if not t.startswith("impl"):
        return None
    t = t[4:].strip()
    generics = []
    if t.startswith("<"):
        j = match_close(t, 0)
        generics = parse_generics(t[1:j])
        t = t[j + 1:].strip()
    t = re.split(r"\bwhere\b", t)[0].strip().rstrip("{").strip()
    trait = None
    # top-level " for "
    for i, c, d in scan_top(t):
        if d == 0 and t[i:i + 5] == " for ":
            trait = t[:i].strip()
            t = t[i + 5:].strip()
            break
    return ImplHeader(generics, trait, t, text)


# ---------------------------------------------------------------------------------------------
# values
# ---------------------------------------------------------------------------------------------
class I:
    __slots__ = ("t", "ty")

    def __init__(self, t, ty):
        assert not isinstance(t, bool), t
        self.t, self.ty = t, ty

    def __repr__(self):
        return f"I({self.t}:{self.ty})"


class Bv:
    __slots__ = ("t",)

    def __init__(self, t):
        self.t = t

    def __repr__(self):
        return f"Bv({self.t})"


class Tup:
    __slots__ = ("fs",)

    def __init__(self, fs):
        self.fs = tuple(fs)

    def __repr__(self):
        return f"Tup{self.fs}"


class St:
    __slots__ = ("name", "fs")

    def __init__(self, name, fs):
        self.name, self.fs = name, tuple(fs)

    def __repr__(self):
        return f"St({self.name}{self.fs})"


ENUMS = {
    "Option": {"None": 0, "Some": 1},
    "Result": {"Ok": 0, "Err": 1},
    "ControlFlow": {"Continue": 0, "Break": 1},
    "Ordering": {"Less": -1, "Equal": 0, "Greater": 1},
}


class En:
    __slots__ = ("kind", "tag", "pl")

    def __init__(self, kind, tag, pl):
        self.kind, self.tag, self.pl = kind, tag, pl   # pl: {variant: tuple(values)}

    def __repr__(self):
        return f"En({self.kind} tag={self.tag} {self.pl})"

    def is_(self, variant):
        if self.kind not in ENUMS:
            raise Unsupported(f"variant test on user enum {self.kind}")
        return t_eq(self.tag, ENUMS[self.kind][variant])


class Ref:
    __slots__ = ("v",)

    def __init__(self, v):
        self.v = v

    def __repr__(self):
        return f"Ref({self.v})"


class RefMut:
    """&mut to a local of an active frame, optionally to a place inside it: `path` is a tuple of
    ('field', i) / ('payload', variant, i) steps."""
    __slots__ = ("depth", "lid", "path")

    def __init__(self, depth, lid, path=()):
        self.depth, self.lid, self.path = depth, lid, tuple(path)

    def load(self, ex):
        v = ex.frames[self.depth][self.lid]
        for p in self.path:
            if p[0] == "field":
                v = v.fs[p[1]]
            else:
                v = v.pl[p[1]][p[2]]
        return v

    def store(self, ex, new, extra=()):
        """Functional update of the target (followed by further ('field', i) steps `extra`)."""
        def upd(cur, path):
            if not path:
                return new
            p = path[0]
            if p[0] == "field" and isinstance(cur, (Tup, St)):
                fs = list(cur.fs)
                fs[p[1]] = upd(fs[p[1]], path[1:])
                return Tup(fs) if isinstance(cur, Tup) else St(cur.name, fs)
            if p[0] == "payload" and isinstance(cur, En):
                pl = dict(cur.pl)
                fs = list(pl[p[1]])
                fs[p[2]] = upd(fs[p[2]], path[1:])
                pl[p[1]] = tuple(fs)
                return En(cur.kind, cur.tag, pl)
            raise Unsupported(f"write through &mut into {cur!r} at {path}")
        fr = ex.frames[self.depth]
        updated = upd(fr[self.lid], self.path + tuple(extra))
        if self.depth != len(ex.frames) - 1:
            # write from an inlined callee into a caller's local: the caller's state is shared by all the
            # callee's paths, so the write is guarded by the current path condition
            updated = vite(ex.pc, updated, fr[self.lid])
        fr[self.lid] = updated


class Sl:
    """A slice &[T] = the first `len` elements (symbolic length) of a fixed array of values."""
    __slots__ = ("fs", "len")

    def __init__(self, fs, length):
        self.fs, self.len = tuple(fs), length

    def __repr__(self):
        return f"Sl({len(self.fs)} elems, len={self.len})"


class LazySt:
    """A struct whose fields are produced on demand by `provider(exec, struct type, field index, field
    type)` - used for large zero-copy state structs of which a function reads a few fields.  The
    provider maps (type, index) to the obligation's symbolic inputs and raises Unsupported for any
    field it does not know, so no field is ever invented silently."""
    __slots__ = ("ty", "provider", "memo")

    def __init__(self, ty, provider):
        self.ty, self.provider, self.memo = ty, provider, {}

    def field(self, ex, idx, fty):
        if idx not in self.memo:
            self.memo[idx] = self.provider(ex, self.ty, idx, normalize(fty))
        return self.memo[idx]

    def __repr__(self):
        return f"LazySt({self.ty})"


class Opq:
    """Opaque value: error payloads, zero-sized closures, strings.  Never inspected."""
    __slots__ = ("d",)

    def __init__(self, d):
        self.d = d

    def __repr__(self):
        return f"Opq({self.d})"


UNIT = Tup(())


def mk_option(some_cond, payload):
    return En("Option", t_ite(some_cond, 1, 0), {"Some": (payload,)})


def mk_result(ok_cond, ok_payload, err_payload):
    return En("Result", t_ite(ok_cond, 0, 1), {"Ok": (ok_payload,), "Err": (err_payload,)})


def vassume(v, cond, truth):
    """Simplify a value knowing that the Bool term `cond` is `truth` (used on the success edge of a
    MIR `assert`: `(ite overflow wrapped exact)` becomes `exact`)."""
    if isinstance(v, I):
        t = t_assume(v.t, cond, truth)
        return v if t is v.t else I(t, v.ty)
    if isinstance(v, Bv):
        t = t_assume(v.t, cond, truth)
        return v if t is v.t else Bv(t)
    if isinstance(v, Tup):
        fs = [vassume(f, cond, truth) for f in v.fs]
        return v if all(x is y for x, y in zip(fs, v.fs)) else Tup(fs)
    if isinstance(v, St):
        fs = [vassume(f, cond, truth) for f in v.fs]
        return v if all(x is y for x, y in zip(fs, v.fs)) else St(v.name, fs)
    return v


def vite(c, a, b):
    """Structural if-then-else on values."""
    if is_c(c):
        return a if c else b
    if a is b:
        return a
    if a is None:
        return b
    if b is None:
        return a
    if isinstance(a, I) and isinstance(b, I):
        if a.ty != b.ty:
            raise Unsupported(f"merge of different int types {a.ty} / {b.ty}")
        return I(t_ite(c, a.t, b.t), a.ty)
    if isinstance(a, Bv) and isinstance(b, Bv):
        return Bv(t_ite(c, a.t, b.t))
    if isinstance(a, Tup) and isinstance(b, Tup) and len(a.fs) == len(b.fs):
        return Tup(vite(c, x, y) for x, y in zip(a.fs, b.fs))
    if isinstance(a, St) and isinstance(b, St) and a.name == b.name and len(a.fs) == len(b.fs):
        return St(a.name, (vite(c, x, y) for x, y in zip(a.fs, b.fs)))
    if isinstance(a, En) and isinstance(b, En) and a.kind == b.kind:
        pl = {}
        for k in set(a.pl) | set(b.pl):
            x, y = a.pl.get(k), b.pl.get(k)
            if x is None:
                pl[k] = y
            elif y is None:
                pl[k] = x
            else:
                if len(x) != len(y):
                    raise Unsupported("enum payload arity mismatch")
                pl[k] = tuple(vite(c, p, q) for p, q in zip(x, y))
        return En(a.kind, t_ite(c, a.tag, b.tag), pl)
    if isinstance(a, Ref) and isinstance(b, Ref):
        return Ref(vite(c, a.v, b.v))
    if isinstance(a, RefMut) and isinstance(b, RefMut) and (a.depth, a.lid, a.path) == (b.depth, b.lid, b.path):
        return a
    if isinstance(a, Opq) and isinstance(b, Opq):
        return a if a.d == b.d else Opq(f"({a.d}|{b.d})"[:80])
    if isinstance(a, LazySt) and isinstance(b, LazySt) and a is b:
        return a
    ua = isinstance(a, Opq) or (isinstance(a, En) and a.kind.startswith("user:"))
    ub = isinstance(b, Opq) or (isinstance(b, En) and b.kind.startswith("user:"))
    if ua and ub and (isinstance(a, Opq) or isinstance(b, Opq) or a.kind != b.kind):
        return Opq("(merged opaque values)")        # error codes / payloads that are never inspected
    raise Unsupported(f"cannot merge values {a!r} / {b!r}")


# ---------------------------------------------------------------------------------------------
# world: parsed MIR + source access
# ---------------------------------------------------------------------------------------------
class World:
    def __init__(self, items, repo, assoc_checks=()):
        self.items = items
        self.repo = repo
        self.by_last = {}
        seen = set()
        for it in items:
            key = (it.kind, it.name, tuple(it.args))
            if key in seen:
                # second copy = "MIR FOR CTFE" of a const fn / ctor shim: keep the runtime body
                continue
            seen.add(key)
            self.by_last.setdefault(it.last, []).append(it)
        self._src = {}
        self._txt = {}
        self._hdr = {}
        self.crate_dirs = []
        self.extra_src_dirs = []     # source dirs searched for type declarations only (no MIR)

    def snapshot_sources(self):
        """Read every source file of the crates of this world now (right after the MIR dump), so that impl
        headers / struct declarations are taken from the same tree state as the MIR even if files change later."""
        for d in self.crate_dirs + self.extra_src_dirs:
            for root, _, files in os.walk(os.path.join(self.repo, d)):
                for f in files:
                    if f.endswith(".rs"):
                        p = os.path.join(root, f)
                        self._txt[os.path.relpath(p, self.repo)] = open(p).read()

    def read(self, rel):
        if rel not in self._txt:
            self._txt[rel] = open(os.path.join(self.repo, rel)).read()
        return self._txt[rel]

    def src_lines(self, rel):
        if rel not in self._src:
            self._src[rel] = self.read(rel).split("\n")
        return self._src[rel]

    def impl_header(self, it):
        sp = it.impl_span()
        if sp is None:
            return None
        if sp in self._hdr:
            return self._hdr[sp]
        rel, l1, c1, l2, c2 = sp
        lines = self.src_lines(rel)
        if l1 == l2:
            text = lines[l1 - 1][c1 - 1:c2 - 1]
        else:
            text = "\n".join([lines[l1 - 1][c1 - 1:]] + lines[l1:l2 - 1] + [lines[l2 - 1][:c2 - 1]])
        h = parse_impl_header(text)
        self._hdr[sp] = h
        return h

    def check_assoc_types(self, crate_src_file):
        """The projection table in normalize() (`<u64 as Unsigned>::Signed = i64` ...) is checked
        against the source on every run."""
        txt = self.read(crate_src_file)
        for u, s in (("u64", "i64"), ("u128", "i128")):
            if not re.search(rf"impl Unsigned for {u} \{{\s*type Signed = {s};", txt):
                raise Unsupported(f"source no longer says `impl Unsigned for {u} {{ type Signed = {s}; }}`")
            if not re.search(rf"impl UnsignedAbs for {s} \{{\s*type Unsigned = {u};", txt):
                raise Unsupported(f"source no longer says `impl UnsignedAbs for {s} {{ type Unsigned = {u}; }}`")

    def struct_fields(self, rel, name):
        """Field names of `struct name` in declaration order, read from the source file `rel`."""
        txt = self.read(rel)
        m = re.search(rf"\bstruct {re.escape(name)}\b[^{{;]*\{{", txt)
        if not m:
            raise Unsupported(f"struct {name} not found in {rel}")
        j = match_close(txt, m.end() - 1)
        body = re.sub(r"/\*.*?\*/", "", txt[m.end():j], flags=re.S)
        body = re.sub(r"//[^\n]*", "", body)
        body = re.sub(r"#\[[^\]]*\]", "", body)
        out = []
        for f in split_top(body):
            fm = re.match(r"^(?:pub(?:\([^)]*\))?\s+)?(\w+)\s*:", f.strip())
            if not fm:
                raise Unsupported(f"field syntax {f!r} in struct {name}")
            out.append(fm.group(1))
        return out

    def pod_layout(self, rel, name):
        """Byte layout {field: (offset, size)} and total size of a `#[zero_copy]` (repr(C), Pod: no implicit
        padding) struct whose fields are primitive integers or arrays of them, read from the source;
        array lengths may use `const NAME: usize = <int>;` of the same file and `NAME + <int>`."""
        txt = self.read(rel)
        m = re.search(rf"\bstruct {re.escape(name)}\b[^{{;]*\{{", txt)
        if not m:
            raise Unsupported(f"struct {name} not found in {rel}")
        j = match_close(txt, m.end() - 1)
        body = re.sub(r"/\*.*?\*/", "", txt[m.end():j], flags=re.S)
        body = re.sub(r"//[^\n]*", "", body)
        body = re.sub(r"#\[[^\]]*\]", "", body)
        consts = {c.group(1): int(c.group(2)) for c in re.finditer(r"const (\w+): usize = (\d+);", txt)}

        def length(e):
            e = e.strip()
            mm = re.fullmatch(r"(\w+)\s*\+\s*(\d+)", e)
            if mm and mm.group(1) in consts:
                return consts[mm.group(1)] + int(mm.group(2))
            if e in consts:
                return consts[e]
            if e.isdigit():
                return int(e)
            raise Unsupported(f"array length {e!r} in struct {name}")

        def size(t):
            t = t.strip()
            if t in PRIMS and t not in ("usize", "isize"):
                return (PRIMS[t][1] - PRIMS[t][0] + 1).bit_length() // 8
            mm = re.fullmatch(r"\[(.*);(.*)\]", t)
            if mm:
                return size(mm.group(1)) * length(mm.group(2))
            raise Unsupported(f"field type {t!r} in struct {name}: layout not computable")
        out, off = {}, 0
        for f in split_top(body):
            fm = re.match(r"^(?:pub(?:\([^)]*\))?\s+)?(\w+)\s*:\s*(.*)$", f.strip(), re.S)
            if not fm:
                raise Unsupported(f"field syntax {f!r} in struct {name}")
            sz = size(fm.group(2))
            out[fm.group(1)] = (off, sz)
            off += sz
        return out, off

    def enum_variants(self, name):
        """{variant: discriminant} of the fieldless enum `name` declared in one of the workspace crates
        of this world (None if not found / not fieldless / declared more than once)."""
        key = ("enum", name)
        if key in self._hdr:
            return self._hdr[key]
        found = []
        for d in self.crate_dirs + self.extra_src_dirs:
            for root, _, files in os.walk(os.path.join(self.repo, d)):
                for f in files:
                    if f.endswith(".rs"):
                        txt = self.read(os.path.relpath(os.path.join(root, f), self.repo))
                        for m in re.finditer(rf"\benum {re.escape(name)}\s*\{{", txt):
                            j = match_close(txt, m.end() - 1)
                            found.append(txt[m.end():j])
        res = None
        if len(found) == 1:
            body = re.sub(r"/\*.*?\*/", "", found[0], flags=re.S)
            body = re.sub(r"//[^\n]*", "", body)
            body = re.sub(r"#\[[^\]]*\]", "", body)
            res, nxt = {}, 0
            for v in split_top(body):
                vm = re.fullmatch(r"(\w+)(?:\s*=\s*(\d+))?", v.strip())
                if not vm:
                    res = None
                    break
                if vm.group(2):
                    nxt = int(vm.group(2))
                res[vm.group(1)] = nxt
                nxt += 1
        self._hdr[key] = res
        return res

    # ---- lookup -------------------------------------------------------------------------
    def find_trait_item(self, self_ty, trait, name, kind):
        """`<self_ty as trait>::name` -> (item, subst) or None if the trait is not implemented in this
        crate for that type (=> external)."""
        ttree = ty_tree(normalize(trait))
        stree = ty_tree(strip_const_suffix(normalize(self_ty)))
        matches = []
        for it in self.by_last.get(name, []):
            if it.kind != kind:
                continue
            h = self.impl_header(it)
            if h is None or h.trait is None:
                continue
            htree = ty_tree(normalize(h.trait))
            if last_seg(htree[0]) != last_seg(ttree[0]):
                continue
            vars_ = {g for g, _ in h.generics}
            out = {}
            if not unify(ty_tree(normalize(h.self_ty)), stree, vars_, out):
                continue
            if len(htree[1]) == len(ttree[1]) and not all(
                    unify(x, y, vars_, out) for x, y in zip(htree[1], ttree[1])):
                continue
            for g, cty in h.generics:
                if g not in out:
                    raise Unsupported(f"impl generic {g} not determined for {it.name}")
                if cty and re.fullmatch(r"\d+", out[g]):
                    out[g] = f"{out[g]}_{cty}"
            matches.append((it, out))
        if len(matches) > 1:
            raise Unsupported(f"ambiguous impl for <{self_ty} as {trait}>::{name}")
        if matches:
            return matches[0]
        # default method of a trait defined in this crate
        defaults = []
        for it in self.by_last.get(name, []):
            if it.kind != kind or it.impl_span() is not None:
                continue
            p = split_path(it.name)
            if len(p) >= 2 and p[-2] == last_seg(ttree[0]):
                defaults.append(it)
        if len(defaults) > 1:
            raise Unsupported(f"ambiguous default method {trait}::{name}")
        if defaults:
            if ttree[1]:
                raise Unsupported(f"default method of generic trait {trait}")
            return defaults[0], {"Self": normalize(self_ty)}
        return None

    def find_path_item(self, path, kind):
        """Inherent method / free function / const by (possibly longer or shorter) path."""
        segs = split_path(path)
        turbofish = None
        if segs[-1].startswith("<") and kind == "fn":
            turbofish = segs[-1]
            segs = segs[:-1]
        name = segs[-1]
        cands = [it for it in self.by_last.get(name, []) if it.kind == kind]
        if not cands:
            return None
        out = []
        for it in cands:
            h = self.impl_header(it) if it.impl_span() else None
            if h is not None:
                if h.trait is not None or len(segs) < 2:
                    continue
                # header: mod::<impl at ..>::item[::nested...]; reference: mod::Type[::<args>]::item[::nested...]
                ip = split_path(it.name)
                ki = [n for n, x in enumerate(ip) if x.startswith("<impl at")][-1]
                tail = ip[ki + 1:]
                if len(segs) <= len(tail) or segs[-len(tail):] != tail:
                    continue
                # Type::<args>::name  or Type::name
                tsegs = segs[:-len(tail)]
                targs = None
                if tsegs[-1].startswith("<"):
                    targs = tsegs[-1]
                    tsegs = tsegs[:-1]
                if not tsegs:
                    continue
                conc = tsegs[-1] + (targs if targs else "")
                vars_ = {g for g, _ in h.generics}
                b = {}
                ptree = ty_tree(normalize(h.self_ty))
                ctree = ty_tree(strip_const_suffix(normalize(conc)))
                if targs is None and ptree[1]:
                    # `Decimal::multiplier` style without generics on a generic type: no binding
                    if last_seg(ptree[0]) != last_seg(ctree[0]):
                        continue
                    if h.generics:
                        raise Unsupported(f"generic inherent impl without explicit args: {path}")
                elif not unify(ptree, ctree, vars_, b):
                    continue
                for g, cty in h.generics:
                    if g not in b:
                        raise Unsupported(f"impl generic {g} not determined for {it.name}")
                    if cty and re.fullmatch(r"\d+", b[g]):
                        b[g] = f"{b[g]}_{cty}"
                out.append((it, b))
            elif it.impl_span() is None:
                ip = split_path(it.name)
                n = min(len(ip), len(segs))
                if ip[-n:] == segs[-n:]:
                    out.append((it, {}))
        if len(out) > 1:
            raise Unsupported(f"ambiguous path {path}: {[o[0].name for o in out]}")
        if not out:
            return None
        it, b = out[0]
        if turbofish is not None:
            gens = self.fn_generics(it)
            targs = split_top(turbofish[1:-1])
            gens = [g for g in gens if g[0] not in b]
            if len(gens) != len(targs):
                raise Unsupported(f"turbofish arity for {path}")
            for (g, cty), a in zip(gens, targs):
                b[g] = f"{a}_{cty}" if (cty and re.fullmatch(r"\d+", a)) else a
        return it, b

    def fn_generics(self, it):
        """Generic parameter names of a crate function, read from its source `fn name<...>`."""
        name = it.last
        found = []
        dirs = list(self.crate_dirs)
        if not dirs:
            for cand in self.items:
                sp = cand.impl_span()
                if sp:
                    dirs = [sp[0].split("/src/")[0] + "/src"]
                    break
        for crate_dir in dirs:
            for root, _, files in os.walk(os.path.join(self.repo, crate_dir)):
                for f in files:
                    if f.endswith(".rs"):
                        txt = self.read(os.path.relpath(os.path.join(root, f), self.repo))
                        for m in re.finditer(rf"\bfn {re.escape(name)}\s*<", txt):
                            j = match_close(txt, m.end() - 1)
                            found.append(parse_generics(txt[m.end():j]))
        if len(found) != 1:
            raise Unsupported(f"cannot determine generics of fn {name} ({len(found)} definitions)")
        return found[0]


# ---------------------------------------------------------------------------------------------
# executor
# ---------------------------------------------------------------------------------------------
BINOPS = ("AddWithOverflow", "SubWithOverflow", "MulWithOverflow", "AddUnchecked", "SubUnchecked",
          "MulUnchecked", "Add", "Sub", "Mul", "Div", "Rem", "Eq", "Ne", "Lt", "Le", "Gt", "Ge",
          "BitAnd", "BitOr", "BitXor", "Shl", "Shr", "ShlUnchecked", "ShrUnchecked", "Cmp", "Offset")
SKIP_STMT = re.compile(r"^(StorageLive|StorageDead|ConstEvalCounter|nop|Retag|FakeRead|PlaceMention|"
                       r"AscribeUserType|Coverage)\b")
MAX_INLINE_DEPTH = 12


class Exec:
    def __init__(self, world, models, div_mode="qr"):
        import terms
        terms._BND.clear()       # interval knowledge is per obligation (symbol names are reused)
        self.w = world
        self.models = models
        self.div_mode = div_mode
        self.decls = []          # SMT lines: declarations and definitional side constraints
        self.panics = []         # [(label, condition term)]
        self.wraps = []          # [(label, condition term)]: silent wrap-around in a library model
        self.trusted = set()
        self.functions = []
        self.nfresh = 0
        self.frames = []         # current state dict of every active frame (for &mut)
        self.pc = True
        self.unroll = 0
        self.const_cache = {}
        self.subst_stack = []
        self.stubs = []          # [(compiled regex, fn(ex, match, args))]: environment stubs of one obligation
        self.tap_rx = []         # [(name, compiled regex)]: calls whose arguments / result the specification refers to
        self.taps = {}           # name -> (args, result) of the single matching call

    # ---- SMT plumbing ---------------------------------------------------------------------
    def fresh(self, hint, sort="Int"):
        self.nfresh += 1
        n = f"{re.sub(r'[^A-Za-z0-9_]', '_', hint)}!{self.nfresh}"
        n = f"|{n}|"
        self.decls.append(f"(declare-const {n} {sort})")
        return n

    def sym_int(self, name, ty):
        if ty == "int":            # unbounded mathematical integer (specification-only ghost values)
            self.decls.append(f"(declare-const {name} Int)")
            return I(name, ty)
        lo, hi = int_range(ty)
        self.decls.append(f"(declare-const {name} Int)")
        self.decls.append(f"(assert (and (<= {smt(lo)} {name}) (<= {name} {smt(hi)})))")
        set_bound(name, lo, hi)
        return I(name, ty)

    def sym_bool(self, name):
        self.decls.append(f"(declare-const {name} Bool)")
        return Bv(name)

    def name_term(self, t, hint, sort="Int"):
        """Give a big term a name (keeps the formula a DAG)."""
        if is_c(t) or len(t) < 40:
            return t
        self.nfresh += 1
        n = f"|{re.sub(r'[^A-Za-z0-9_]', '_', hint)}!{self.nfresh}|"
        self.decls.append(f"(define-fun {n} () {sort} {t})")
        if sort == "Int":
            set_bound(n, *bnd(t))
        return n

    def side(self, f):
        if f is True:
            return
        self.decls.append(f"(assert {smt(f)})")

    def panic(self, label, cond):
        c = t_and(self.pc, cond)
        if c is False:
            return
        self.panics.append((label, c))
        self.pc = t_and(self.pc, t_not(cond))

    def wrap_possible(self, label, cond):
        """A library operation that wraps silently (ruint `*`): recorded as its own obligation."""
        c = t_and(self.pc, cond)
        if c is not False:
            self.wraps.append((label, c))

    # ---- integer helpers used by statements and models -----------------------------------------
    def in_range(self, t, ty):
        lo, hi = int_range(ty)
        return t_and(t_le(lo, t), t_le(t, hi))

    def udivrem(self, a, b, hint="q"):
        """Euclidean quotient/remainder of a by b for b > 0 (callers guard b == 0; equals Rust's
        unsigned `/`, `%` for a >= 0).  With a symbolic operand the quotient is a fresh pair (q, r)
        constrained by a = q*b + r, 0 <= r < b under the guard b > 0 (a conservative extension: always
        satisfiable, unique when b > 0)."""
        if is_c(a) and is_c(b):
            if b == 0:
                return 0, 0
            return a // b, a % b
        if self.div_mode == "native":
            return f"(div {smt(a)} {smt(b)})", f"(mod {smt(a)} {smt(b)})"
        if is_c(b) and b > 0 and isinstance(a, str):
            folded = self.fold_div_const(a, b)
            if folded is not None:
                return folded
        q = self.fresh(hint + "_q")
        r = self.fresh(hint + "_r")
        an = self.name_term(a, hint + "_n")

        # (a >= 0 => q >= 0) is a consequence, added as a hint; the constraint stays satisfiable for
        # every value of a and b (also negative a on paths that are excluded by an overflow assert),
        # so it can never make a query vacuous.
        self.side(t_implies(t_lt(0, b), t_and(t_eq(an, t_add(t_mul(q, b), r)), t_le(0, r), t_lt(r, b),
                                              t_implies(t_le(0, an), t_le(0, q)))))
        alo, ahi = bnd(an)
        if is_c(b) and b > 0 and alo is not None and alo >= 0:
            # consequences of the defining constraint just asserted (unconditional for a positive constant b);
            # registered only now, so that the constraint itself is not folded away
            set_bound(q, alo // b, ahi // b if ahi is not None else None)
            set_bound(r, 0, b - 1)
        return q, r

    @staticmethod
    def fold_div_const(a, b):
        """a = k*b + (x1*b) + ... + r with 0 <= r < b known by interval bounds  ->  (k + x1 + ..., r), exactly."""
        def addends(t):
            m = re.match(r"^\(\+ (.*)\)$", t) if isinstance(t, str) else None
            if not m:
                return [t]
            parts, depth, cur = [], 0, ""
            for ch in m.group(1):
                if ch == " " and depth == 0:
                    parts.append(cur)
                    cur = ""
                    continue
                depth += ch == "("
                depth -= ch == ")"
                cur += ch
            parts.append(cur)
            if len(parts) != 2:
                return [t]
            out = []
            for p in parts:
                out += addends(int(p) if re.fullmatch(r"-?\d+", p) else p)
            return out
        q, r = 0, None
        for x in addends(a):
            if isinstance(x, int):
                if x % b or x < 0:
                    return None
                q = t_add(q, x // b)
                continue
            m = re.match(rf"^\(\* (\S+) {b}\)$|^\(\* {b} (\S+)\)$", x)
            lo, hi = bnd(x)
            if m and bnd(m.group(1) or m.group(2))[0] is not None and bnd(m.group(1) or m.group(2))[0] >= 0:
                q = t_add(q, m.group(1) or m.group(2))
            elif r is None and lo is not None and hi is not None and 0 <= lo and hi < b:
                r = x
            else:
                return None
        return (q, r if r is not None else 0)

    def sdivrem(self, a, b, hint="sq"):
        """Rust signed `/` and `%`: truncation toward zero."""
        if is_c(a) and is_c(b) and b != 0:
            q = abs(a) // abs(b)
            q = q if (a >= 0) == (b > 0) else -q
            return q, a - q * b
        aa = t_ite(t_le(0, a), a, t_neg(a))
        ab = t_ite(t_lt(0, b), b, t_neg(b))
        uq, ur = self.udivrem(self.name_term(aa, "abs"), self.name_term(ab, "abs"), hint)
        same = t_eq(t_le(0, a), t_lt(0, b))
        return t_ite(same, uq, t_neg(uq)), t_ite(t_le(0, a), ur, t_neg(ur))

    def wrap(self, t, ty):
        lo, hi = int_range(ty)
        m = hi - lo + 1
        if is_c(t):
            return (t - lo) % m + lo
        if lo == 0:
            return t_mod_c(t, m)
        return t_add(t_mod_c(t_sub(t, lo), m), lo)

    # ---- running an item -----------------------------------------------------------------------
    def run(self, item, subst, args, label=None, init_locals=None):
        """Symbolically execute `item` with argument values; returns the value of _0.  self.pc is the
        path condition on entry and, on return, the condition under which the call returned."""
        if len(self.frames) > MAX_INLINE_DEPTH:
            raise Unsupported(f"inline depth exceeded at {item.name}")
        if item.inline_const is not None:
            return self.operand(item.inline_const, {}, {})
        if len(args) != len(item.args):
            raise Unsupported(f"arity mismatch calling {item.name}")
        desc = item.name + (" [" + ", ".join(f"{k}={v}" for k, v in sorted(subst.items())) + "]" if subst else "")
        if desc not in self.functions:
            self.functions.append(desc)
        st0 = {a: v for (a, _), v in zip(item.args, args)}
        st0.update(init_locals or {})       # "$name" pseudo-locals: pointees of &mut arguments of the root function
        fin = None
        blocks = item.blocks
        order, loops = self.topo(item)
        if loops and not self.unroll:
            raise Unsupported(f"loop in {item.name} (back edge {loops[0]})")
        if loops:
            item = self.unrolled(item, loops, self.unroll)
            blocks = item.blocks
            order, loops2 = self.topo(item)
            if loops2:
                raise Unsupported(f"nested / irreducible loop in {item.name}")
        incoming = {b: [] for b in order}
        incoming["bb0"].append((self.pc, st0))
        ret = None
        ret_pc = False
        depth = len(self.frames)
        self.frames.append(None)
        self.subst_stack.append(subst)
        try:
            for bname in order:
                edges = incoming[bname]
                edges = [(p, s) for p, s in edges if p is not False]
                if not edges:
                    continue
                pc, st = self.merge_edges(edges)
                self.pc = pc
                self.frames[depth] = st
                outs = self.exec_block(item, subst, blocks[bname], st, depth)
                for tgt, cond in outs:
                    if tgt == "return":
                        c = t_and(self.pc, cond)
                        v = st.get("_0")
                        if v is None:
                            if normalize(apply_subst(item.ret, subst)) == "()":
                                v = UNIT
                            else:
                                raise Unsupported(f"return without _0 in {item.name}")
                        ret = v if ret is None else vite(c, v, ret)
                        if depth == 0:
                            f = {k: x for k, x in st.items() if k.startswith("$")}
                            fin = f if fin is None else {k: vite(c, f[k], fin[k]) for k in f}
                        ret_pc = t_or(ret_pc, c)
                    else:
                        incoming[tgt].append((t_and(self.pc, cond), dict(st)))
        finally:
            self.frames.pop()
            self.subst_stack.pop()
        self.pc = ret_pc
        if depth == 0:
            self.root_final = fin or {}
        if ret is None:
            ret = Opq("diverges")
        return ret

    def unrolled(self, item, loops, k):
        """Bounded unrolling of one natural loop: the loop body is copied k times (copy j's back edge
        enters copy j+1's header); the back edge of the last copy goes to a block that records
        "loop bound exceeded" as a panic-like obligation, so the bound is checked, never assumed."""
        key = (item.name, k)
        cache = self.__dict__.setdefault("_unrolled", {})
        if key in cache:
            return cache[key]
        heads = {h for _, h in loops}
        if len(heads) != 1:
            raise Unsupported(f"more than one loop in {item.name}")
        h = heads.pop()
        succ = {b.name: [t for t in self.normal_targets(b.term) if t != "return"] for b in item.blocks.values() if not b.cleanup}
        pred = {}
        for u, vs in succ.items():
            for v in vs:
                pred.setdefault(v, []).append(u)
        body = {h}
        work = [u for u, hh in loops]
        while work:
            u = work.pop()
            if u not in body:
                body.add(u)
                work += pred.get(u, [])
        import copy
        from mirparse import Block

        def rename(term, j, last):
            def sub(m):
                t = m.group(0)
                if t not in body:
                    return t
                if t == h:
                    # an edge to the header from inside the body is the back edge
                    return "bb_loop_bound_exceeded" if last else f"{h}__{j + 1}"
                return f"{t}__{j}"
            return re.sub(r"bb\d+(?![\w])", sub, term)
        new = copy.copy(item)
        new.blocks = {}
        for name, b in item.blocks.items():
            if b.cleanup:
                continue
            if name not in body:
                nb = Block(name, False)
                nb.stmts, nb.term = b.stmts, re.sub(rf"{h}(?![\w])", f"{h}__0", b.term)
                new.blocks[name] = nb
                continue
            for j in range(k + 1):
                nb = Block(f"{name}__{j}", False)
                nb.stmts, nb.term = b.stmts, rename(b.term, j, j == k)
                new.blocks[nb.name] = nb
        sink = Block("bb_loop_bound_exceeded", False)
        sink.term = "loop_bound_exceeded"
        new.blocks["bb_loop_bound_exceeded"] = sink
        if "bb0" in body:
            raise Unsupported("loop header is the entry block")
        cache[key] = new
        return new

    def topo(self, item):
        """Topological order of the non-cleanup blocks reachable from bb0 via normal edges."""
        succ = {}
        for b in item.blocks.values():
            if b.cleanup:
                continue
            succ[b.name] = [t for t in self.normal_targets(b.term) if t != "return"]
        order, state, loops = [], {}, []

        def dfs(u):
            state[u] = 1
            for v in succ.get(u, []):
                if v not in succ:
                    raise Unsupported(f"edge to cleanup/unknown block {v} in {item.name}")
                if state.get(v) == 1:
                    loops.append((u, v))
                elif v not in state:
                    dfs(v)
            state[u] = 2
            order.append(u)
        import sys
        sys.setrecursionlimit(10000)
        dfs("bb0")
        return order[::-1], loops

    @staticmethod
    def normal_targets(term):
        if term in ("return",):
            return ["return"]
        if term in ("unreachable", "resume", "loop_bound_exceeded") or term.startswith("abort") or term.startswith("terminate"):
            return []
        m = re.match(r"^goto -> (bb\w+)$", term)
        if m:
            return [m.group(1)]
        if term.startswith("switchInt("):
            j = term.rindex("-> [")
            return re.findall(r": (bb\w+)", term[j:])
        if term.startswith("assert("):
            m = re.search(r"-> \[success: (bb\w+)", term)
            return [m.group(1)]
        if term.startswith("drop("):
            m = re.search(r"-> \[return: (bb\w+)", term)
            return [m.group(1)]
        m = re.search(r" -> \[return: (bb\w+), unwind[^\]]*\]$", term)
        if m:
            return [m.group(1)]
        if re.search(r" -> unwind [a-z()]+$", term) or re.search(r" -> \[unwind[^\]]*\]$", term):
            return []          # diverging call
        m = re.search(r" -> (bb\w+)$", term)
        if m:
            return [m.group(1)]
        raise Unsupported(f"terminator {term!r}")

    def merge_edges(self, edges):
        if len(edges) == 1:
            return edges[0][0], edges[0][1]
        pc = t_or(*[p for p, _ in edges])
        keys = set()
        for _, s in edges:
            keys |= set(s)
        st = {}
        for k in keys:
            v = edges[-1][1].get(k)
            for p, s in reversed(edges[:-1]):
                v = vite(p, s.get(k), v)
            if isinstance(v, I) and isinstance(v.t, str) and len(v.t) > 400:
                v = I(self.name_term(v.t, "phi"), v.ty)          # keep merged values a DAG
            st[k] = v
        if isinstance(pc, str) and len(pc) > 400:
            pc = self.name_term(pc, "pc", "Bool")
        return pc, st

    # ---- blocks ----------------------------------------------------------------------------------
    def exec_block(self, item, subst, blk, st, depth):
        """Execute statements and the terminator; returns [(target, edge condition)]; self.pc is
        updated by asserts/calls inside."""
        for raw in blk.stmts:
            s = normalize(apply_subst(raw, subst))
            if SKIP_STMT.match(s):
                continue
            self.stmt(s, st, item)
        t = normalize(apply_subst(blk.term, subst))
        return self.terminator(t, st, item, subst)

    def stmt(self, s, st, item):
        # PLACE = RVALUE
        k = self.find_assign(s)
        if k is None:
            raise Unsupported(f"statement {s!r} in {item.name}")
        place, rv = s[:k].strip(), s[k + 3:].strip()
        self.dest_ty = None
        if re.fullmatch(r"_\d+", place) and place in item.locals:
            self.dest_ty = normalize(apply_subst(item.locals[place], self.subst_stack[-1] if self.subst_stack else {}))
        v = self.rvalue(rv, st, item)
        self.write_place(place, v, st)

    @staticmethod
    def find_assign(s):
        for i, c, d in scan_top(s):
            if d == 0 and c == " " and s[i:i + 3] == " = ":
                return i
        return None

    # ---- places ----------------------------------------------------------------------------------
    def parse_place(self, s):
        """-> (base local, [projection...]) with projections ('deref',), ('field', i), ('downcast', V),
        ('index', operand-string)"""
        s = s.strip()
        m = re.match(r"^(_\d+)$", s)
        if m:
            return s, []
        if s.startswith("(") and match_close(s, 0) == len(s) - 1:
            inner = s[1:-1].strip()
            if inner.startswith("*"):
                b, p = self.parse_place(inner[1:])
                return b, p + [("deref",)]
            # inner = PLACE as Variant | PLACE.N: TYPE
            if inner.startswith("("):
                j = match_close(inner, 0)
                head, rest = inner[:j + 1], inner[j + 1:]
            else:
                m = re.match(r"^(_\d+)(.*)$", inner)
                if not m:
                    raise Unsupported(f"place {s!r}")
                head, rest = m.group(1), m.group(2)
            b, p = self.parse_place(head)
            m = re.match(r"^ as (\w+)$", rest)
            if m:
                return b, p + [("downcast", m.group(1))]
            m = re.match(r"^\.(\d+): (.*)$", rest)
            if m:
                return b, p + [("field", int(m.group(1)), m.group(2))]
            raise Unsupported(f"place projection {rest!r} in {s!r}")
        m = re.match(r"^(.*)\[(.*)\]$", s)
        if m:
            b, p = self.parse_place(m.group(1))
            return b, p + [("index", m.group(2))]
        raise Unsupported(f"place {s!r}")

    def read_place(self, s, st):
        b, proj = self.parse_place(s)
        if b not in st or st[b] is None:
            raise Unsupported(f"read of uninitialised local {b}")
        v = st[b]
        variant = None
        for p in proj:
            if p[0] == "deref":
                if isinstance(v, Ref):
                    v = v.v
                elif isinstance(v, RefMut):
                    v = v.load(self)
                else:
                    raise Unsupported(f"deref of non-reference {v!r}")
            elif p[0] == "downcast":
                if not isinstance(v, En):
                    raise Unsupported(f"downcast of non-enum {v!r}")
                variant = p[1]
                continue
            elif p[0] == "field":
                if variant is not None:
                    pl = v.pl.get(variant)
                    if pl is None:
                        raise Unsupported(f"payload of variant {variant} never constructed: {v!r}")
                    v = pl[p[1]]
                elif isinstance(v, (Tup, St)):
                    v = v.fs[p[1]]
                elif isinstance(v, LazySt):
                    v = v.field(self, p[1], p[2])
                else:
                    raise Unsupported(f"field of {v!r}")
            elif p[0] == "index":
                idx = self.operand_or_local(p[1], st)
                if not isinstance(v, Tup) or not isinstance(idx, I):
                    raise Unsupported(f"index {p[1]} into {v!r}")
                if is_c(idx.t):
                    v = v.fs[idx.t]
                else:
                    # symbolic index: select by an ite chain; rustc's bounds-check assert precedes the access,
                    # an out-of-range index is additionally recorded as UB here
                    self.panic("UB: array index out of bounds", t_not(t_and(t_le(0, idx.t), t_lt(idx.t, len(v.fs)))))
                    sel = v.fs[-1]
                    for k in range(len(v.fs) - 2, -1, -1):
                        sel = vite(t_eq(idx.t, k), v.fs[k], sel)
                    v = sel
            variant = None
        return v

    def operand_or_local(self, s, st):
        if re.match(r"^_\d+$", s):
            return st[s]
        return self.operand(s, st, None)

    def write_place(self, s, v, st):
        b, proj = self.parse_place(s)
        if not proj:
            st[b] = v
            return
        if proj[0] == ("deref",) and isinstance(st.get(b), RefMut):
            extra = []
            for p in proj[1:]:
                if p[0] != "field":
                    raise Unsupported(f"write through &mut with projection {p} in {s!r}")
                extra.append(("field", p[1]))
            st[b].store(self, v, extra)
            return
        if proj == [("deref",)]:
            raise Unsupported(f"write through non-&mut {st.get(b)!r}")

        def upd(cur, proj):
            if not proj:
                return v
            p = proj[0]
            if p[0] == "field" and isinstance(cur, Tup):
                fs = list(cur.fs)
                fs[p[1]] = upd(fs[p[1]], proj[1:])
                return Tup(fs)
            if p[0] == "field" and isinstance(cur, St):
                fs = list(cur.fs)
                fs[p[1]] = upd(fs[p[1]], proj[1:])
                return St(cur.name, fs)
            raise Unsupported(f"write to projection {proj} of {cur!r}")
        cur = st.get(b)
        if cur is None:
            raise Unsupported(f"field write to uninitialised {b} (place {s})")
        st[b] = upd(cur, proj)

    # ---- operands / rvalues ------------------------------------------------------------------------
    INT_CONST = re.compile(rf"^(-?\d+)_({_INT})$")

    def operand(self, s, st, item):
        s = s.strip()
        if s.startswith("copy ") or s.startswith("move "):
            return self.read_place(s[5:], st)
        if not s.startswith("const "):
            raise Unsupported(f"operand {s!r}")
        c = s[6:].strip()
        m = self.INT_CONST.match(c)
        if m:
            return I(int(m.group(1)), m.group(2))
        if c in ("true", "false"):
            return Bv(c == "true")
        if c.startswith('"') or c.startswith("b\""):
            return Opq("str " + c[:60])
        if c.startswith("ZeroSized:"):
            return Opq(c)
        if c == "()":
            return UNIT
        m = re.match(rf"^(?:core::num::<impl )?({_INT})>?::(MAX|MIN)$", c)
        if m:
            lo, hi = PRIMS[m.group(1)]
            return I(hi if m.group(2) == "MAX" else lo, m.group(1))
        m = re.match(r"^Option::<(.*)>::None$", c)
        if m:
            return En("Option", 0, {})
        # associated const through a trait: <X as Trait>::NAME
        if c.startswith("<"):
            j = match_close(c, 0)
            inner, rest = c[1:j], c[j + 1:]
            m = re.match(r"^::(\w+)$", rest)
            k = None
            for i, ch, d in scan_top(inner):
                if d == 0 and inner[i:i + 4] == " as ":
                    k = i
                    break
            if m and k is not None:
                self_ty, trait = inner[:k], inner[k + 4:]
                r = self.w.find_trait_item(self_ty, trait, m.group(1), "const")
                if r is None:
                    raise Unsupported(f"const {c!r}: no impl found")
                return self.eval_const(*r)
            raise Unsupported(f"const {c!r}")
        # path const (item const, promoted, inherent assoc const)
        r = self.w.find_path_item(c, "const")
        if r is not None:
            return self.eval_const(*r)
        raise Unsupported(f"const operand {c!r}")

    def eval_const(self, it, subst):
        key = (it.name, tuple(sorted(subst.items())))
        if key in self.const_cache:
            return self.const_cache[key]
        save_pc = self.pc
        self.pc = True
        v = self.run(it, subst, [])
        if self.pc is not True:
            raise Unsupported(f"const {it.name} does not evaluate unconditionally")
        self.pc = save_pc
        self.const_cache[key] = v
        return v

    def rvalue(self, rv, st, item):
        if rv.startswith("no_retag "):
            rv = rv[len("no_retag "):]          # Stacked-Borrows annotation on closure captures: no value semantics
        if rv.startswith(("copy ", "move ", "const ")):
            # operand or cast
            k = None
            for i, c, d in scan_top(rv):
                if d == 0 and rv[i:i + 4] == " as " :
                    k = i
            if k is not None and rv.endswith(")"):
                m = re.match(r"^(.*) \((\w+)(?:\(.*\))?\)$", rv[k + 4:])
                if m:
                    return self.cast(self.operand(rv[:k], st, item), m.group(1).strip(), m.group(2), rv)
            return self.operand(rv, st, item)
        if rv.startswith("&"):
            body = rv[1:].strip()
            if body.startswith("mut "):
                b, proj = self.parse_place(body[4:])
                base = None
                if proj and proj[0] == ("deref",) and isinstance(st.get(b), RefMut):
                    base, proj = st[b], proj[1:]              # reborrow through an existing &mut
                elif not proj or proj[0][0] == "field":
                    base = RefMut(len(self.frames) - 1, b)
                if base is None or any(p[0] != "field" for p in proj):
                    raise Unsupported(f"&mut of projection {rv!r}")
                return RefMut(base.depth, base.lid, base.path + tuple(("field", p[1]) for p in proj))
            if body.startswith("raw "):
                raise Unsupported(f"raw pointer {rv!r}")
            b, proj = self.parse_place(body)
            if proj and proj[-1] == ("deref",) :
                # reborrow &(*_x)
                v = self.read_place(body, st)
                return Ref(v)
            return Ref(self.read_place(body, st))
        m = re.match(r"^discriminant\((.*)\)$", rv)
        if m:
            v = self.read_place(m.group(1), st)
            if not isinstance(v, En):
                raise Unsupported(f"discriminant of {v!r}")
            # the discriminant's integer type: i8 for Ordering (-1/0/1), isize for the two-variant enums
            return I(v.tag, "i8" if v.kind == "Ordering" else "isize")
        m = re.match(r"^(\w+)\((.*)\)$", rv)
        if m and m.group(1) in BINOPS:
            a = split_top(m.group(2))
            if len(a) != 2:
                raise Unsupported(f"binop arity {rv!r}")
            return self.binop(m.group(1), self.operand(a[0], st, item), self.operand(a[1], st, item), rv)
        if m and m.group(1) in ("Not", "Neg"):
            v = self.operand(m.group(2), st, item)
            if m.group(1) == "Not":
                if isinstance(v, Bv):
                    return Bv(t_not(v.t))
                raise Unsupported(f"bitwise Not on integer {rv!r}")
            if isinstance(v, I):
                lo, hi = int_range(v.ty)
                # MIR Neg on a signed int wraps for MIN; rustc emits a separate overflow assert
                # (`Eq(x, MIN)`) before it when overflow checks are on.
                return I(self.wrap(t_neg(v.t), v.ty), v.ty)
            raise Unsupported(f"Neg {rv!r}")
        if m and m.group(1) in ("Len", "PtrMetadata", "CopyForDeref", "ShallowInitBox", "ThreadLocalRef",
                                "NullaryOp", "UnaryOp", "Repeat"):
            raise Unsupported(f"rvalue {rv!r}")
        return self.aggregate(rv, st, item)

    def cast(self, v, ty, kind, rv):
        if kind == "IntToInt":
            if isinstance(v, Bv):
                v = I(t_ite(v.t, 1, 0), "u8")
            if not isinstance(v, I) or not is_int_ty(ty):
                raise Unsupported(f"cast {rv!r}")
            slo, shi = int_range(v.ty)
            tlo, thi = int_range(ty)
            if tlo <= slo and shi <= thi:
                return I(v.t, ty)
            vlo, vhi = bnd(v.t)
            if vlo is not None and vhi is not None and tlo <= vlo and vhi <= thi:
                return I(v.t, ty)          # the value's known interval fits the target type: no wrap
            return I(self.name_term(self.wrap(v.t, ty), "cast"), ty)
        if kind == "PointerCoercion" and "Unsize" in rv:
            return v
        raise Unsupported(f"cast kind {kind} in {rv!r}")

    def binop(self, op, a, b, rv):
        if isinstance(a, Bv) and isinstance(b, Bv):
            if op == "Eq":
                return Bv(t_eq(a.t, b.t))
            if op == "Ne":
                return Bv(t_not(t_eq(a.t, b.t)))
            if op == "BitAnd":
                return Bv(t_and(a.t, b.t))
            if op == "BitOr":
                return Bv(t_or(a.t, b.t))
            if op == "BitXor":
                return Bv(t_not(t_eq(a.t, b.t)))
            raise Unsupported(f"bool binop {rv!r}")
        if not (isinstance(a, I) and isinstance(b, I)):
            raise Unsupported(f"binop on non-integers {rv!r}: {a!r} {b!r}")
        shift = op in ("Shl", "Shr", "ShlUnchecked", "ShrUnchecked")
        if a.ty != b.ty and not shift:
            raise Unsupported(f"binop operand types differ {a.ty} {b.ty} in {rv!r}")
        ty = a.ty
        lo, hi = int_range(ty)
        cmpops = {"Eq": lambda: t_eq(a.t, b.t), "Ne": lambda: t_not(t_eq(a.t, b.t)),
                  "Lt": lambda: t_lt(a.t, b.t), "Le": lambda: t_le(a.t, b.t),
                  "Gt": lambda: t_lt(b.t, a.t), "Ge": lambda: t_le(b.t, a.t)}
        if op in cmpops:
            return Bv(cmpops[op]())
        if op == "Cmp":
            return En("Ordering", t_ite(t_lt(a.t, b.t), -1, t_ite(t_eq(a.t, b.t), 0, 1)), {})
        if op in ("AddWithOverflow", "SubWithOverflow", "MulWithOverflow"):
            f = {"Add": t_add, "Sub": t_sub, "Mul": t_mul}[op[:3]]
            exact = self.name_term(f(a.t, b.t), op[:3].lower())
            ovf = t_not(self.in_range(exact, ty))
            # field 0 is the wrapped result (what the hardware would give); the code under
            # analysis only uses it after asserting !overflow, where wrapped == exact.
            return Tup((I(t_ite(ovf, self.wrap(exact, ty), exact), ty), Bv(ovf)))
        if op in ("Add", "Sub", "Mul"):
            # plain Add/Sub/Mul in MIR wrap (they only appear with overflow checks off or in code
            # rustc proved safe); encode the wrap explicitly.
            f = {"Add": t_add, "Sub": t_sub, "Mul": t_mul}[op]
            exact = self.name_term(f(a.t, b.t), op.lower())
            if is_c(exact):
                return I(self.wrap(exact, ty), ty)
            inr = self.in_range(exact, ty)
            return I(t_ite(inr, exact, self.wrap(exact, ty)), ty)
        if op in ("AddUnchecked", "SubUnchecked", "MulUnchecked"):
            f = {"Add": t_add, "Sub": t_sub, "Mul": t_mul}[op[:3]]
            exact = f(a.t, b.t)
            self.panic(f"UB: {op} overflow", t_not(self.in_range(exact, ty)))
            return I(exact, ty)
        if op in ("Div", "Rem"):
            # rustc guards Div/Rem with asserts (zero divisor, MIN / -1); if a guard is missing the
            # operation is UB: record it.
            self.panic(f"UB: {op} by zero", t_eq(b.t, 0))
            if lo < 0:
                self.panic(f"UB: {op} overflow (MIN / -1)", t_and(t_eq(a.t, lo), t_eq(b.t, -1)))
                q, r = self.sdivrem(a.t, b.t, op.lower())
            else:
                q, r = self.udivrem(a.t, b.t, op.lower())
            return I(q if op == "Div" else r, ty)
        if shift:
            if not is_c(b.t):
                raise Unsupported(f"shift by symbolic amount {rv!r}")
            bits = (hi - lo + 1).bit_length() - 1
            if op in ("Shl", "Shr"):
                k = b.t % bits          # MIR Shl/Shr mask the amount; rustc asserts `amount < bits` before
            else:
                k = b.t
            if lo < 0:
                raise Unsupported(f"shift of signed value {rv!r}")
            if op.startswith("Shl"):
                return I(self.wrap(t_mul(a.t, 2 ** k), ty), ty)
            q, _ = self.udivrem(a.t, 2 ** k, "shr")
            return I(q, ty)
        raise Unsupported(f"binop {op} in {rv!r}")

    def aggregate(self, rv, st, item):
        # tuple
        if rv.startswith("(") and match_close(rv, 0) == len(rv) - 1:
            return Tup(self.operand(x, st, item) for x in split_top(rv[1:-1]))
        if rv == "()":
            return UNIT
        # array
        if rv.startswith("[") and rv.endswith("]"):
            inner = rv[1:-1]
            rep = split_top(inner, ";")
            if len(rep) == 2:
                n = self.operand_or_local(rep[1], st) if rep[1].startswith("const ") else None
                cnt = n.t if isinstance(n, I) and is_c(n.t) else (int(rep[1]) if rep[1].isdigit() else None)
                if cnt is None or cnt > 4096:
                    raise Unsupported(f"repeat array {rv!r}")
                x = self.operand(rep[0], st, item)
                return Tup([x] * cnt)
            if len(rep) > 1:
                raise Unsupported(f"repeat array {rv!r}")
            return Tup(self.operand(x, st, item) for x in split_top(inner))
        if rv.startswith("{closure@"):
            # closure value with captured variables: {closure@file:l:c: l:c} { name: operand, .. }
            j = rv.index("}")
            cty, rest = rv[:j + 1], rv[j + 1:].strip()
            if not (rest.startswith("{") and rest.endswith("}")):
                raise Unsupported(f"closure aggregate {rv!r}")
            caps, ops = [], []
            for f in split_top(rest[1:-1]):
                m = re.match(r"^(\w+): (.*)$", f)
                if not m:
                    raise Unsupported(f"closure capture {f!r}")
                ops.append(m.group(2))
                caps.append(self.operand(m.group(2), st, item))
            caps += self.elided_captures(cty, ops, st, item)
            return St(cty, caps)
        # ADT: Path(args) | Path { f: v } | Path
        args = None
        path = rv
        if rv.endswith(")"):
            for i, c, d in scan_top(rv):
                if c == "(" and d == 0 and match_close(rv, i) == len(rv) - 1:
                    path = rv[:i]
                    args = [self.operand(x, st, item) for x in split_top(rv[i + 1:-1])]
                    break
        elif rv.endswith("}"):
            for i, c, d in scan_top(rv):
                if c == "{" and d == 0 and match_close(rv, i) == len(rv) - 1:
                    path = rv[:i].strip()
                    args = []
                    for f in split_top(rv[i + 1:-1]):
                        m = re.match(r"^(\w+): (.*)$", f)
                        if not m:
                            raise Unsupported(f"struct field {f!r}")
                        args.append(self.operand(m.group(2), st, item))
                    break
        if not re.match(r"^[\w:<>,&' \[\];()]+$", path):
            raise Unsupported(f"rvalue {rv!r}")
        segs = [x for x in split_path(path) if not x.startswith("<")]
        name = segs[-1]
        for kind, variants in ENUMS.items():
            if len(segs) >= 2 and segs[-2] == kind and name in variants:
                return En(kind, variants[name], {name: tuple(args or ())})
        if args is None:
            # unit variant of a fieldless enum declared in the workspace: tag = its discriminant
            dty = getattr(self, "dest_ty", None)
            if dty and re.fullmatch(r"[\w:]+", dty):
                variants = self.w.enum_variants(last_seg(dty))
                if variants is not None and name in variants:
                    return En("user:" + last_seg(dty), variants[name], {})
            # unit variant / unit struct of a type we do not model structurally
            return Opq(path)
        if path.startswith("{closure@"):
            return St(path, args)          # closure with captured variables
        if len(segs) >= 2 and re.match(r"^[A-Z]", segs[-2]) and re.match(r"^[A-Z]", name) \
                and not rv.endswith("}"):
            # Enum::Variant(payload) of an unmodelled enum (error types): opaque
            return Opq(path)
        return St(name, args)

    # ---- terminators ----------------------------------------------------------------------------------
    def terminator(self, t, st, item, subst):
        if t == "return":
            return [("return", True)]
        if t == "unreachable":
            self.panic(f"`unreachable` reached in {item.last}", True)
            return []
        if t == "loop_bound_exceeded":
            self.panic(f"loop bound exceeded in {item.last}: more than {self.unroll} iterations (bounded unrolling)", True)
            return []
        m = re.match(r"^goto -> (bb\w+)$", t)
        if m:
            return [(m.group(1), True)]
        if t.startswith("switchInt("):
            j = t.rindex(" -> [")
            v = self.operand(t[len("switchInt("):j - 1], st, item)
            outs = []
            seen = []
            for ent in split_top(t[j + 5:-1]):
                k, tgt = [x.strip() for x in ent.split(":")]
                if k == "otherwise":
                    cond = t_and(*[t_not(c) for c in seen])
                else:
                    kv = int(k)
                    if isinstance(v, Bv):
                        cond = t_not(v.t) if kv == 0 else v.t
                    elif isinstance(v, I):
                        lo, hi = int_range(v.ty)
                        if lo < 0 and kv > hi:
                            kv -= (hi - lo + 1)      # MIR prints switch values as unsigned bit patterns
                        cond = t_eq(v.t, kv)
                    else:
                        raise Unsupported(f"switchInt on {v!r}")
                    seen.append(cond)
                if cond is not False:
                    outs.append((tgt, cond))
            return outs
        if t.startswith("assert("):
            j = t.rindex(" -> [")
            inner = t[len("assert("):j - 1]
            parts = split_top(inner)
            cs = parts[0]
            neg = cs.startswith("!")
            c = self.operand(cs[1:] if neg else cs, st, item)
            if not isinstance(c, Bv):
                raise Unsupported(f"assert on {c!r}")
            ok = t_not(c.t) if neg else c.t
            msg = parts[1].strip('"') if len(parts) > 1 else "assert"
            self.panic(f"panic in {item.last}: {msg}", t_not(ok))
            if not is_c(c.t):
                # on the success edge the asserted condition is known: fold it into the state
                for k in list(st):
                    st[k] = vassume(st[k], c.t, not neg)
            tgt = re.search(r"success: (bb\w+)", t[j:]).group(1)
            return [(tgt, True)]
        if t.startswith("drop("):
            v = t[5:t.index(")")]
            tgt = re.search(r"return: (bb\w+)", t).group(1)
            self.check_drop(st.get(v), item)
            return [(tgt, True)]
        # call
        m = re.search(r" -> \[return: (bb\w+), unwind[^\]]*\]$", t)
        m2 = re.search(r" -> (?:unwind [a-z()]+|\[unwind[^\]]*\])$", t)
        m3 = re.search(r" -> (bb\w+)$", t) if not (m or m2) else None
        mm = m or m2 or m3
        if mm:
            body = t[:mm.start()]
            k = self.find_assign(body)
            if k is None:
                raise Unsupported(f"call without destination {t!r}")
            dest, call = body[:k].strip(), body[k + 3:].strip()
            callee, argstrs = self.split_call(call)
            args = [self.operand(a, st, item) if a.startswith(("copy ", "move ", "const ")) else Opq("fn item " + a)
                    for a in argstrs]
            v = self.call(callee, args, st, item)
            if m2:
                self.panic(f"diverging call {callee[:60]} in {item.last}", True)
                return []
            self.write_place(dest, v, st)
            return [((m or m3).group(1), True)]
        raise Unsupported(f"terminator {t!r} in {item.name}")

    def check_drop(self, v, item):
        """Dropping integers / plain data is a no-op; anything else has drop glue we do not model."""
        if v is None or isinstance(v, (I, Bv, Opq, Ref, RefMut, LazySt, Sl)):
            return
        if isinstance(v, (Tup, St)):
            for f in v.fs:
                self.check_drop(f, item)
            return
        if isinstance(v, En):
            for pl in v.pl.values():
                for f in pl:
                    self.check_drop(f, item)
            return
        raise Unsupported(f"drop of {v!r} in {item.name}")

    @staticmethod
    def split_call(call):
        if not call.endswith(")"):
            raise Unsupported(f"call syntax {call!r}")
        last = None
        for i, c, d in scan_top(call):
            if c == "(" and d == 0:
                last = i
        if last is None or match_close(call, last) != len(call) - 1:
            raise Unsupported(f"call syntax {call!r}")
        return call[:last], split_top(call[last + 1:-1])

    # ---- calls ----------------------------------------------------------------------------------------
    def call(self, callee, args, st, item):
        for rx, f in self.stubs:
            m = rx.match(callee)
            if m:
                return f(self, m, args)
        tapped = [n for n, rx in self.tap_rx if rx.match(callee) and len(self.frames) == 1]
        call_pc = self.pc
        r = self.models.dispatch(self, callee, args)
        if r is NotImplemented:
            # closures passed as values are called through models; direct crate-local calls:
            target = self.resolve_local(callee)
            if target is None:
                raise Unsupported(f"callee {callee!r} (called from {item.name}) has no model and no MIR in this crate")
            it, subst = target
            r = self.run(it, subst, args)
        for n in tapped:
            self.taps.setdefault(n, []).append((list(args), r, call_pc))
        return r

    def resolve_local(self, callee):
        c = callee.strip()
        if c.startswith("<"):
            j = match_close(c, 0)
            inner, rest = c[1:j], c[j + 1:]
            m = re.match(r"^::(\w+)(::<.*>)?$", rest)
            k = None
            for i, ch, d in scan_top(inner):
                if d == 0 and inner[i:i + 4] == " as ":
                    k = i
                    break
            if not m:
                return None
            if k is None:
                return self.w.find_path_item(inner + rest, "fn")
            if m.group(2):
                raise Unsupported(f"generic trait method {callee!r}")
            return self.w.find_trait_item(inner[:k], inner[k + 4:], m.group(1), "fn")
        return self.w.find_path_item(c, "fn")

    def closure_item(self, cty):
        cands = [it for it in self.w.items if it.kind == "fn" and it.args and
                 it.args[0][1].lstrip("&").strip() == cty and "{closure#" in it.name]
        uniq = {}
        for it in cands:
            uniq.setdefault(it.name, it)
        if len(uniq) != 1:
            raise Unsupported(f"closure body for {cty} not found uniquely ({len(uniq)})")
        return next(iter(uniq.values()))

    def elided_captures(self, cty, ops, st, item):
        """rustc's MIR printer zips the captured *variables* with the capture operands, so with precise
        (per-field) captures it prints fewer operands than the closure has.  The missing ones are
        recovered only if unambiguous: the temporaries numbered right after the last printed operand,
        each assigned exactly once and used nowhere else in the function, with the type the closure body
        expects for that capture.  Anything else raises Unsupported."""
        body = self.closure_item(cty)
        need = {}
        for b in body.blocks.values():
            for txt in b.stmts + [b.term]:
                for m in re.finditer(r"\(\*?_1\)?\.(\d+): ([^()]*(?:\([^()]*\))?[^()]*)\)", txt):
                    need[int(m.group(1))] = m.group(2).strip()
        n_need = max(need) + 1 if need else 0
        if n_need <= len(ops):
            return []
        m = re.match(r"^(?:move|copy) _(\d+)$", ops[-1]) if ops else None
        if not m:
            raise Unsupported(f"closure {cty}: captures elided by the MIR printer cannot be recovered")
        n0 = int(m.group(1))
        text = [x for b in item.blocks.values() for x in b.stmts + [b.term]]
        sub = self.subst_stack[-1] if self.subst_stack else {}
        out = []
        for k in range(len(ops), n_need):
            lid = f"_{n0 + (k - len(ops)) + 1}"
            uses = [x for x in text if re.search(rf"(?<![\w]){lid}(?![\w])", x)]
            lty = normalize(apply_subst(item.locals.get(lid, "?"), sub))
            if len(uses) != 1 or not uses[0].startswith(lid + " = ") or lty != normalize(apply_subst(need.get(k, "??"), sub)) or st.get(lid) is None:
                raise Unsupported(f"closure {cty}: capture {k} elided by the MIR printer cannot be recovered from {lid}")
            out.append(st[lid])
        self.trusted.add("closure captures elided by rustc's MIR printer are recovered from the unused, type-matching temporaries assigned just before the closure value")
        return out

    def call_closure(self, clos, args):
        """Call a closure value (zero-sized, non-capturing) by inlining its MIR body."""
        desc = clos.d if isinstance(clos, Opq) else (clos.name if isinstance(clos, St) else "")
        if "{closure@" not in desc:
            raise Unsupported(f"closure value {clos!r}")
        m = re.search(r"\{closure@[^}]*\}", desc)
        cty = m.group(0)
        cands = [it for it in self.w.items if it.kind == "fn" and it.args and
                 it.args[0][1].lstrip("&").strip() == cty and "{closure#" in it.name]
        # the same closure body appears once per MIR phase copy; identical headers are de-duplicated
        uniq = {}
        for it in cands:
            uniq.setdefault(it.name, it)
        if len(uniq) != 1:
            raise Unsupported(f"closure body for {cty} not found uniquely ({len(uniq)})")
        it = next(iter(uniq.values()))
        subst = dict(self.subst_stack[-1]) if self.subst_stack else {}
        return self.run(it, subst, [clos] + list(args))
