"""SMT-LIB2 term layer over mathematical integers with constant folding.

A term is a Python int / bool (concrete) or a str (SMT-LIB2 text, sort Int or Bool).  Every
constructor folds when all operands are concrete, so the same code evaluates a formula on concrete
values (native replay, unit-test vectors) and builds the symbolic formula.
"""


def is_c(t):
    return isinstance(t, (int, bool))


def smt(t):
    if t is True:
        return "true"
    if t is False:
        return "false"
    if isinstance(t, int):
        return str(t) if t >= 0 else f"(- {-t})"
    assert isinstance(t, str), t
    return t


def _all_c(*xs):
    return all(is_c(x) for x in xs)


# ---- interval knowledge -------------------------------------------------------------------------------
# Sound bounds of Int terms, keyed by the term text: declared ranges of inputs, and bounds derived by
# interval arithmetic for sums / products / ite.  Comparisons fold when the intervals decide them, so
# overflow conditions that can never hold (u32 * 10^20 < 2^128) never reach the solver.
_BND = {}


def set_bound(t, lo, hi):
    if isinstance(t, str):
        _BND[t] = (lo, hi)


def bnd(t):
    if isinstance(t, bool):
        return (None, None)
    if isinstance(t, int):
        return (t, t)
    return _BND.get(t, (None, None))


def _reg(t, lo, hi):
    if isinstance(t, str) and (lo is not None or hi is not None):
        _BND[t] = (lo, hi)
    return t


def t_add(a, b):
    if _all_c(a, b):
        return a + b
    if a == 0 and is_c(a):
        return b
    if b == 0 and is_c(b):
        return a
    (al, ah), (bl, bh) = bnd(a), bnd(b)
    return _reg(f"(+ {smt(a)} {smt(b)})", al + bl if None not in (al, bl) else None, ah + bh if None not in (ah, bh) else None)


def t_sub(a, b):
    if _all_c(a, b):
        return a - b
    if b == 0 and is_c(b):
        return a
    if isinstance(a, str) and isinstance(b, str) and a.startswith(f"(+ {b} ") and a.endswith(")"):
        rest = a[len(b) + 4:-1]
        if rest.count("(") == rest.count(")") and (" " not in rest or rest.startswith("(")):
            return rest if not rest.lstrip("-").isdigit() else int(rest)          # (x + y) - x = y
    (al, ah), (bl, bh) = bnd(a), bnd(b)
    return _reg(f"(- {smt(a)} {smt(b)})", al - bh if None not in (al, bh) else None, ah - bl if None not in (ah, bl) else None)


def t_neg(a):
    if is_c(a):
        return -a
    al, ah = bnd(a)
    return _reg(f"(- {smt(a)})", -ah if ah is not None else None, -al if al is not None else None)


def t_mul(a, b):
    if _all_c(a, b):
        return a * b
    for x, y in ((a, b), (b, a)):
        if is_c(x):
            if x == 0:
                return 0
            if x == 1:
                return y
    (al, ah), (bl, bh) = bnd(a), bnd(b)
    t = f"(* {smt(a)} {smt(b)})"
    if None not in (al, ah, bl, bh):
        ps = (al * bl, al * bh, ah * bl, ah * bh)
        return _reg(t, min(ps), max(ps))
    if None not in (al, bl) and al >= 0 and bl >= 0:
        return _reg(t, al * bl, None)
    return t


_ITE_CONST = {}     # "(ite c a b)" with concrete a, b  ->  (c, a, b): lets t_eq fold enum-tag tests


def t_eq(a, b):
    if _all_c(a, b):
        return a == b
    if isinstance(a, str) and a == b:
        return True
    if not isinstance(a, bool) and not isinstance(b, bool):
        (al, ah), (bl, bh) = bnd(a), bnd(b)
        if (ah is not None and bl is not None and ah < bl) or (al is not None and bh is not None and al > bh):
            return False
    for x, k in ((a, b), (b, a)):
        if isinstance(x, str) and is_c(k) and not isinstance(k, bool) and x in _ITE_CONST:
            c, p, q = _ITE_CONST[x]
            if p == k and q == k:
                return True
            if p == k:
                return c
            if q == k:
                return t_not(c)
            return False
    return f"(= {smt(a)} {smt(b)})"


def _plus_rest(a, b):
    """a == "(+ b X)"  ->  X (term or int), else None"""
    if isinstance(a, str) and isinstance(b, str) and a.startswith(f"(+ {b} ") and a.endswith(")"):
        rest = a[len(b) + 4:-1]
        if rest.count("(") == rest.count(")") and (" " not in rest or rest.startswith("(")):
            return int(rest) if rest.lstrip("-").isdigit() else rest
    return None


def t_lt(a, b):
    if _all_c(a, b):
        return a < b
    x = _plus_rest(a, b)
    if x is not None:
        return t_lt(x, 0)            # b + x < b
    x = _plus_rest(b, a)
    if x is not None:
        return t_lt(0, x)            # a < a + x
    (al, ah), (bl, bh) = bnd(a), bnd(b)
    if ah is not None and bl is not None and ah < bl:
        return True
    if al is not None and bh is not None and al >= bh:
        return False
    return f"(< {smt(a)} {smt(b)})"


def t_le(a, b):
    if _all_c(a, b):
        return a <= b
    x = _plus_rest(a, b)
    if x is not None:
        return t_le(x, 0)
    x = _plus_rest(b, a)
    if x is not None:
        return t_le(0, x)
    (al, ah), (bl, bh) = bnd(a), bnd(b)
    if ah is not None and bl is not None and ah <= bl:
        return True
    if al is not None and bh is not None and al > bh:
        return False
    return f"(<= {smt(a)} {smt(b)})"


def t_not(a):
    if is_c(a):
        return not a
    if a.startswith("(not ") and a.endswith(")"):
        # (not X) where X is a single balanced term
        inner = a[5:-1]
        d = 0
        ok = True
        for i, c in enumerate(inner):
            if c == "(":
                d += 1
            elif c == ")":
                d -= 1
                if d == 0 and i != len(inner) - 1:
                    ok = False
                    break
            elif c == " " and d == 0:
                ok = False
                break
        if ok:
            return inner
    return f"(not {a})"


_AND = {}      # "(and ...)" -> parts, "(or ...)" -> parts: lets the constructors flatten and detect x / (not x)
_OR = {}
_ITE = {}      # every "(ite c a b)" -> (c, a, b)


def t_and(*xs):
    out = []
    for x in xs:
        if x is True:
            continue
        if x is False:
            return False
        for p in _AND.get(x, (x,)):
            if p not in out:
                out.append(p)
    s_out = set(out)
    for p in out:
        if t_not(p) in s_out:
            return False
    if not out:
        return True
    if len(out) == 1:
        return out[0]
    s = "(and " + " ".join(smt(x) for x in out) + ")"
    _AND[s] = tuple(out)
    return s


def t_or(*xs):
    out = []
    for x in xs:
        if x is False:
            continue
        if x is True:
            return True
        for p in _OR.get(x, (x,)):
            if p not in out:
                out.append(p)
    s_out = set(out)
    for p in out:
        if t_not(p) in s_out:
            return True
    if not out:
        return False
    if len(out) == 1:
        return out[0]
    s = "(or " + " ".join(smt(x) for x in out) + ")"
    _OR[s] = tuple(out)
    return s


def t_implies(a, b):
    return t_or(t_not(a), b)


def t_ite(c, a, b):
    if is_c(c):
        return a if c else b
    if is_c(a) and is_c(b) and type(a) is type(b) and a == b:
        return a
    if isinstance(a, str) and a == b:
        return a
    if a is True and b is False:
        return c
    if a is False and b is True:
        return t_not(c)
    s = f"(ite {c} {smt(a)} {smt(b)})"
    _ITE[s] = (c, a, b)
    if not isinstance(a, bool) and not isinstance(b, bool):
        (al, ah), (bl, bh) = bnd(a), bnd(b)
        _reg(s, min(al, bl) if None not in (al, bl) else None, max(ah, bh) if None not in (ah, bh) else None)
    if isinstance(a, int) and isinstance(b, int) and not isinstance(a, bool) and not isinstance(b, bool):
        _ITE_CONST[s] = (c, a, b)
    return s


def t_assume(t, cond, truth):
    """Simplify term t (top level only) knowing that the Bool term `cond` has the value `truth`."""
    if not isinstance(t, str) or not isinstance(cond, str):
        return t
    if t == cond:
        return truth
    if t == t_not(cond):
        return not truth
    if t in _ITE:
        c, a, b = _ITE[t]
        if c == cond:
            return a if truth else b
        if c == t_not(cond):
            return b if truth else a
    return t


def t_mod_c(a, m):
    """a mod m for a concrete positive modulus."""
    assert is_c(m) and m > 0
    if is_c(a):
        return a % m
    return f"(mod {smt(a)} {m})"


class E:
    """Operator sugar for writing specifications.  Wraps a term (Int or Bool)."""
    __slots__ = ("t",)

    def __init__(self, t):
        self.t = t.t if isinstance(t, E) else t

    @staticmethod
    def _u(x):
        return x.t if isinstance(x, E) else x

    def __add__(self, o):
        return E(t_add(self.t, E._u(o)))

    def __radd__(self, o):
        return E(t_add(E._u(o), self.t))

    def __sub__(self, o):
        return E(t_sub(self.t, E._u(o)))

    def __rsub__(self, o):
        return E(t_sub(E._u(o), self.t))

    def __mul__(self, o):
        return E(t_mul(self.t, E._u(o)))

    def __rmul__(self, o):
        return E(t_mul(E._u(o), self.t))

    def __neg__(self):
        return E(t_neg(self.t))

    def __lt__(self, o):
        return E(t_lt(self.t, E._u(o)))

    def __le__(self, o):
        return E(t_le(self.t, E._u(o)))

    def __gt__(self, o):
        return E(t_lt(E._u(o), self.t))

    def __ge__(self, o):
        return E(t_le(E._u(o), self.t))

    def eq(self, o):
        return E(t_eq(self.t, E._u(o)))

    def ne(self, o):
        return E(t_not(t_eq(self.t, E._u(o))))

    def __invert__(self):
        return E(t_not(self.t))

    def __and__(self, o):
        return E(t_and(self.t, E._u(o)))

    def __or__(self, o):
        return E(t_or(self.t, E._u(o)))

    def implies(self, o):
        return E(t_implies(self.t, E._u(o)))

    def iff(self, o):
        return E(t_eq(self.t, E._u(o)))

    def __bool__(self):
        if is_c(self.t):
            return bool(self.t)
        raise TypeError("symbolic E used as Python bool")

    def __repr__(self):
        return f"E({self.t!r})"


def Ite(c, a, b):
    return E(t_ite(E._u(c), E._u(a), E._u(b)))


def Abs(a):
    a = E(a)
    return Ite(a >= 0, a, -a)


def And(*xs):
    return E(t_and(*[E._u(x) for x in xs]))


def Or(*xs):
    return E(t_or(*[E._u(x) for x in xs]))


def Not(x):
    return E(t_not(E._u(x)))
