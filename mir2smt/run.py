#!/usr/bin/env python3
"""Engine E2: MIR -> SMT-LIB2 -> z3 / cvc5, driven by /verif/lib/vcheck.py.

  setup()                                   warm the MIR dump target dir and the native replay crates
  run_property(prop, tier, logdir, seed)    dump MIR of the current tree, encode, decide, replay
  replay(path)                              re-run a saved counterexample natively

Stand-alone:  python3 run.py C01 [quick|thorough] [--only <substr>]
"""
import hashlib
import importlib
import json
import os
import re
import shutil
import subprocess
import sys
import time
import traceback

HERE = os.path.dirname(os.path.abspath(__file__))
VERIF = os.path.dirname(HERE)
REPO = os.environ.get("VERIF_REPO", "/repo")
TARGET = os.path.join(VERIF, ".target")
sys.path.insert(0, HERE)

import mirparse                      # noqa: E402
import models                        # noqa: E402
import symex                         # noqa: E402
from mirparse import Unsupported     # noqa: E402
from solver import Solver            # noqa: E402
from terms import E, is_c, smt, t_and, t_not, t_eq, t_or   # noqa: E402

CRATES = {
    "model": dict(dir="crates/model", features=["u128"], assoc="crates/model/src/num.rs",
                  dep='gmsol-model = { path = "%s/crates/model", features = ["u128", "test"] }'),
    "model_utils": dict(dir="crates/model", features=["u128", "solana"], assoc="crates/model/src/num.rs", dep=""),
    "store": dict(dir="programs/store", features=["no-entrypoint"], assoc="crates/model/src/num.rs", extra=["model_utils", "utils"],
                  rustflags="--cfg gmsol_verif",
                  dep='gmsol-store = { path = "%s/programs/store", features = ["no-entrypoint"] }\n'
                      'gmsol-model = { path = "%s/crates/model", features = ["u128"] }\nanchor-lang = "0.31.1"\nbytemuck = "1.19.0"\ngmsol-utils = { path = "%s/crates/utils" }'),
    "treasury": dict(dir="programs/treasury", features=["no-entrypoint"], assoc="crates/model/src/num.rs", extra=["model"],
                     decl_dirs=["crates/utils/src", "programs/store/src"], rustflags="--cfg gmsol_verif",
                     dep='gmsol-treasury = { path = "%s/programs/treasury", features = ["no-entrypoint"] }\n'
                         'gmsol-model = { path = "%s/crates/model", features = ["u128"] }\nanchor-lang = "0.31.1"\nbytemuck = "1.19.0"'),
    "lp": dict(dir="programs/liquidity-provider", features=["no-entrypoint"], assoc="crates/model/src/num.rs", extra=["model"],
               decl_dirs=[], rustflags="--cfg gmsol_verif",
               dep='gmsol-liquidity-provider = { path = "%s/programs/liquidity-provider", features = ["no-entrypoint"] }\nanchor-lang = "0.31.1"'),
    "utils": dict(dir="crates/utils", features=[], assoc=None,
                  dep='gmsol-utils = { path = "%s/crates/utils" }\nruint = { version = "1.15.0", default-features = false }'),
}
TIMEOUT = {"quick": 60, "thorough": 600}
MAX_VIOLATIONS = 8          # a run stops after this many natively reproduced counterexamples
RUST_TY = {"Uint<192, 3>": "ruint::aliases::U192", "Uint<256, 4>": "ruint::aliases::U256"}


def log(*a):
    print(*a, flush=True)


# ------------------------------------------------------------------------------------------------------
# MIR dump of the current tree
# ------------------------------------------------------------------------------------------------------
def dump_mir(crate, logdir=None):
    """`cargo +nightly rustc -- -Zunpretty=mir` on the real crate in /repo.  Recompilation is forced
    by a fresh `--cfg` nonce (nothing in /repo is touched); dependencies stay cached by cargo's own
    fingerprinting under /verif/.target/mir."""
    cfg = CRATES[crate]
    nonce = f"{time.time_ns():x}"
    cmd = ["cargo", "+nightly", "rustc", "--offline", "--lib"]
    if cfg["features"]:
        cmd += ["--features", ",".join(cfg["features"])]
    cmd += ["--", "-Zunpretty=mir", "-C", "debug-assertions=off", "-C", "overflow-checks=on",
            "--cfg", f'mir2smt_nonce="{nonce}"']
    env = dict(os.environ)
    env["CARGO_TARGET_DIR"] = os.path.join(TARGET, "mir")
    env["CARGO_NET_OFFLINE"] = "true"
    env.pop("RUSTFLAGS", None)
    env.pop("RUSTUP_TOOLCHAIN", None)
    t0 = time.time()
    p = subprocess.run(cmd, cwd=os.path.join(REPO, cfg["dir"]), env=env, stdout=subprocess.PIPE,
                       stderr=subprocess.PIPE, text=True)
    dt = time.time() - t0
    if logdir:
        os.makedirs(logdir, exist_ok=True)
        open(os.path.join(logdir, f"mir_{crate}.mir"), "w").write(p.stdout)
        open(os.path.join(logdir, f"mir_{crate}.err"), "w").write(p.stderr)
    if p.returncode != 0 or "fn " not in p.stdout:
        raise RuntimeError(f"MIR dump of {crate} failed (rc={p.returncode}):\n{p.stderr[-2000:]}")
    return p.stdout, dt


def static_world(crate):
    """A World without MIR: source access only (struct layouts for the generated replay code)."""
    w = symex.World([], REPO)
    w.crate_dirs = [CRATES[c]["dir"] + "/src" for c in [crate] + CRATES[crate].get("extra", [])]
    w.extra_src_dirs = list(CRATES[crate].get("decl_dirs", []))
    return w


def load_world(crate, logdir=None):
    text, dt = dump_mir(crate, logdir)
    items = mirparse.parse(text)
    for extra in CRATES[crate].get("extra", []):
        # crates whose functions are inlined across the crate boundary: their MIR is dumped too
        t2, dt2 = dump_mir(extra, logdir)
        items += mirparse.parse(t2)
        text += t2
        dt += dt2
    w = symex.World(items, REPO)
    w.crate_dirs = [CRATES[c]["dir"] + "/src" for c in [crate] + CRATES[crate].get("extra", [])]
    w.extra_src_dirs = list(CRATES[crate].get("decl_dirs", []))
    w.snapshot_sources()
    if CRATES[crate]["assoc"]:
        w.check_assoc_types(CRATES[crate]["assoc"])
    w.dump_s = dt
    w.mir_sha = hashlib.sha256(text.encode()).hexdigest()[:16]
    w.mir_lines = text.count("\n")
    return w


# ------------------------------------------------------------------------------------------------------
# native replay runtime: a generated binary crate that calls the real functions
# ------------------------------------------------------------------------------------------------------
def crate_obligations(crate):
    """All obligations (thorough tier) of every props file whose CRATE is `crate`: one replay binary per
    crate, so that switching between properties does not rebuild it."""
    out = []
    for _, f in prop_files():
        pm = load_props(f[:-3])
        if pm.CRATE == crate:
            out += [(f[:-3], o) for o in pm.obligations("thorough")]
    return out


class Native:
    def __init__(self, crate, logdir=None):
        self.crate = crate
        self.dir = os.path.join(TARGET, "mir-replay", crate)
        self.tdir = os.path.join(TARGET, "mir-replay-target" + ("-verifcfg" if CRATES[crate].get("rustflags") else ""))
        self.logdir = logdir
        self.obls = {}
        for prop, o in crate_obligations(crate):
            self.obls.setdefault(f"{prop}:{o.key}", o)
        self.built = False
        self.err = None

    def main_rs(self):
        arms = []
        for k in sorted(self.obls):
            o = self.obls[k]
            real = [(n, ty) for n, ty in o.inputs if n not in o.ghost]
            lets = "".join(f"            let {n}: {RUST_TY.get(ty, ty)} = arg({i + 2});\n" for i, (n, ty) in enumerate(real))
            arms.append(f'        "{k}" => {{\n{lets}            {o.rust}\n        }}\n')
        return ("// generated by /verif/mir2smt/run.py: native replay of solver models against the real code\n"
                "#![allow(unused, clippy::all)]\n"
                "fn arg<T: std::str::FromStr>(i: usize) -> T where T::Err: std::fmt::Debug {\n"
                "    std::env::args().nth(i).expect(\"missing arg\").parse().expect(\"bad arg\")\n}\n\n"
                "fn main() {\n    let name = std::env::args().nth(1).expect(\"name\");\n"
                "    match name.as_str() {\n" + "".join(arms) +
                "        _ => { eprintln!(\"unknown obligation\"); std::process::exit(3) }\n    }\n}\n")

    def build(self):
        if self.built:
            return True
        os.makedirs(os.path.join(self.dir, "src"), exist_ok=True)
        toml = ("[package]\nname = \"mir-replay-%s\"\nversion = \"0.0.0\"\nedition = \"2021\"\npublish = false\n\n"
                "[workspace]\n\n[dependencies]\n%s\n\n[profile.dev]\noverflow-checks = true\ndebug-assertions = true\n"
                % (self.crate, CRATES[self.crate]["dep"].replace("%s", REPO)))
        self.write_if_changed(os.path.join(self.dir, "Cargo.toml"), toml)
        lock = os.path.join(self.dir, "Cargo.lock")
        if not os.path.exists(lock):
            shutil.copy(os.path.join(REPO, "Cargo.lock"), lock)
        self.write_if_changed(os.path.join(self.dir, "src", "main.rs"), self.main_rs())
        env = dict(os.environ)
        env["CARGO_NET_OFFLINE"] = "true"
        env["CARGO_TARGET_DIR"] = self.tdir
        env.pop("RUSTFLAGS", None)
        if CRATES[self.crate].get("rustflags"):
            env["RUSTFLAGS"] = CRATES[self.crate]["rustflags"]      # cfg-guarded hooks exposing private functions
        env.pop("RUSTUP_TOOLCHAIN", None)
        p = subprocess.run(["cargo", "build", "--offline"], cwd=self.dir, env=env, stdout=subprocess.PIPE,
                           stderr=subprocess.STDOUT, text=True)
        if self.logdir:
            open(os.path.join(self.logdir, f"replay_build_{self.crate}.log"), "w").write(p.stdout)
        if p.returncode != 0:
            self.err = p.stdout[-3000:]
            return False
        self.built = True
        return True

    @staticmethod
    def write_if_changed(path, txt):
        if os.path.exists(path) and open(path).read() == txt:
            return
        open(path, "w").write(txt)

    def run(self, key, values):
        """key = "<prop>:<obligation key>"  -> {'view': {...}} | {'panic': msg} | {'error': msg}"""
        if not self.build():
            return {"error": "replay crate does not build: " + (self.err or "")[-500:]}
        o = self.obls[key]
        argv = [os.path.join(self.tdir, "debug", f"mir-replay-{self.crate}"), key]
        for n, ty in o.inputs:
            if n in o.ghost:
                continue
            v = values[n]
            argv.append(("true" if v else "false") if ty == "bool" else str(v))
        p = subprocess.run(argv, stdout=subprocess.PIPE, stderr=subprocess.PIPE, text=True, timeout=60)
        if p.returncode == 101 and "panicked at" in p.stderr:
            return {"panic": p.stderr.strip()[:400]}
        if p.returncode != 0:
            return {"error": f"rc={p.returncode} {p.stderr[:300]}"}
        view = {}
        for ln in p.stdout.split("\n"):
            m = re.fullmatch(r"(\w+)=(-?\d+|true|false)", ln.strip())      # other lines: msg! output of the real code
            if m:
                k, v = m.group(1), m.group(2)
                view[k] = (v == "true") if v in ("true", "false") else int(v)
        if "some" in view:
            view["some"] = bool(view["some"])
        return {"view": view}


# ------------------------------------------------------------------------------------------------------
# one obligation
# ------------------------------------------------------------------------------------------------------
class Encoded:
    pass


def encode(ob, world):
    ex = symex.Exec(world, models)
    ex.unroll = ob.unroll
    vals = {}
    for n, ty in ob.inputs:
        if n in ob.fixed:
            vals[n] = symex.Bv(ob.fixed[n]) if ty == "bool" else symex.I(ob.fixed[n], ty)
        else:
            vals[n] = ex.sym_bool(n) if ty == "bool" else ex.sym_int(n, ty)
            if n in ob.bounds:
                lo, hi = ob.bounds[n]
                ex.decls.append(f"(assert (and (<= {smt(lo)} {n}) (<= {n} {smt(hi)})))")       # stated assumption
                symex.set_bound(n, lo, hi)
    item, subst = ob.locate(world)
    ex.stubs = [(re.compile("^(?:" + p + ")$"), (lambda e, m, a, f=f: f(e, m, a, vals))) for p, f in ob.stubs]
    ex.tap_rx = [(n, re.compile("^(?:" + p + ")$")) for n, (p, _) in ob.taps.items()]
    if ob.runner:
        ret = ob.runner(ex, item, subst, vals)
    else:
        ret = ex.run(item, subst, ob.args(vals), init_locals=ob.init_locals(vals) if ob.init_locals else None)
    enc = Encoded()
    enc.ex = ex
    enc.item = item
    enc.returned = ex.pc
    enc.view = ob.view_state(ret, ex.root_final) if ob.view_state else ob.view(ret)
    enc.i = {n: E(v.t) for n, v in vals.items()}
    enc.o = {k: E(t) for k, t in enc.view.items()}
    for n, (_, f) in ob.taps.items():
        if n not in ex.taps:
            raise Unsupported(f"tap {n}: the call was never executed")
        calls = ex.taps[n]
        # a tap function takes (args, result) of the single matching call, or - with a third parameter -
        # the list of all matching calls in execution order (bounded unrolling)
        import inspect
        vals_ = f(calls) if len(inspect.signature(f).parameters) == 1 else (f(*calls[0][:2]) if len(calls) == 1 else None)
        if vals_ is None:
            raise Unsupported(f"tap {n}: {len(calls)} matching calls")
        for k, t in vals_.items():
            enc.o[k] = E(t)
    enc.assume = E(ob.assume(enc.i)).t if ob.assume else True
    return enc


def concrete_clauses(ob, fn, inputs, view):
    """Evaluate clause list `fn` on concrete inputs and a concrete (native) view."""
    i = {n: E(v) for n, v in inputs.items()}
    o = {k: E(v) for k, v in view.items()}
    if ob.derive:
        o.update({k: E(v) for k, v in ob.derive(inputs).items()})

    class D(dict):
        def __missing__(self, k):
            return E(0)
    return [(lab, bool(E(f).t) if is_c(E(f).t) else None) for lab, f in fn(i, D(o))]


class Runner:
    def __init__(self, prop, tier, logdir, world, native, obligations):
        self.prop, self.tier, self.logdir = prop, tier, logdir
        self.world, self.native = world, native
        self.t = int(os.environ.get("VERIF_E2_TIMEOUT", TIMEOUT[tier]))
        self.z3 = Solver("z3", self.t, os.path.join(logdir, f"e2_{prop}_z3.smt2"))
        self.cvc5 = Solver("cvc5", self.t, os.path.join(logdir, f"e2_{prop}_cvc5.smt2")) if tier == "thorough" else None
        self.res = {"queries": 0, "discharged": 0, "solver_s": 0.0, "samples": [], "functions": [],
                    "trusted_base": [], "bounds": [], "assumptions": [], "violations": [],
                    "inconclusive": [], "known_findings": []}
        self.trusted = set()
        self.functions = []
        self.findings_seen = set()
        self.cvc5_strict = True
        self.cvc5_missing = 0
        self.cvc5_confirmed = 0

    def close(self):
        self.z3.stop()
        if self.cvc5:
            self.cvc5.stop()

    # -- solver call with optional cross-check ------------------------------------------------------------------
    def decide(self, lines, values, expect):
        st, model, raw, dt = self.z3.query(lines, values)
        self.res["solver_s"] += dt
        info = {"z3": st, "z3_s": round(dt, 3)}
        if self.cvc5 is not None and expect == "unsat":
            # cross-check of every query whose verdict rests on the solver's soundness (`unsat`);
            # `sat` answers are witnessed by a model (twins are additionally replayed natively)
            st2, model2, raw2, dt2 = self.cvc5.query(lines, values)
            self.res["solver_s"] += dt2
            info.update({"cvc5": st2, "cvc5_s": round(dt2, 3)})
            if st in ("sat", "unsat") and st2 in ("sat", "unsat") and st != st2:
                return "disagree", model, info
            if st == "unsat" and st2 != "unsat":
                if self.cvc5_strict:
                    # thorough tier: an `unsat` counts only if both solvers say so
                    return f"z3 unsat but cvc5 {st2}", model, info
                self.cvc5_missing += 1          # stated in the evidence: decided by z3 alone
            elif st == "unsat":
                self.cvc5_confirmed += 1
            if st not in ("sat", "unsat") and st2 in ("sat", "unsat"):
                st, model = st2, model2
        if st == "error":
            info["raw"] = raw[-300:]
        return st, model, info

    def sample(self, **kw):
        self.res["samples"].append(kw)

    def inconclusive(self, msg):
        self.res["inconclusive"].append(msg)

    # -- main -------------------------------------------------------------------------------------------------------
    def run_obligation(self, ob):
        t0 = time.time()
        try:
            enc = encode(ob, self.world)
        except Unsupported as e:
            self.res["queries"] += 1
            self.inconclusive(f"{ob.name}: unsupported MIR: {e}")
            self.sample(engine="mir2smt", obligation=ob.name, status="unsupported", detail=str(e)[:300])
            return
        except Exception as e:   # translator bug: never silent
            self.res["queries"] += 1
            self.inconclusive(f"{ob.name}: translator error: {type(e).__name__}: {e}")
            self.sample(engine="mir2smt", obligation=ob.name, status="translator-error",
                        detail=traceback.format_exc()[-600:])
            return
        ex = enc.ex
        self.trusted |= ex.trusted
        for f in ex.functions:
            if f not in self.functions:
                self.functions.append(f)
        base = list(ex.decls)
        if enc.assume is not True:
            base.append(f"(assert {smt(enc.assume)})")
        in_names = [n for n, _ in ob.inputs if n not in ob.fixed]
        view_keys = sorted(enc.view)
        values = in_names + [smt(enc.view[k]) for k in view_keys]
        counts = {"ok": 0, "bad": 0}

        def check(kind, label, formula, expect, clause_fn=None):
            self.res["queries"] += 1
            if is_c(formula):
                # decided by constant folding in the encoder (e.g. an unreachable panic)
                st, model, info = ("sat" if formula else "unsat"), {}, {"folded": True}
                if st == "sat" and expect == "unsat":
                    self.inconclusive(f"{ob.name}/{label}: trivially violated in the encoder (no model)")
                    self.sample(engine="mir2smt", obligation=ob.name, kind=kind, label=label, status="folded-sat")
                    counts["bad"] += 1
                    return None
            else:
                st, model, info = self.decide(base + [f"(assert {formula})"], values, expect)
            ok = (st == expect)
            rec = dict(engine="mir2smt", obligation=ob.name, kind=kind, label=label, expect=expect, status=st, **info)
            if ok:
                self.res["discharged"] += 1
                counts["ok"] += 1
                if expect == "sat" and model:
                    rec["witness"] = {n: model.get(n) for n in in_names}
                if kind == "cover" and model:
                    # translator validation on the solver's own witness: the encoded result for these
                    # inputs must be what the real code returns natively
                    self.res["queries"] += 1
                    inputs = {n: model[n] for n in in_names}
                    inputs.update(ob.fixed)
                    enc_view = {k: model[values[len(in_names) + j]] for j, k in enumerate(view_keys)}
                    nat = self.native.run(f"{self.prop}:{ob.key}", inputs)
                    same = "view" in nat and all(enc_view.get(k) == v for k, v in nat["view"].items()) and \
                        ("some" not in enc_view or enc_view["some"] == nat["view"].get("some"))
                    if same:
                        self.res["discharged"] += 1
                        rec["native_agrees"] = True
                    else:
                        self.inconclusive(f"{ob.name}/{label}: encoding and native run disagree on the cover witness: "
                                          f"inputs={inputs} encoded={enc_view} native={nat}")
                        rec["native_agrees"] = False
                if kind in ("twin",) or (counts["ok"] <= 2):
                    self.sample(**rec)
                return model if expect == "sat" else True
            counts["bad"] += 1
            if st == "sat" and expect == "unsat":
                self.handle_cex(ob, enc, kind, label, model, in_names, view_keys, values, clause_fn, rec)
            elif st == "unsat" and expect == "sat":
                self.inconclusive(f"{ob.name}/{label}: {kind} expected sat, got unsat (vacuous or broken check)")
                self.sample(**rec)
            else:
                self.inconclusive(f"{ob.name}/{label}: solver answered {st} {info}")
                self.sample(**rec)
            return None

        # 1. no reachable panic
        for lab, cond in ex.panics:
            check("no-panic", lab, smt(cond), "unsat")
        for lab, cond in ex.wraps:
            check("no-wrap", lab, smt(cond), "unsat")
        # 2. specification clauses
        ret = enc.returned
        for lab, f in ob.spec(enc.i, enc.o):
            if lab in ob.findings:
                # a clause the code is known (or suspected) to violate in the region `role`: it must hold
                # outside the region, and inside the region a natively reproducing witness is reported as
                # KNOWN-FINDING if its key is listed in /verif/known_findings.json, as a violation otherwise.
                key, role_fn = ob.findings[lab][:2]
                prefer = ob.findings[lab][2] if len(ob.findings[lab]) > 2 else None
                role = E(role_fn(enc.i, enc.o)).t
                check("spec", lab + " [outside the finding region " + key + "]",
                      smt(t_and(ret, t_not(role), t_not(E(f).t))), "unsat",
                      lambda i, o, lab=lab, role_fn=role_fn: [(l + " [outside the finding region " + key + "]",
                                                               E(role_fn(i, o)) | E(c)) for l, c in ob.spec(i, o) if l == lab])
                self.finding_witness(ob, enc, lab, key, smt(t_and(ret, role, t_not(E(f).t))), base, in_names, view_keys, values,
                                     smt(E(prefer(enc.i, enc.o)).t) if prefer else None)
                continue
            check("spec", lab, smt(t_and(ret, t_not(E(f).t))), "unsat", ob.spec)
        # 3. vacuity witnesses
        for lab, f in (ob.covers(enc.i, enc.o) if ob.covers else []):
            check("cover", lab, smt(t_and(ret, E(f).t)), "sat")
        # 4. the repository's unit-test vectors through the encoding
        for k, (vin, vout) in enumerate(ob.vectors):
            fix = t_and(*[t_eq(enc.i[n].t, (v if not isinstance(v, bool) else v)) for n, v in vin.items()])
            want = t_and(*[t_eq(enc.o[key].t, v) for key, v in vout.items()])
            lab = "vector " + ",".join(f"{n}={v}" for n, v in vin.items()) + " -> " + \
                  ",".join(f"{key}={v}" for key, v in vout.items())
            check("test-vector", lab, smt(t_and(fix, t_not(t_and(ret, want)))), "unsat", ("vector", vout))
        # 5. deliberately wrong specification: must be refuted and the model must replay natively
        for lab, f in (ob.wrong(enc.i, enc.o) if ob.wrong else []):
            model = check("twin", lab, smt(t_and(ret, t_not(E(f).t))), "sat")
            if model:
                self.res["queries"] += 1
                inputs = {n: model[n] for n in in_names}
                inputs.update(ob.fixed)
                nat = self.native.run(f"{self.prop}:{ob.key}", inputs)
                good = False
                if "view" in nat:
                    cl = dict(concrete_clauses(ob, ob.wrong, inputs, nat["view"]))
                    good = cl.get(lab) is False
                if good:
                    self.res["discharged"] += 1
                    self.sample(engine="mir2smt", obligation=ob.name, kind="twin-replay", label=lab,
                                status="refuted natively", inputs=inputs, native=nat.get("view"))
                else:
                    self.inconclusive(f"{ob.name}/{lab}: model of the wrong-spec twin does not replay natively: {nat}")
        self.sample(engine="mir2smt", obligation=ob.name, kind="summary", function=enc.item.name,
                    notes=ob.notes, queries_ok=counts["ok"], queries_bad=counts["bad"], panics_checked=len(ex.panics),
                    wall_s=round(time.time() - t0, 2))

    def finding_witness(self, ob, enc, label, key, formula, base, in_names, view_keys, values, prefer=None):
        self.res["queries"] += 1
        st = None
        if prefer and key not in self.findings_seen:
            # a witness with a well-formed input is preferred (same verdict, more telling counterexample)
            st, model, info = self.decide(base + [f"(assert {formula})", f"(assert {prefer})"], values, "sat")
        if st != "sat":
            st, model, info = self.decide(base + [f"(assert {formula})"], () if key in self.findings_seen else values, "sat")
        rec = dict(engine="mir2smt", obligation=ob.name, kind="finding-witness", label=label, key=key, status=st, **info)
        if st == "unsat":
            self.res["discharged"] += 1          # the clause holds in the region too: the finding is gone
            rec["finding_present"] = False
            self.sample(**rec)
            return
        if st != "sat":
            self.inconclusive(f"{ob.name}/{label}: finding witness {key}: solver answered {st}")
            self.sample(**rec)
            return
        known = []
        try:
            known = [k for k in json.load(open(os.environ.get("VERIF_KNOWN_FINDINGS", os.path.join(VERIF, "known_findings.json")))).get("known", [])
                     if k.get("property") == self.prop and k.get("key") == key]
        except Exception:
            pass
        rec["finding_present"] = True
        if key in self.findings_seen:
            # already witnessed (and replayed) in this run for another obligation of the property
            self.res["discharged"] += 1
            self.sample(**rec)
            return
        self.findings_seen.add(key)
        self.handle_cex(ob, enc, "spec", label, model, in_names, view_keys, values, ob.spec, rec,
                        known=known[0]["what"] if known else None)

    def handle_cex(self, ob, enc, kind, label, model, in_names, view_keys, values, clause_fn, rec, known=None):
        """A `sat` where `unsat` was expected: replay natively; only a reproducing model is a violation."""
        inputs = {n: model[n] for n in in_names}
        inputs.update(ob.fixed)
        enc_view = {k: model[values[len(in_names) + j]] for j, k in enumerate(view_keys)}
        nat = self.native.run(f"{self.prop}:{ob.key}", inputs)
        reproduced = None
        why = ""
        if "error" in nat:
            why = "native run failed: " + nat["error"]
        elif kind == "no-panic":
            reproduced = "panic" in nat
            why = nat.get("panic", "native run did not panic")
        elif kind == "no-wrap":
            reproduced = None       # a silent wrap is not observable by itself; a spec clause fails if it matters
            why = "wrap-around inside a library operation is reachable (not natively observable on its own)"
        elif "panic" in nat:
            reproduced = True     # the function must report failure, never panic
            why = "native panic: " + nat["panic"]
        elif isinstance(clause_fn, tuple):
            # a unit-test vector of the repository: reproduced iff the real code misses the tested output
            want = clause_fn[1]
            reproduced = any(nat["view"].get(k, 0) != v for k, v in want.items())
            why = f"native view {nat['view']}, tested output {want}, encoded view {enc_view}"
        else:
            cl = dict(concrete_clauses(ob, clause_fn, inputs, nat["view"]))
            reproduced = cl.get(label) is False
            if not reproduced and label.startswith("LEMMA"):
                # a clause about an internal value: natively only its consequences on the result are observable
                bad = [l for l, v in cl.items() if v is False]
                if bad:
                    reproduced = True
                    rec["native_violated_clause"] = bad[0]
            why = f"native view {nat['view']}, encoded view {enc_view}"
        rec.update(inputs=inputs, encoded_view=enc_view, native=nat, reproduced=reproduced)
        self.sample(**rec)
        rdir = os.path.join(VERIF, "replay", self.prop)
        os.makedirs(rdir, exist_ok=True)
        path = os.path.join(rdir, re.sub(r"[^A-Za-z0-9]+", "_", ob.name).strip("_")[:80] + "__" +
                            re.sub(r"[^A-Za-z0-9]+", "_", label)[:60] + ".json")
        json.dump({"engine": "mir2smt", "property": self.prop, "obligation": ob.name, "key": ob.key,
                   "kind": kind, "label": label, "inputs": inputs, "encoded_view": enc_view,
                   "vector_expected": clause_fn[1] if isinstance(clause_fn, tuple) else None,
                   "native_at_report": nat, "crate": self.native.crate,
                   "main_rs": self.native.main_rs()}, open(path, "w"), indent=1)
        if reproduced and known is not None:
            self.res["discharged"] += 1
            self.res["known_findings"].append(f"{known} [witness {ob.name} / {label}: inputs={inputs} native={nat.get('view', nat)}; replay {path}]")
        elif reproduced:
            self.res["violations"].append({"replay": path, "obligation": ob.name, "label": label,
                                           "inputs": inputs, "native": nat, "finding_key": rec.get("key")})
            log(f"  E2 counterexample reproduces natively: {ob.name} / {label}: inputs={inputs} native={nat}")
        else:
            self.inconclusive(f"{ob.name}/{label}: solver model does not reproduce natively ({why}); "
                              f"inputs={inputs} (replay file {path})")


# ------------------------------------------------------------------------------------------------------
# driver interface
# ------------------------------------------------------------------------------------------------------
PROP_DIRS = ("props", "props_experimental")      # the driver runs E2 only for props/<Cnn>.py; props_experimental/ is stand-alone only


def prop_files():
    out = []
    for d in PROP_DIRS:
        p = os.path.join(HERE, d)
        if os.path.isdir(p):
            out += [(d, f) for f in sorted(os.listdir(p)) if re.match(r"^C\d+\.py$", f)]
    return out


def load_props(prop):
    for d in PROP_DIRS:
        if os.path.join(HERE, d) not in sys.path:
            sys.path.insert(0, os.path.join(HERE, d))
    if prop in sys.modules:
        return importlib.reload(sys.modules[prop])
    return importlib.import_module(prop)


def setup():
    rc = 0
    for crate in CRATES:
        try:
            _, dt = dump_mir(crate)
            log(f"setup: mir2smt MIR dump of {crate}: {dt:.0f}s")
        except Exception as e:
            log(f"setup: mir2smt MIR dump of {crate} FAILED: {e}")
            rc = 1
    done = set()
    for _, f in prop_files():
        pm = load_props(f[:-3])
        if pm.CRATE in done:
            continue
        done.add(pm.CRATE)
        n = Native(pm.CRATE)
        ok = n.build()
        log(f"setup: mir2smt replay crate for {pm.CRATE}: {'ok' if ok else 'FAILED'}")
        if not ok:
            log(n.err)
            rc = 1
    return rc


def run_property(prop, tier, logdir, seed=0, only=None):
    t0 = time.time()
    os.makedirs(logdir, exist_ok=True)
    pm = load_props(prop)
    obligations = pm.obligations(tier)
    if only:
        obligations = [o for o in obligations if only in o.name]
    empty = {"queries": 1, "discharged": 0, "solver_s": 0.0, "samples": [], "functions": [],
             "trusted_base": [], "bounds": [], "assumptions": [], "violations": [],
             "inconclusive": [], "known_findings": []}
    try:
        world = load_world(pm.CRATE, logdir)
    except Exception as e:
        empty["inconclusive"].append(f"MIR dump / parse of crate {pm.CRATE} failed: {e}")
        return empty
    log(f"  E2: MIR of {pm.CRATE} dumped in {world.dump_s:.0f}s ({world.mir_lines} lines, sha {world.mir_sha}); "
        f"{len(obligations)} obligations, tier {tier}")
    native = Native(pm.CRATE, logdir)
    r = Runner(prop, tier, logdir, world, native, obligations)
    r.cvc5_strict = getattr(pm, "CVC5_STRICT", True)
    if not r.cvc5_strict and r.cvc5 is not None:
        r.cvc5.timeout_s = min(r.cvc5.timeout_s, 30)        # best-effort cross-check: do not spend the tier's budget on cvc5
    try:
        for k, ob in enumerate(obligations):
            if len(r.res["violations"]) >= MAX_VIOLATIONS:
                log(f"  E2: {MAX_VIOLATIONS} counterexamples reproduced natively; remaining {len(obligations) - k} obligations skipped")
                r.res["queries"] += len(obligations) - k      # not discharged
                break
            r.run_obligation(ob)
    finally:
        r.close()
    res = r.res
    res["functions"] = ["mir2smt: " + f for f in r.functions]
    res["trusted_base"] = (["rustc nightly MIR dump (-Zunpretty=mir, overflow-checks=on, debug-assertions=off) of the real crate",
                            "the MIR->SMT translator /verif/mir2smt (validated per run by the repository's unit-test vectors "
                            "and by wrong-spec twins replayed natively)",
                            "z3 4.8.12" + (" and cvc5 1.0.3 (every query sent to both)" if tier == "thorough" else "")]
                           + sorted("callee model: " + t for t in r.trusted))
    res["bounds"] = list(getattr(pm, "BOUNDS", []))
    if tier == "thorough":
        res["bounds"].append(f"E2/{prop}: cvc5 cross-check: {r.cvc5_confirmed} unsat verdicts confirmed by cvc5, {r.cvc5_missing} decided by z3 alone (cvc5 gave no answer in time)"
                             + ("" if not r.cvc5_strict else "; a cvc5 non-answer makes the query inconclusive for this property"))
    res["assumptions"] = list(getattr(pm, "ASSUMPTIONS", []))
    res["solver_s"] = round(res["solver_s"], 2)
    res["samples"] = res["samples"][:400]
    log(f"  E2: {res['discharged']}/{res['queries']} queries discharged, solver {res['solver_s']}s, "
        f"wall {time.time() - t0:.0f}s, violations {len(res['violations'])}, inconclusive {len(res['inconclusive'])}")
    json.dump(res, open(os.path.join(logdir, f"e2_{prop}.json"), "w"), indent=1, default=str)
    return res


def replay(path):
    """Re-run a saved counterexample against the real code.  True = reproduces."""
    try:
        d = json.load(open(path))
        pm = load_props(d["property"])
        allobs = pm.obligations("thorough")
        ob = [o for o in allobs if o.name == d["obligation"]][0]
        native = Native(pm.CRATE)
        nat = native.run(f"{d['property']}:{ob.key}", d["inputs"])
        log(f"  replay {d['obligation']} / {d['label']}: inputs={d['inputs']} native={nat}")
        if "error" in nat:
            return None
        if d["kind"] == "no-panic":
            return "panic" in nat
        if "panic" in nat:
            return True
        if d["kind"] == "test-vector":
            return any(nat["view"].get(k, 0) != v for k, v in d["vector_expected"].items())
        fn = ob.spec if d["kind"] == "spec" else ob.wrong
        cl = dict(concrete_clauses(ob, fn, d["inputs"], nat["view"]))
        label = d["label"].split(" [outside the finding region")[0]
        if label not in cl or cl[label] is None:
            return None
        return cl[label] is False
    except Exception as e:
        log(f"  replay failed: {type(e).__name__}: {e}")
        return None


if __name__ == "__main__":
    a = sys.argv[1:]
    only = None
    if "--only" in a:
        k = a.index("--only")
        only = a[k + 1]
        del a[k:k + 2]
    prop = a[0]
    tier = a[1] if len(a) > 1 else "quick"
    out = run_property(prop, tier, os.path.join(TARGET, "logs", prop + "-e2"), 0, only)
    for q in out["inconclusive"]:
        print("INCONCLUSIVE", q)
    for v in out["violations"]:
        print("VIOLATION", v)
    sys.exit(1 if out["violations"] else (2 if out["inconclusive"] else 0))
