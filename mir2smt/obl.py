"""Obligation description used by the per-property files in props/.

An obligation names one real function (located in the MIR of the current tree), says how to build
its arguments from scalar symbolic inputs, how to view its result as named scalars, the Rust snippet
that calls the real function natively with concrete inputs and prints the same view (replay), and
the specification as clauses over inputs `i` and outputs `o` (terms.E values).  The same clause code
is used symbolically (negated, sent to the solver) and concretely (native replay).
"""
import re

from symex import I, Bv, Tup, St, En, Ref, Opq, is_int_ty
from mirparse import Unsupported


class Obl:
    def __init__(self, name, locate, inputs, args, view, rust, spec, covers=None, wrong=None,
                 vectors=(), notes="", assume=None, unroll=0, fixed=None, key=None, stubs=None, ghost=(), findings=None, taps=None, derive=None, init_locals=None, view_state=None, runner=None, bounds=None):
        self.name = name
        self.key = key or re.sub(r"[^A-Za-z0-9]+", "_", name).strip("_")   # native replay arm (may be shared)
        self.fixed = fixed or {}  # inputs that are concrete in this obligation: {name: value}
        self.locate = locate      # world -> (item, subst)
        self.inputs = inputs      # [(name, 'u64' | 'i128' | 'bool' ...)]
        self.args = args          # {name: Value} -> [Value]
        self.view = view          # Value -> {key: term}
        self.rust = rust          # Rust block: variables named as inputs are in scope; prints key=value lines
        self.spec = spec          # (i, o) -> [(label, E)]   must hold whenever the function returns
        self.covers = covers      # (i, o) -> [(label, E)]   must be satisfiable
        self.wrong = wrong        # (i, o) -> [(label, E)]   deliberately wrong: must be refuted with a replaying model
        self.vectors = vectors    # [({input: value}, {key: value})]  the repository's own unit-test vectors
        self.notes = notes
        self.assume = assume      # (i) -> E   input assumption (stated in the evidence)
        self.unroll = unroll
        self.ghost = tuple(ghost)  # input names that are specification-only (uniquely fixed by `assume`), not passed to the code
        self.findings = findings or {}   # spec label -> (known-finding key, role_key(i, o)): see run.py
        self.taps = taps or {}     # name -> (callee regex, fn(args, result) -> {key: term}): internal values of the real
        #                            computation that the specification refers to (each is tied to its definition by a clause)
        self.init_locals = init_locals   # {name: Value} -> {"$x": Value}: pointees of &mut arguments (args use RefMut(0, "$x"))
        self.view_state = view_state     # (ret Value, {"$x": final Value}) -> {key: term}; replaces `view` when given
        self.bounds = bounds or {}       # {input: (lo, hi)}: assumed sub-range of an input (asserted, and known to the encoder's interval folding)
        self.runner = runner             # (ex, item, subst, vals) -> Value: composite of several runs of the real function
        self.derive = derive       # inputs -> {key: value}: the same internal values by their mathematical definition (native replay)
        self.stubs = stubs or []  # [(regex on the normalised callee, fn(ex, match, args, input values) -> Value)]


# ---- locating functions -------------------------------------------------------------------------------
def trait_fn(self_ty, trait, name):
    def f(world):
        r = world.find_trait_item(self_ty, trait, name, "fn")
        if r is None:
            raise Unsupported(f"<{self_ty} as {trait}>::{name} not found in MIR")
        return r
    return f


def path_fn(path, subst=None):
    def f(world):
        r = world.find_path_item(path, "fn")
        if r is None:
            raise Unsupported(f"{path} not found in MIR")
        it, b = r
        b = dict(b)
        b.update(subst or {})
        return it, b
    return f


# ---- result views -----------------------------------------------------------------------------------------
def scalar(v):
    if isinstance(v, I):
        return v.t
    if isinstance(v, Bv):
        return v.t
    raise Unsupported(f"scalar expected in view, got {v!r}")


def flat(v, prefix="v"):
    """Flatten a payload into named scalars."""
    if isinstance(v, (I, Bv)):
        return {prefix: scalar(v)}
    if isinstance(v, (Tup, St)):
        out = {}
        for k, f in enumerate(v.fs):
            out.update(flat(f, f"{prefix}{k}"))
        return out
    raise Unsupported(f"cannot flatten {v!r}")


def view_option(v):
    if not isinstance(v, En) or v.kind != "Option":
        raise Unsupported(f"Option expected, got {v!r}")
    out = {"some": v.is_("Some")}
    pl = v.pl.get("Some")
    if pl:
        out.update(flat(pl[0]))
    return out


def view_result(v):
    if not isinstance(v, En) or v.kind != "Result":
        raise Unsupported(f"Result expected, got {v!r}")
    out = {"some": v.is_("Ok")}
    pl = v.pl.get("Ok")
    if pl:
        out.update(flat(pl[0]))
    return out


def view_plain(v):
    return flat(v)


# Rust printing snippets matching the views (the result is bound to `r`)
P_OPT = 'match r { Some(v) => println!("some=1\\nv={}", v), None => println!("some=0") }'
P_RES = 'match r { Ok(v) => println!("some=1\\nv={}", v), Err(_) => println!("some=0") }'
P_INT = 'println!("v={}", r);'
