"""C29 - an adjusted oracle price stays inside the allowed band (programs/store/src/states/oracle/mod.rs
`try_adjust_price_with_max_deviation_factor`), full width on the MIR of the real function with
`Price::<u128>::from(&utils::Price)`, `Price::checked_mid`, `Decimal::{to_unit_price, with_unit_price}`,
`apply_factor` / `<u128 as MulDiv>::checked_mul_div` inlined from the MIR of gmsol-model and gmsol-utils.

Unit prices: u = value * 10^multiplier.  R = reference (explicit, or floor((umin+umax)/2)),
D = floor(R * factor / 10^20).  The clauses refer to the R and D the real code computes (the argument and
the result of its `apply_factor` call, "taps"); two LEMMA clauses tie them to these definitions, so the
remaining clauses are linear for each pair of multipliers.
"""
from obl import Obl, path_fn, view_option
from symex import Ref, St, En
from terms import E, And, Or, Not, Ite, Abs

CRATE = "store"
CVC5_STRICT = False     # cvc5 1.0.3 does not finish several of the symbolic-divisor queries; counted and stated in the evidence
UNIT = 10 ** 20
UMAX = 2 ** 128 - 1
U32MAX = 2 ** 32 - 1
MAXM = 20
BOUNDS = ["E2/C29: every u32 value of min / max / reference, every reference multiplier <= 20, explicit and mid reference, every u128 deviation factor "
          "(also above 100%); one obligation set per pair of (min, max) multipliers: quick = the 21 equal pairs (min and max of a feed price come from one "
          "try_from_price setting) plus (3,10), (12,4), (0,20), (20,0); thorough = all 441 pairs"]
ASSUMPTIONS = ["E2/C29: decimal_multiplier <= MAX_DECIMAL_MULTIPLIER (20) for all three Decimals (documented invariant of the type, established by try_from_price, C26)"]
HOOK = "gmsol_store::states::oracle::verif_hooks::try_adjust_price_with_max_deviation_factor"
DEC = "gmsol_utils::price::Decimal"


def Pow10(e, maxe=21):
    e = E(e)
    r = E(10 ** maxe)
    for k in range(maxe - 1, -1, -1):
        r = Ite(e.eq(k), 10 ** k, r)
    return r


def terms(i, o):
    mmin, mmax = Pow10(i["mind"]), Pow10(i["maxd"])
    umin, umax = i["minv"] * mmin, i["maxv"] * mmax
    R, D = o["R"], o["D"]
    need_max = Abs(umax - R) > D
    need_min = Abs(umin - R) > D
    return mmin, mmax, umin, umax, R, D, need_max, need_min


def assume(i):
    return And(i["mind"] <= MAXM, i["maxd"] <= MAXM, i["refd"] <= MAXM)


def tap_apply_factor(args, result):
    """R = the reference unit price the code passes to apply_factor, D = the deviation it gets back"""
    from models import deref
    r = args[0]
    while hasattr(r, "v"):
        r = r.v
    pl = result.pl.get("Some")
    return {"R": r.t, "D": pl[0].t, "D_some": result.is_("Some")}


def derive(inp):
    umin, umax = inp["minv"] * 10 ** inp["mind"], inp["maxv"] * 10 ** inp["maxd"]
    R = inp["refv"] * 10 ** inp["refd"] if inp["has_ref"] else (umin + umax) // 2
    D = R * inp["factor"] // UNIT
    return {"R": R, "D": D, "D_some": D <= UMAX}


def k_grid(i, o):
    """finding region: an adjusted side whose decimal grid step is wider than the whole band [R-D, R+D]"""
    mmin, mmax, umin, umax, R, D, need_max, need_min = terms(i, o)
    return Or(And(need_max, mmax > 2 * D + 1), And(need_min, mmin > 2 * D + 1))


def k_region(i, o):
    """grid coarser than the band, or min and max stored with different multipliers (never produced by the providers)"""
    return Or(k_grid(i, o), i["mind"].ne(i["maxd"]))


def well_formed(i, o):
    """a feed price as the providers produce it: 0 < min <= max on one grid, a non-zero deviation factor"""
    return And(i["mind"].eq(i["maxd"]), i["minv"] > 0, i["minv"] <= i["maxv"], i["factor"] > 0, i["factor"] <= UNIT)


L_BAND = "Some(p) => R - D <= p.min and p.max <= R + D and both sides inside [R - D, R + D] (unit prices)"
L_ORDER = "Some(p) => p.min <= p.max (unit prices)"


def spec(i, o):
    mmin, mmax, umin, umax, R, D, need_max, need_min = terms(i, o)
    nminv, nmind, nmaxv, nmaxd = o["v00"], o["v01"], o["v10"], o["v11"]
    omin, omax = nminv * mmin, nmaxv * mmax
    hi, lo = R + D, R - D
    return [("LEMMA: the reference R used by the code is the explicit reference's unit price, else floor((umin + umax) / 2)",
             Ite(i["has_ref"], R.eq(i["refv"] * Pow10(i["refd"])), And(2 * R <= umin + umax, umin + umax <= 2 * R + 1))),
            ("LEMMA: the deviation D used by the code is floor(R * factor / 10^20) (None iff it exceeds u128)",
             And(D * UNIT <= R * i["factor"], R * i["factor"] < (D + 1) * UNIT, D >= 0, o["D_some"].iff(D <= UMAX))),
            ("deviation does not fit u128 => None", Not(o["D_some"]).implies(Not(o["some"]))),
            ("Some(p) => multipliers unchanged", o["some"].implies(And(nmind.eq(i["mind"]), nmaxd.eq(i["maxd"])))),
            ("Some(p) => at least one side was out of band; a side inside the band is untouched",
             o["some"].implies(And(Or(need_max, need_min), Not(need_max).implies(nmaxv.eq(i["maxv"])), Not(need_min).implies(nminv.eq(i["minv"]))))),
            ("Some(p), max out of band => p.max.value == floor((R + D) / 10^m_max) (rounded down to the grid), fits u32",
             And(o["some"], need_max).implies(And(nmaxv * mmax <= hi, hi < (nmaxv + 1) * mmax, nmaxv >= 0, nmaxv <= U32MAX))),
            ("Some(p), min out of band => D <= R and p.min.value == ceil((R - D) / 10^m_min) (rounded up to the grid), fits u32",
             And(o["some"], need_min).implies(And(D <= R, (nminv - 1) * mmin < lo, lo <= nminv * mmin, nminv >= 0, nminv <= U32MAX))),
            (L_BAND, o["some"].implies(And(lo <= omin, omin <= hi, lo <= omax, omax <= hi))),
            (L_ORDER, o["some"].implies(omin <= omax)),
            ("None => nothing to adjust, or the deviation / a bound / a rounded value does not fit",
             Not(o["some"]).implies(Or(And(Not(need_max), Not(need_min)), Not(o["D_some"]),
                                       And(need_max, Or(hi > UMAX, hi >= (U32MAX + 1) * mmax)),
                                       And(need_min, Or(D > R, lo > U32MAX * mmin)))))]


def obligations(tier):
    inputs = [("factor", "u128"), ("minv", "u32"), ("mind", "u8"), ("maxv", "u32"), ("maxd", "u8"),
              ("has_ref", "bool"), ("refv", "u32"), ("refd", "u8")]

    def args(v):
        dec = lambda a, b: St("Decimal", [v[a], v[b]])
        price = St("Price", [dec("minv", "mind"), dec("maxv", "maxd")])
        ref = En("Option", __import__("terms").t_ite(v["has_ref"].t, 1, 0), {"Some": (Ref(dec("refv", "refd")),)})
        return [Ref(v["factor"]), Ref(price), ref]
    rust = (f"let price = gmsol_utils::Price {{ min: {DEC} {{ value: minv, decimal_multiplier: mind }}, max: {DEC} {{ value: maxv, decimal_multiplier: maxd }} }};\n"
            f"            let rp = {DEC} {{ value: refv, decimal_multiplier: refd }};\n"
            f"            let r = {HOOK}(&factor, &price, if has_ref {{ Some(&rp) }} else {{ None }});\n"
            '            match r { Some(p) => println!("some=1\\nv00={}\\nv01={}\\nv10={}\\nv11={}", p.min.value, p.min.decimal_multiplier, p.max.value, p.max.decimal_multiplier), None => println!("some=0") }')
    out = []
    extra = ((3, 10), (12, 4), (0, 20), (20, 0))
    for mind in range(MAXM + 1):
        for maxd in range(MAXM + 1):
            if tier == "quick" and mind != maxd and (mind, maxd) not in extra:
                continue            # quick: equal multipliers (what the providers produce) + four unequal pairs; thorough: all 441 pairs
            out.append(make(inputs, args, rust, mind, maxd, witness=(mind, maxd) in ((8, 8), (0, 0), (20, 20)) + extra))
    out.sort(key=lambda o: (o.fixed != {"mind": 8, "maxd": 8}))     # the first finding witness is taken from an equal-multiplier pair
    return out


def make(inputs, args, rust, mind, maxd, witness):
    cov = None          # vacuity witnesses are taken on the witness pairs
    return Obl(f"oracle::try_adjust_price_with_max_deviation_factor [m_min={mind}, m_max={maxd}]", path_fn("try_adjust_price_with_max_deviation_factor"),
                inputs, args, view_option, rust, spec, cov if not witness else
                lambda i, o: [("max clamped down, explicit ref", And(o["some"], i["has_ref"], o["v10"] < i["maxv"], o["v00"].eq(i["minv"]))),
                              ("min clamped up, mid ref", And(o["some"], Not(i["has_ref"]), o["v00"] > i["minv"])),
                              ("both sides adjusted", And(o["some"], o["v00"].ne(i["minv"]), o["v10"].ne(i["maxv"]))),
                              ("None: inside the band", And(Not(o["some"]), i["factor"] > 0, i["minv"] < i["maxv"])),
                              ("None: cannot adjust", And(Not(o["some"]), Abs(i["maxv"] * Pow10(i["maxd"]) - o["R"]) > o["D"]))],
                (lambda i, o: [("WRONG (twin): Some(p), max out of band => p.max.value == ceil((R + D) / 10^m_max)",
                               And(o["some"], terms(i, o)[6]).implies(And((o["v10"] - 1) * terms(i, o)[1] < o["R"] + o["D"], o["R"] + o["D"] <= o["v10"] * terms(i, o)[1])))]) if (witness and maxd > 0) else None,
                assume=assume, taps={"dev": (r"apply_factor::<u128, 20>", tap_apply_factor)}, derive=derive, fixed={"mind": mind, "maxd": maxd}, key="try_adjust_price",
                findings={L_BAND: ("c29_out_of_band_on_coarse_or_unequal_grid", k_region, well_formed),
                          L_ORDER: ("c29_inverted_on_coarse_or_unequal_grid", k_region, well_formed)},
                notes="Price { min, max } and Decimal { value, decimal_multiplier } in declaration order (checked against the field projections of the MIR by the native agreement of every cover witness)")
