"""C45 (state part) - GLV market-token balance caps (programs/store/src/states/glv.rs
`Glv::validate_market_token_balance` -> `GlvMarketConfig::validate_balance`), full width on the MIR of the
real functions with gmsol-model's `market_token_amount_to_usd` / `<u128 as MulDiv>::checked_mul_div`
inlined from their MIR.  The fixed-map lookup `GlvMarkets::get` is abstract (found / not found; the map
itself is the subject of C34).
"""
from obl import Obl, path_fn, view_result
from symex import Ref, St, En, Opq, LazySt, last_seg
from mirparse import Unsupported
from terms import E, And, Or, Not, Ite, t_ite

CRATE = "store"
UMAX = 2 ** 128 - 1
GLV = "programs/store/src/states/glv.rs"
BOUNDS = ["E2/C45: every u64 max_amount / new balance, every u128 max_value / supply, every i128 pool value; market present or absent; one call"]
ASSUMPTIONS = ["E2/C45: GlvMarkets::get (fixed map lookup) is abstract: None, or Some(config with arbitrary max_amount / max_value)",
               "E2/C45: anchor error construction is opaque; GLV pricing (gmsol-model) and the instruction layer are not encoded"]


def config(v):
    def provider(ex, ty, idx, fty):
        name = ex.w.struct_fields(GLV, "GlvMarketConfig")[idx]
        if name == "max_amount":
            return v["max_amount"]
        if name == "max_value":
            return v["max_value"]
        raise Unsupported(f"C45: validate_balance reads GlvMarketConfig.{name}, which the check does not provide")
    return LazySt("GlvMarketConfig", provider)


def glv_provider(ex, ty, idx, fty):
    if ex.w.struct_fields(GLV, "Glv")[idx] == "markets":
        return Opq("GlvMarkets (abstract map)")
    raise Unsupported(f"C45: unexpected read of Glv field {idx}")


def spec(i, o):
    ma, mv, bal, pool, sup = i["max_amount"], i["max_value"], i["bal"], i["pool"], i["supply"]
    amount_ok = Or(ma.eq(0), bal <= ma)
    # value = floor(pool * bal / supply) exists and is <= max_value  <=>  supply > 0 and pool*bal < (max_value + 1) * supply
    value_ok = Or(mv.eq(0), And(pool >= 0, sup > 0, pool * bal < (mv + 1) * sup))
    return [("Ok <=> the market is in the GLV and (no caps configured, or balance <= max_amount [if set] and floor(pool_value*balance/supply) <= max_value [if set, pool value >= 0, supply > 0])",
             o["some"].iff(And(i["found"], amount_ok, value_ok))),
            ("Ok with max_amount set => new balance <= max_amount", And(o["some"], ma > 0).implies(bal <= ma)),
            ("Ok with max_value set => the balance's USD value (rounded down) <= max_value", And(o["some"], mv > 0).implies(And(sup > 0, pool >= 0, pool * bal < (mv + 1) * sup)))]


def obligations(tier):
    import run as e2
    world = e2.static_world("store")
    sizes = {"GlvMarketFlagContainer": 1}
    rust = ("use gmsol_store::{states::{Glv, market::Market}, verif_hooks as vh};\n"
            "            let mut glv: Box<Glv> = Box::new(bytemuck::Zeroable::zeroed());\n"
            "            let mut m: Box<Market> = Box::new(bytemuck::Zeroable::zeroed());\n"
            "            m.set_enabled(true);\n"
            "            let store = anchor_lang::prelude::Pubkey::default();\n"
            "            let token = m.meta().market_token_mint;\n"
            "            if found {\n"
            "                vh::glv_insert_market(&mut glv, &store, &m).expect(\"insert market\");\n"
            "                // the entry's private caps are written through its address inside the (harness-owned) GLV image\n"
            "                let off = glv.market_config(&token).expect(\"config\") as *const _ as usize - &*glv as *const Glv as usize;\n"
            "                let b = bytemuck::bytes_of_mut(&mut *glv);\n"
            "                b[off..off + 8].copy_from_slice(&max_amount.to_le_bytes());\n"
            "                b[off + 16..off + 32].copy_from_slice(&max_value.to_le_bytes());\n"
            "            }\n"
            "            let r = vh::glv_validate_market_token_balance(&glv, &token, bal, &pool, &supply);\n"
            "            println!(\"some={}\", r.is_ok() as u8);")
    return [Obl("Glv::validate_market_token_balance", path_fn("Glv::validate_market_token_balance"),
                [("found", "bool"), ("max_amount", "u64"), ("max_value", "u128"), ("bal", "u64"), ("pool", "i128"), ("supply", "u128")],
                lambda v: [Ref(LazySt("Glv", glv_provider)), Ref(Opq("Pubkey")), v["bal"], Ref(v["pool"]), Ref(v["supply"])],
                lambda ret: {"some": ret.is_("Ok")}, rust, spec,
                lambda i, o: [("Ok under both caps", And(o["some"], i["max_amount"] > 0, i["max_value"] > 0, i["bal"] > 1, i["pool"] > 1)),
                              ("Ok without caps", And(o["some"], i["max_amount"].eq(0), i["max_value"].eq(0), i["pool"] < 0)),
                              ("Err: amount cap", And(Not(o["some"]), i["found"], i["max_value"].eq(0))),
                              ("Err: value cap", And(Not(o["some"]), i["found"], i["max_amount"].eq(0), i["pool"] > 0, i["supply"] > 0)),
                              ("Err: negative pool value", And(Not(o["some"]), i["found"], i["pool"] < 0, i["max_amount"].eq(0))),
                              ("Err: market not in the GLV", Not(i["found"]))],
                lambda i, o: [("WRONG (twin): Ok with max_value set => ceil(pool_value*balance/supply) <= max_value",
                               And(o["some"], i["max_value"] > 0).implies(i["pool"] * i["bal"] <= i["max_value"] * i["supply"]))],
                stubs=[(r"GlvMarkets::get", lambda ex, m, a, v: En("Option", t_ite(v["found"].t, 1, 0), {"Some": (Ref(config(v)),)}))],
                notes="offsets of max_amount (0) / max_value (16) inside GlvMarketConfig follow its zero_copy declaration (u64, 1-byte flags, 7 bytes padding, u128, ...); "
                      "a wrong offset would show up as a disagreement between the encoded and the native result of the cover witnesses")]
