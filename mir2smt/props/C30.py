"""C30 - GT minting arithmetic (programs/store/src/states/gt.rs), full width on the MIR of the real
`GtState::{get_mint_amount, next_minting_cost, unchecked_update_rank}`; the GT state is an arbitrary
image restricted to the fields read (any other field access is an error of the check).
"""
from obl import Obl, path_fn, view_result
from symex import Ref, RefMut, St, Tup, En, Opq, LazySt, I, last_seg
from mirparse import Unsupported
from terms import E, And, Or, Not, Ite, t_ite

CRATE = "store"
CVC5_STRICT = False     # cvc5 1.0.3 does not finish several of the symbolic-divisor queries; counted and stated in the evidence
UNIT = 10 ** 20
UMAX = 2 ** 128 - 1
U64MAX = 2 ** 64 - 1
K = 3                      # unrolling bound of the cost-growth loop
NRANK = 15
GT = "programs/store/src/states/gt.rs"
BOUNDS = ["E2/C30: every u128 cost / factor / value, every u64 step amount / step count / minted total; next_minting_cost: at most 3 growth steps per call "
          "(loop unrolled 3 times, a 4th iteration is excluded by the stated assumption and checked as `loop bound exceeded` unreachable); "
          "unchecked_update_rank: every max_rank <= 15 and every strictly increasing threshold table, every u64 amount"]
ASSUMPTIONS = ["E2/C30: next_minting_cost: next_minted < (grow_steps + 4) * grow_step_amount (at most 3 new steps)",
               "E2/C30: unchecked_update_rank: max_rank <= 15 and ranks[0..max_rank] strictly increasing (both established by GtState::init)",
               "E2/C30: anchor error construction and msg! formatting are opaque"]


def gt_state(fields):
    def provider(ex, ty, idx, fty):
        if last_seg(ty) != "GtState":
            raise Unsupported(f"C30: unexpected struct {ty}")
        name = ex.w.struct_fields(GT, "GtState")[idx]
        if name not in fields:
            raise Unsupported(f"C30: the function reads GtState.{name}, which the check does not provide")
        return fields[name]
    return LazySt("GtState", provider)


def rust_gt(world, pokes):
    """Rust statements building a zeroed Store and writing the given GtState fields at the byte offsets
    computed from the struct declaration (zero_copy: repr(C), no implicit padding; size cross-checked)."""
    lay, total = world.pod_layout(GT, "GtState")
    lines = ["use gmsol_store::{states::{Store, gt::GtState}, verif_hooks as vh};",
             "let mut store: Box<Store> = Box::new(bytemuck::Zeroable::zeroed());",
             "let gt = vh::gt_mut(&mut store);",
             f"assert_eq!(std::mem::size_of::<GtState>(), {total}, \"GtState layout changed\");"]
    for field, expr in pokes:
        off, sz = lay[field]
        lines.append(f"{{ let b = ({expr}).to_le_bytes(); assert_eq!(b.len(), {sz}); bytemuck::bytes_of_mut(gt)[{off}..{off + sz}].copy_from_slice(&b); }}")
    return "\n            ".join(lines)


class LazyRust:
    """Rust snippet that needs the World (struct layout): rendered when the replay crate is generated."""
    def __init__(self, f):
        self.f = f


def obligations(tier):
    import run as e2
    world = e2.static_world("store")
    out = []

    # ---- get_mint_amount ------------------------------------------------------------------------------------------------
    out.append(Obl("GtState::get_mint_amount", path_fn("GtState::get_mint_amount"), [("cost", "u128"), ("size", "u128")],
                   lambda v: [Ref(gt_state({"minting_cost": v["cost"]})), v["size"]], view_result,
                   rust_gt(world, [("minting_cost", "cost")]) + "\n            assert_eq!(gt.minting_cost(), cost);\n"
                   "            match vh::gt_get_mint_amount(gt, size) { Ok((a, b, c)) => println!(\"some=1\\nv0={}\\nv1={}\\nv2={}\", a, b, c), Err(_) => println!(\"some=0\") }",
                   lambda i, o: [("Ok((minted, minted_value, cost)) => cost is the stored cost, minted*cost == minted_value, remainder = value - minted_value in [0, cost), minted fits u64",
                                  o["some"].implies(And(o["v2"].eq(i["cost"]), (o["v0"] * i["cost"]).eq(o["v1"]), o["v1"] <= i["size"], i["size"] - o["v1"] < i["cost"],
                                                        o["v0"] >= 0, o["v0"] <= U64MAX))),
                                 ("Err <=> cost == 0 or floor(value / cost) > u64::MAX", Not(o["some"]).iff(Or(i["cost"].eq(0), i["size"] >= (U64MAX + 1) * i["cost"])))],
                   lambda i, o: [("Ok with a remainder", And(o["some"], o["v1"] < i["size"], o["v0"] > 1)), ("Err: overflow", And(Not(o["some"]), i["cost"] > 0)), ("Err: zero cost", i["cost"].eq(0))],
                   lambda i, o: [("WRONG (twin): Ok => minted_value == value", o["some"].implies(o["v1"].eq(i["size"])))]))

    # ---- next_minting_cost ----------------------------------------------------------------------------------------------
    def nm_view(ret):
        if not isinstance(ret, En) or ret.kind != "Result":
            raise Unsupported("Result expected")
        o_ = {"some": ret.is_("Ok")}
        pl = ret.pl.get("Ok")
        if pl:
            o_["has"] = pl[0].is_("Some")
            t = pl[0].pl.get("Some")
            if t:
                o_["steps"], o_["cost"] = t[0].fs[0].t, t[0].fs[1].t
        return o_

    def tap_iter(calls):
        d = {}
        for j in range(K):
            if j < len(calls):
                a, r, pc = calls[j]
                x = a[0]
                while hasattr(x, "v"):
                    x = x.v
                d[f"a{j + 1}"], d[f"r{j + 1}"], d[f"ok{j + 1}"], d[f"x{j + 1}"] = x.t, r.pl["Some"][0].t, r.is_("Some"), pc
            else:
                d[f"a{j + 1}"], d[f"r{j + 1}"], d[f"ok{j + 1}"], d[f"x{j + 1}"] = 0, 0, True, False
        return d

    def nm_derive(inp):
        d, c = {}, inp["cost"]
        n = (inp["next"] // inp["step"] - inp["steps"]) if inp["step"] else 0
        alive = inp["step"] != 0
        for j in range(K):
            r = c * inp["factor"] // UNIT
            d[f"a{j + 1}"], d[f"r{j + 1}"], d[f"ok{j + 1}"], d[f"x{j + 1}"] = c, r, r <= UMAX, alive and n > j
            alive = alive and r <= UMAX
            c = r
        return d

    def nm_spec(i, o):
        st, s0, c0, f, nx = i["step"], i["steps"], i["cost"], i["factor"], i["next"]
        s, c = o["steps"], o["cost"]
        n = s - s0
        cl = []
        prev = c0
        for j in range(1, K + 1):
            a, r, ok = o[f"a{j}"], o[f"r{j}"], o[f"ok{j}"]
            cl.append((f"LEMMA: growth step {j}, when executed, multiplies the previous cost by the factor: r{j} == floor(a{j} * factor / 10^20), a{j} == previous cost",
                       o[f"x{j}"].implies(And(a.eq(prev), r * UNIT <= a * f, a * f < (r + 1) * UNIT, r >= 0, ok.iff(r <= UMAX)))))
            prev = r
        new = o["x1"]      # the growth loop is entered
        it = Ite(n <= 0, c0, Ite(n.eq(1), o["r1"], Ite(n.eq(2), o["r2"], o["r3"])))
        oks = And(Or(n < 1, o["ok1"]), Or(n < 2, o["ok2"]), Or(n < 3, o["ok3"]))
        execd = And((n >= 1).iff(o["x1"]), (n >= 2).iff(o["x2"]), (n >= 3).iff(o["x3"]))
        new_ok = And(st > 0, s * st <= nx, nx < (s + 1) * st)
        gi = Ite(n <= 0, c0, Ite(n.eq(1), i["g1"], Ite(n.eq(2), i["g2"], i["g3"])))
        cl += [("Ok(Some((steps, cost))) => cost equals the iterate defined independently of the code (ghost chain g1 = floor(c*f/10^20), g2 = floor(g1*f/10^20), g3 = ...)",
                And(o["some"], o["has"]).implies(c.eq(gi)))]
        cl += [("Ok(Some((steps, cost))) => steps == floor(next_minted / step_amount) != grow_steps and cost is the (steps - grow_steps)-fold iterate of c -> floor(c*factor/10^20)",
                And(o["some"], o["has"]).implies(And(new_ok, s.ne(s0), c.eq(it), oks, execd))),
               ("Ok(None) => floor(next_minted / step_amount) == grow_steps", And(o["some"], Not(o["has"])).implies(And(st > 0, s0 * st <= nx, nx < (s0 + 1) * st))),
               ("Err => step_amount == 0 or a grown cost exceeds u128",
                Not(o["some"]).implies(Or(st.eq(0), And(o["x1"], Not(o["ok1"])), And(o["x2"], Not(o["ok2"])), And(o["x3"], Not(o["ok3"])))))]
        return cl
    nm_inputs = [("step", "u64"), ("steps", "u64"), ("cost", "u128"), ("factor", "u128"), ("next", "u64"),
                 ("g1", "int"), ("g2", "int"), ("g3", "int")]       # ghosts: the iterates by definition

    def nm_assume(i):
        f = i["factor"]
        chain = And(i["g1"] * UNIT <= i["cost"] * f, i["cost"] * f < (i["g1"] + 1) * UNIT,
                    i["g2"] * UNIT <= i["g1"] * f, i["g1"] * f < (i["g2"] + 1) * UNIT,
                    i["g3"] * UNIT <= i["g2"] * f, i["g2"] * f < (i["g3"] + 1) * UNIT)
        return And(chain, Or(i["step"].eq(0), i["next"] < (i["steps"] + K + 1) * i["step"]))
    out.append(Obl("GtState::next_minting_cost [<= 3 growth steps]", path_fn("GtState::next_minting_cost"), nm_inputs,
                   lambda v: [Ref(gt_state({"grow_step_amount": v["step"], "grow_steps": v["steps"], "minting_cost": v["cost"], "minting_cost_grow_factor": v["factor"]})), v["next"]],
                   nm_view,
                   rust_gt(world, [("grow_step_amount", "step"), ("grow_steps", "steps"), ("minting_cost", "cost"), ("minting_cost_grow_factor", "factor")]) +
                   "\n            assert_eq!((gt.minting_cost(), gt.grow_steps()), (cost, steps));\n"
                   "            match gt.verif_next_minting_cost(next) { Ok(Some((a, b))) => println!(\"some=1\\nhas=1\\nsteps={}\\ncost={}\", a, b), Ok(None) => println!(\"some=1\\nhas=0\"), Err(_) => println!(\"some=0\") }",
                   nm_spec,
                   lambda i, o: [("three growth steps", And(o["some"], o["has"], (o["steps"] - i["steps"]).eq(3), o["cost"] > i["cost"])),
                                 ("one growth step", And(o["some"], o["has"], (o["steps"] - i["steps"]).eq(1))),
                                 ("no new step", And(o["some"], Not(o["has"]))), ("Err: overflow", And(Not(o["some"]), i["step"] > 0)),
                                 ("steps behind the counter (empty range)", And(o["some"], o["has"], o["steps"] < i["steps"]))],
                   lambda i, o: [("WRONG (twin): Ok(Some((steps, cost))) => cost == floor(stored cost * factor / 10^20) (one step only)",
                                  And(o["some"], o["has"]).implies(o["cost"].eq(o["r1"])))],
                   assume=nm_assume, ghost=("g1", "g2", "g3"),
                   unroll=K, taps={"grow": (r"apply_factor::<u128, 20>", tap_iter)}, derive=nm_derive))
    # Path independence (mint to t1, then to t2  ==  mint to t2 directly) is a consequence of the clauses above: the
    # result depends only on (floor(next / step), stored cost, factor) and is the n-fold iterate of one map from the
    # stored cost, and mint_to stores exactly (steps, cost).  A composite obligation running the real function three
    # times symbolically was tried; the equality clause was decided for some splits but z3 timed out (60 s) on others,
    # so it is not part of the check.
    # ---- unchecked_update_rank --------------------------------------------------------------------------------------------
    USER = "programs/store/src/states/user.rs"
    ur_inputs = [("max_rank", "u64"), ("amount", "u64"), ("old_rank", "u8")] + [(f"t{k}", "u64") for k in range(NRANK)]

    def ur_init(v):
        hn = world.struct_fields(USER, "UserHeader")
        gn = world.struct_fields(USER, "UserGtState")
        gt_user = St("UserGtState", [{"rank": v["old_rank"], "amount": v["amount"]}.get(n, Opq("UserGtState." + n)) for n in gn])
        return {"$user": St("UserHeader", [gt_user if n == "gt" else Opq("UserHeader." + n) for n in hn])}

    def ur_view(ret, fin):
        hn = world.struct_fields(USER, "UserHeader")
        gn = world.struct_fields(USER, "UserGtState")
        g = fin["$user"].fs[hn.index("gt")]
        return {"rank": g.fs[gn.index("rank")].t, "amount": g.fs[gn.index("amount")].t}

    def count_le(i):
        n = E(0)
        for k in range(NRANK):
            n = n + Ite(And(i["max_rank"] > k, i[f"t{k}"] <= i["amount"]), 1, 0)
        return n
    glay = world.pod_layout(USER, "UserGtState")[0]
    tl = ", ".join(f"t{k}" for k in range(NRANK))
    ur_rust = (rust_gt(world, [("max_rank", "max_rank")]) + "\n"
               f"            let ts: [u64; {NRANK}] = [{tl}];\n"
               f"            for (k, t) in ts.iter().enumerate() {{ let o = {world.pod_layout(GT, 'GtState')[0]['ranks'][0]} + 8 * k; bytemuck::bytes_of_mut(gt)[o..o + 8].copy_from_slice(&t.to_le_bytes()); }}\n"
               "            let mut user: Box<gmsol_store::states::user::UserHeader> = Box::new(bytemuck::Zeroable::zeroed());\n"
               "            // the private gt.amount is located by probing through the user_gt_amount hook; gt.rank precedes it by the declared layout\n"
               "            let n = std::mem::size_of::<gmsol_store::states::user::UserHeader>();\n"
               "            let mut off = None;\n"
               "            for o in (0..n - 8).step_by(8) { bytemuck::bytes_of_mut(&mut *user)[o] = 0xAB; let hit = vh::user_gt_amount(&user) == 0xAB; bytemuck::bytes_of_mut(&mut *user)[o] = 0; if hit { off = Some(o); break; } }\n"
               f"            let aoff = off.expect(\"gt.amount offset\"); let roff = aoff - {glay['amount'][0]} + {glay['rank'][0]};\n"
               "            bytemuck::bytes_of_mut(&mut *user)[aoff..aoff + 8].copy_from_slice(&amount.to_le_bytes());\n"
               "            bytemuck::bytes_of_mut(&mut *user)[roff] = old_rank;\n"
               "            gt.verif_update_rank(&mut user);\n"
               "            println!(\"rank={}\\namount={}\", bytemuck::bytes_of(&*user)[roff], vh::user_gt_amount(&user));")
    out.append(Obl("GtState::unchecked_update_rank", path_fn("GtState::unchecked_update_rank"), ur_inputs,
                   lambda v: [Ref(gt_state({"max_rank": v["max_rank"], "ranks": Tup([v[f"t{k}"] for k in range(NRANK)])})), RefMut(0, "$user")], None, ur_rust,
                   lambda i, o: [("rank == number of thresholds (among the first max_rank) that are <= the user's GT amount", o["rank"].eq(count_le(i))),
                                 ("the amount is untouched", o["amount"].eq(i["amount"]))],
                   lambda i, o: [("top rank", And(o["rank"].eq(NRANK), i["max_rank"].eq(NRANK))), ("rank lowered", o["rank"] < i["old_rank"]),
                                 ("amount equal to a threshold", And(i["max_rank"] > 2, i["amount"].eq(i["t1"]), o["rank"].eq(2)))],
                   lambda i, o: [("WRONG (twin): rank == number of thresholds strictly below the amount",
                                  o["rank"].eq(sum((Ite(And(i["max_rank"] > k, i[f"t{k}"] < i["amount"]), 1, 0) for k in range(NRANK)), E(0))))],
                   assume=lambda i: And(i["max_rank"] <= NRANK, *[Or(i["max_rank"] <= k + 1, i[f"t{k}"] < i[f"t{k + 1}"]) for k in range(NRANK - 1)]),
                   init_locals=ur_init, view_state=ur_view))
    return out
