"""C30 - GT minting arithmetic (programs/store/src/states/gt.rs), full width on the MIR of the real
`GtState::{get_mint_amount, next_minting_cost, unchecked_update_rank}`; the GT state is an arbitrary
image restricted to the fields read (any other field access is an error of the check).
"""
from obl import Obl, path_fn, view_result
from symex import Ref, RefMut, St, Tup, En, Opq, LazySt, I, last_seg
from mirparse import Unsupported
from terms import E, And, Or, Not, Ite, t_ite

CRATE = "store"
UNIT = 10 ** 20
UMAX = 2 ** 128 - 1
U64MAX = 2 ** 64 - 1
K = 3                      # unrolling bound of the cost-growth loop
NRANK = 15
GT = "programs/store/src/states/gt.rs"
BOUNDS = ["E2/C30: every u128 cost / factor / value, every u64 step amount / step count / minted total; next_minting_cost: at most 3 growth steps per call "
          "(loop unrolled 3 times, a 4th iteration is excluded by the stated assumption and checked as `loop bound exceeded` unreachable); "
          "unchecked_update_rank: every max_rank <= 15 and every strictly increasing threshold table, every u64 amount"]
ASSUMPTIONS = ["E2/C30: next_minting_cost: next_minted < (grow_steps + 4) * grow_step_amount (at most 3 new steps)",
               "E2/C30: unchecked_update_rank: max_rank <= 15 and ranks[0..max_rank] strictly increasing (both established by GtState::init)",
               "E2/C30: anchor error construction and msg! formatting are opaque"]


def gt_state(fields):
    def provider(ex, ty, idx, fty):
        if last_seg(ty) != "GtState":
            raise Unsupported(f"C30: unexpected struct {ty}")
        name = ex.w.struct_fields(GT, "GtState")[idx]
        if name not in fields:
            raise Unsupported(f"C30: the function reads GtState.{name}, which the check does not provide")
        return fields[name]
    return LazySt("GtState", provider)


def rust_gt(world, pokes):
    """Rust statements building a zeroed Store and writing the given GtState fields at the byte offsets
    computed from the struct declaration (zero_copy: repr(C), no implicit padding; size cross-checked)."""
    lay, total = world.pod_layout(GT, "GtState")
    lines = ["use gmsol_store::{states::{Store, gt::GtState}, verif_hooks as vh};",
             "let mut store: Box<Store> = Box::new(bytemuck::Zeroable::zeroed());",
             "let gt = vh::gt_mut(&mut store);",
             f"assert_eq!(std::mem::size_of::<GtState>(), {total}, \"GtState layout changed\");"]
    for field, expr in pokes:
        off, sz = lay[field]
        lines.append(f"{{ let b = ({expr}).to_le_bytes(); assert_eq!(b.len(), {sz}); bytemuck::bytes_of_mut(gt)[{off}..{off + sz}].copy_from_slice(&b); }}")
    return "\n            ".join(lines)


class LazyRust:
    """Rust snippet that needs the World (struct layout): rendered when the replay crate is generated."""
    def __init__(self, f):
        self.f = f


def obligations(tier):
    import run as e2
    world = e2.static_world("store")
    out = []

    # ---- get_mint_amount ------------------------------------------------------------------------------------------------
    out.append(Obl("GtState::get_mint_amount", path_fn("GtState::get_mint_amount"), [("cost", "u128"), ("size", "u128")],
                   lambda v: [Ref(gt_state({"minting_cost": v["cost"]})), v["size"]], view_result,
                   rust_gt(world, [("minting_cost", "cost")]) + "\n            assert_eq!(gt.minting_cost(), cost);\n"
                   "            match vh::gt_get_mint_amount(gt, size) { Ok((a, b, c)) => println!(\"some=1\\nv0={}\\nv1={}\\nv2={}\", a, b, c), Err(_) => println!(\"some=0\") }",
                   lambda i, o: [("Ok((minted, minted_value, cost)) => cost is the stored cost, minted*cost == minted_value, remainder = value - minted_value in [0, cost), minted fits u64",
                                  o["some"].implies(And(o["v2"].eq(i["cost"]), (o["v0"] * i["cost"]).eq(o["v1"]), o["v1"] <= i["size"], i["size"] - o["v1"] < i["cost"],
                                                        o["v0"] >= 0, o["v0"] <= U64MAX))),
                                 ("Err <=> cost == 0 or floor(value / cost) > u64::MAX", Not(o["some"]).iff(Or(i["cost"].eq(0), i["size"] >= (U64MAX + 1) * i["cost"])))],
                   lambda i, o: [("Ok with a remainder", And(o["some"], o["v1"] < i["size"], o["v0"] > 1)), ("Err: overflow", And(Not(o["some"]), i["cost"] > 0)), ("Err: zero cost", i["cost"].eq(0))],
                   lambda i, o: [("WRONG (twin): Ok => minted_value == value", o["some"].implies(o["v1"].eq(i["size"])))]))

    # ---- next_minting_cost ----------------------------------------------------------------------------------------------
    def nm_view(ret):
        if not isinstance(ret, En) or ret.kind != "Result":
            raise Unsupported("Result expected")
        o_ = {"some": ret.is_("Ok")}
        pl = ret.pl.get("Ok")
        if pl:
            o_["has"] = pl[0].is_("Some")
            t = pl[0].pl.get("Some")
            if t:
                o_["steps"], o_["cost"] = t[0].fs[0].t, t[0].fs[1].t
        return o_

    def tap_iter(calls):
        d = {}
        for j in range(K):
            if j < len(calls):
                a, r, pc = calls[j]
                x = a[0]
                while hasattr(x, "v"):
                    x = x.v
                d[f"a{j + 1}"], d[f"r{j + 1}"], d[f"ok{j + 1}"], d[f"x{j + 1}"] = x.t, r.pl["Some"][0].t, r.is_("Some"), pc
            else:
                d[f"a{j + 1}"], d[f"r{j + 1}"], d[f"ok{j + 1}"], d[f"x{j + 1}"] = 0, 0, True, False
        return d

    def nm_derive(inp):
        d, c = {}, inp["cost"]
        n = (inp["next"] // inp["step"] - inp["steps"]) if inp["step"] else 0
        alive = inp["step"] != 0
        for j in range(K):
            r = c * inp["factor"] // UNIT
            d[f"a{j + 1}"], d[f"r{j + 1}"], d[f"ok{j + 1}"], d[f"x{j + 1}"] = c, r, r <= UMAX, alive and n > j
            alive = alive and r <= UMAX
            c = r
        return d

    def nm_spec(i, o):
        st, s0, c0, f, nx = i["step"], i["steps"], i["cost"], i["factor"], i["next"]
        s, c = o["steps"], o["cost"]
        n = s - s0
        cl = []
        prev = c0
        for j in range(1, K + 1):
            a, r, ok = o[f"a{j}"], o[f"r{j}"], o[f"ok{j}"]
            cl.append((f"LEMMA: growth step {j}, when executed, multiplies the previous cost by the factor: r{j} == floor(a{j} * factor / 10^20), a{j} == previous cost",
                       o[f"x{j}"].implies(And(a.eq(prev), r * UNIT <= a * f, a * f < (r + 1) * UNIT, r >= 0, ok.iff(r <= UMAX)))))
            prev = r
        new = o["x1"]      # the growth loop is entered
        it = Ite(n <= 0, c0, Ite(n.eq(1), o["r1"], Ite(n.eq(2), o["r2"], o["r3"])))
        oks = And(Or(n < 1, o["ok1"]), Or(n < 2, o["ok2"]), Or(n < 3, o["ok3"]))
        execd = And((n >= 1).iff(o["x1"]), (n >= 2).iff(o["x2"]), (n >= 3).iff(o["x3"]))
        new_ok = And(st > 0, s * st <= nx, nx < (s + 1) * st)
        cl += [("Ok(Some((steps, cost))) => steps == floor(next_minted / step_amount) != grow_steps and cost is the (steps - grow_steps)-fold iterate of c -> floor(c*factor/10^20)",
                And(o["some"], o["has"]).implies(And(new_ok, s.ne(s0), c.eq(it), oks, execd))),
               ("Ok(None) => floor(next_minted / step_amount) == grow_steps", And(o["some"], Not(o["has"])).implies(And(st > 0, s0 * st <= nx, nx < (s0 + 1) * st))),
               ("Err => step_amount == 0 or a grown cost exceeds u128",
                Not(o["some"]).implies(Or(st.eq(0), And(o["x1"], Not(o["ok1"])), And(o["x2"], Not(o["ok2"])), And(o["x3"], Not(o["ok3"])))))]
        return cl
    nm_inputs = [("step", "u64"), ("steps", "u64"), ("cost", "u128"), ("factor", "u128"), ("next", "u64")]
    out.append(Obl("GtState::next_minting_cost [<= 3 growth steps]", path_fn("GtState::next_minting_cost"), nm_inputs,
                   lambda v: [Ref(gt_state({"grow_step_amount": v["step"], "grow_steps": v["steps"], "minting_cost": v["cost"], "minting_cost_grow_factor": v["factor"]})), v["next"]],
                   nm_view,
                   rust_gt(world, [("grow_step_amount", "step"), ("grow_steps", "steps"), ("minting_cost", "cost"), ("minting_cost_grow_factor", "factor")]) +
                   "\n            assert_eq!((gt.minting_cost(), gt.grow_steps()), (cost, steps));\n"
                   "            match gt.verif_next_minting_cost(next) { Ok(Some((a, b))) => println!(\"some=1\\nhas=1\\nsteps={}\\ncost={}\", a, b), Ok(None) => println!(\"some=1\\nhas=0\"), Err(_) => println!(\"some=0\") }",
                   nm_spec,
                   lambda i, o: [("three growth steps", And(o["some"], o["has"], (o["steps"] - i["steps"]).eq(3), o["cost"] > i["cost"])),
                                 ("one growth step", And(o["some"], o["has"], (o["steps"] - i["steps"]).eq(1))),
                                 ("no new step", And(o["some"], Not(o["has"]))), ("Err: overflow", And(Not(o["some"]), i["step"] > 0)),
                                 ("steps behind the counter (empty range)", And(o["some"], o["has"], o["steps"] < i["steps"]))],
                   lambda i, o: [("WRONG (twin): Ok(Some((steps, cost))) => cost == floor(stored cost * factor / 10^20) (one step only)",
                                  And(o["some"], o["has"]).implies(o["cost"].eq(o["r1"])))],
                   assume=lambda i: Or(i["step"].eq(0), i["next"] < (i["steps"] + K + 1) * i["step"]),
                   unroll=K, taps={"grow": (r"apply_factor::<u128, 20>", tap_iter)}, derive=nm_derive))
    # ---- path independence of the minting cost: mint up to t1 then up to t2  ==  mint up to t2 directly ------------------
    def pi_runner(ex, item, subst, v):
        from terms import t_and, t_ite as ite
        def call(steps, cost, nxt):
            st = gt_state({"grow_step_amount": v["step"], "grow_steps": steps, "minting_cost": cost, "minting_cost_grow_factor": v["factor"]})
            return ex.run(item, subst, [Ref(st), nxt])
        def after(r, steps, cost):
            """the (grow_steps, minting_cost) that mint_to stores after Ok(r)"""
            ok = r.pl["Ok"][0]
            has = ok.is_("Some")
            t = ok.pl.get("Some")
            if not t:
                return steps, cost, r.is_("Ok")
            return (I(ite(has, t[0].fs[0].t, steps.t), "u64"), I(ite(has, t[0].fs[1].t, cost.t), "u128"), r.is_("Ok"))
        pc0 = ex.pc
        r1 = call(v["steps"], v["cost"], v["t1"])
        s1, c1, ok1 = after(r1, v["steps"], v["cost"])
        ex.pc = t_and(pc0, ok1)
        r2 = call(s1, c1, v["t2"])
        s2, c2, ok2 = after(r2, s1, c1)
        ex.pc = pc0
        r3 = call(v["steps"], v["cost"], v["t2"])
        s3, c3, ok3 = after(r3, v["steps"], v["cost"])
        ex.pc = pc0
        return St("PI", [__import__("symex").Bv(ok1), __import__("symex").Bv(ok2), s2, c2, __import__("symex").Bv(ok3), s3, c3])
    # one obligation per split (n1, n2) of at most 3 growth steps; the step amount, counters and totals stay symbolic
    pi_inputs = [("step", "u64"), ("steps", "u64"), ("cost", "u128"), ("factor", "u128"), ("t1", "u64"), ("t2", "u64")]
    pokes = [("grow_step_amount", "step"), ("grow_steps", "s"), ("minting_cost", "c"), ("minting_cost_grow_factor", "factor")]
    pi_rust = ("let run = |s0: u64, c0: u128, targets: &[u64]| -> (bool, u64, u128) {\n            let (mut s, mut c) = (s0, c0);\n            for t in targets {\n            "
               + rust_gt(world, pokes).replace("\n            ", "\n                ") +
               "\n                match gt.verif_next_minting_cost(*t) { Ok(Some((a, b))) => { s = a; c = b; } Ok(None) => {} Err(_) => return (false, s, c) }\n            }\n            (true, s, c) };\n"
               "            let (ok12, s2, c2) = run(steps, cost, &[t1, t2]);\n            let (ok1, _, _) = run(steps, cost, &[t1]);\n            let (ok3, s3, c3) = run(steps, cost, &[t2]);\n"
               "            println!(\"v0={}\\nv1={}\\nv2={}\\nv3={}\\nv4={}\\nv5={}\\nv6={}\", ok1 as u8, ok12 as u8, s2, c2, ok3 as u8, s3, c3);")

    def pi_view(ret):
        d = {f"v{k}": (f.t) for k, f in enumerate(ret.fs)}
        return d

    def pi_spec(i, o):
        ok1, ok12, s2, c2, ok3, s3, c3 = [o[f"v{k}"] for k in range(7)]
        both = And(ok1, ok12, ok3)
        # (that the two routes fail together follows from the Err characterisation of the single call: an iterate exceeds u128)
        return [("both routes succeed => same (grow_steps, minting_cost) afterwards", both.implies(And(s2.eq(s3), c2.eq(c3))))]
    for n1 in range(K + 1):
        for n2 in range(K + 1 - n1):
            def pin(i, n1=n1, n2=n2):
                st, s0 = i["step"], i["steps"]
                return And(st > 0, (s0 + n1) * st <= i["t1"], i["t1"] < (s0 + n1 + 1) * st, (s0 + n1 + n2) * st <= i["t2"], i["t2"] < (s0 + n1 + n2 + 1) * st)
            out.append(Obl(f"GtState::next_minting_cost: path independence [{n1} growth steps up to t1, {n2} more up to t2]",
                           path_fn("GtState::next_minting_cost"), pi_inputs, None, pi_view, pi_rust, pi_spec,
                           lambda i, o: [("all three calls succeed", And(o["v0"], o["v1"], o["v4"]))],
                           None, assume=pin, unroll=K, runner=pi_runner, key="next_minting_cost_path_independence",
                           notes="composite of three symbolic runs of the real function; the intermediate state is what mint_to stores (steps, cost) after an Ok result"))
    return out
