"""C14 - position impact distribution respects the pool floor (crates/model/src/market/position_impact.rs),
full u128 width on the MIR of `PositionImpactMarketExt::pending_position_impact_pool_distribution_amount`.

The market is abstract: the two accessors the function calls (`position_impact_pool_amount`,
`position_impact_distribution_params`) return arbitrary values (every u128 pool amount, every
distribute factor and minimum); the arithmetic between them is the real code (checked_sub,
`utils::apply_factor` -> `<u128 as MulDiv>::checked_mul_div` inlined from their MIR).
"""
from obl import Obl, path_fn, view_result
from symex import Ref, St, Opq, En, I
from terms import E, And, Or, Not, Ite

CRATE = "model"
UMAX = 2 ** 128 - 1
UNIT = 10 ** 20
BOUNDS = ["E2/C14: every u128 pool amount, minimum amount and distribute factor, every u64 duration; Num = u128, DECIMALS = 20; one call "
          "(repeated distributions: the post-state `next` is again an arbitrary pool amount of the pre-state domain, so any history follows)"]
ASSUMPTIONS = ["E2/C14: abstract market: position_impact_pool_amount() and position_impact_distribution_params() are stubbed to return Ok(arbitrary value); "
               "their Err results are only propagated by `?` and are not decided"]

NUM = "<Self as BaseMarket<DECIMALS>>::Num"
SUBST = {NUM: "u128", "<Self as market::base::BaseMarket<DECIMALS>>::Num": "u128", "Self": "M", "DECIMALS": "20_u8"}


def ok(v):
    return En("Result", 0, {"Ok": (v,), "Err": (Opq("error::Error"),)})


def params_stub(ex, m, a, v):
    names = ex.w.struct_fields("crates/model/src/params/position.rs", "PositionImpactDistributionParams")
    by_name = {"distribute_factor": v["rate"], "min_position_impact_pool_amount": v["minp"]}
    return ok(St("PositionImpactDistributionParams", [by_name[n] for n in names]))


def spec(i, o):
    cur, mn, rate, t = i["current"], i["minp"], i["rate"], i["t"]
    dist, nxt = o["v0"], o["v1"]
    a = t * rate
    active = And(rate.ne(0), cur > mn)
    # f = floor(t*rate/UNIT) characterised without division; dist = min(f, cur - min)
    cap = cur - mn
    exact = Or(And(dist.eq(cap), a >= cap * UNIT),                      # capped: floor(a/UNIT) >= cap
               And(dist < cap, dist * UNIT <= a, a < (dist + 1) * UNIT))  # dist == floor(a/UNIT) < cap
    return [("the call succeeds (no overflow is possible: t < 2^64)", o["some"]),
            ("next == current - distributed, never increases", o["some"].implies(And(nxt.eq(cur - dist), nxt <= cur, dist >= 0))),
            ("started above the minimum => stays at or above it", And(o["some"], cur > mn).implies(nxt >= mn)),
            ("factor == 0 or current <= min => nothing distributed", And(o["some"], Not(active)).implies(And(dist.eq(0), nxt.eq(cur)))),
            ("distributed == min(floor(t*rate/UNIT), current - min)", And(o["some"], active).implies(exact))]


def obligations(tier):
    rust = ("use gmsol_model::{test::{TestMarket, TestMarketConfig}, params::position::PositionImpactDistributionParams, "
            "PositionImpactMarketMut, PositionImpactMarketExt, Pool};\n"
            "            let mut cfg = TestMarketConfig::<u128, 20>::default();\n"
            "            cfg.position_impact_distribution_params = PositionImpactDistributionParams::builder()"
            ".distribute_factor(rate).min_position_impact_pool_amount(minp).build();\n"
            "            let mut m = TestMarket::<u128, 20>::with_config(cfg);\n"
            "            let mut rest = current;\n"
            "            while rest > 0 { let step = rest.min(i128::MAX as u128); "
            "m.position_impact_pool_mut().unwrap().apply_delta_to_long_amount(&(step as i128)).unwrap(); rest -= step; }\n"
            "            let r = m.pending_position_impact_pool_distribution_amount(t);\n"
            "            match r { Ok((a, b)) => println!(\"some=1\\nv0={}\\nv1={}\", a, b), Err(_) => println!(\"some=0\") }")
    return [Obl("PositionImpactMarketExt::pending_position_impact_pool_distribution_amount [Num = u128, DECIMALS = 20]",
                path_fn("PositionImpactMarketExt::pending_position_impact_pool_distribution_amount", SUBST),
                [("current", "u128"), ("minp", "u128"), ("rate", "u128"), ("t", "u64")],
                lambda v: [Ref(Opq("abstract market")), v["t"]], view_result, rust, spec,
                lambda i, o: [("capped distribution", And(o["some"], i["rate"].ne(0), i["current"] > i["minp"], o["v1"].eq(i["minp"]), o["v0"] > 0)),
                              ("uncapped distribution", And(o["some"], o["v0"] > 0, o["v1"] > i["minp"])),
                              ("nothing to distribute", And(o["some"], o["v0"].eq(0)))],
                lambda i, o: [("WRONG (twin): distributed == min(ceil(t*rate/UNIT), current - min)",
                               And(o["some"], i["rate"].ne(0), i["current"] > i["minp"], o["v0"] < i["current"] - i["minp"]).implies(
                                   And((o["v0"] - 1) * UNIT < i["t"] * i["rate"], i["t"] * i["rate"] <= o["v0"] * UNIT)))],
                stubs=[(r"<M as PositionImpactMarketExt<20_u8>>::position_impact_pool_amount", lambda ex, m, a, v: ok(v["current"])),
                       (r"<M as PositionImpactMarket<20_u8>>::position_impact_distribution_params", params_stub)],
                notes="the params struct is built in the field order read from params/position.rs on every run")]
