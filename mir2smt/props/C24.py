"""C24 - oracle validation (programs/store/src/states/oracle/validator.rs `PriceValidator::{validate_one,
merge_range, finish}`, price_map.rs `SmallPrices::from_price`), full i64/u64/u128 width on the MIR of the
real functions (gmsol-model / gmsol-utils callees inlined from their MIR).

validate_one: the per-feed accessors of TokenConfig are abstract (both fail, or return an arbitrary
u32 timestamp adjustment and an arbitrary u32 deviation ratio, 0 = none; factor = ratio * 10^12 as
FeedConfig stores it).  The deviation part refers to the values the code computes (taps): reference R,
deviation D = floor(R*factor/10^20), rounded deviation c*10^m_max with c = ceil(D / 10^m_max).
"""
from obl import Obl, path_fn, view_result, view_plain, flat
from symex import Ref, RefMut, St, En, Opq, LazySt, I, Tup, UNIT as UNITV, last_seg
from mirparse import Unsupported
from terms import E, And, Or, Not, Ite, Abs, t_ite

CRATE = "store"
UNIT = 10 ** 20
RM = 10 ** 12
UMAX = 2 ** 128 - 1
U32MAX = 2 ** 32 - 1
I64MAX, I64MIN = 2 ** 63 - 1, -2 ** 63
MAXM = 20
VFILE = "programs/store/src/states/oracle/validator.rs"
BOUNDS = ["E2/C24: every i64 timestamp / clock value, every u64 max-age / range / future-excess setting and slot, every u32 timestamp adjustment and deviation ratio, "
          "every u32 price value, reference multiplier <= 20; validate_one: one obligation set per (min, max) multiplier pair - quick: the 21 equal pairs plus (3,10), (12,4); thorough: all 441; "
          "one call of each function from an arbitrary accumulated range state (histories follow: the post-state is again such a state)"]
ASSUMPTIONS = ["E2/C24: TokenConfig::timestamp_adjustment / max_deviation_factor are abstract accessors (both Err, or Ok(adj) / Ok(None | Some(ratio*10^12)))",
               "E2/C24: decimal multipliers <= 20; anchor error construction, msg! and the OraclePriceFlag bitmap are opaque",
               "E2/C24: provider / feed identity, Oracle::with_prices_opts clearing and the clock sysvar are not encoded"]


def Pow10(e, maxe=21):
    e = E(e)
    r = E(10 ** maxe)
    for k in range(maxe - 1, -1, -1):
        r = Ite(e.eq(k), 10 ** k, r)
    return r


def opt(flag, v):
    return En("Option", t_ite(flag.t, 1, 0), {"Some": (v,)})


def clock_provider(now):
    def p(ex, ty, idx, fty):
        if last_seg(ty) == "Clock" and idx == 4 and fty == "i64":
            return now
        raise Unsupported(f"C24: unexpected field {idx} of {ty}")
    return p


def validator(world, v):
    names = world.struct_fields(VFILE, "PriceValidator")
    by = {"clock": LazySt("Clock", clock_provider(v["now"])), "max_age": v["max_age"], "max_oracle_timestamp_range": v["range"],
          "max_future_timestamp_excess": v["excess"], "min_oracle_ts": v["min0"], "max_oracle_ts": v["max0"],
          "min_oracle_slot": opt(v["has_slot0"], v["slot0"])}
    return St("PriceValidator", [by[n] for n in names]), names


def state_view(pv, names):
    d = dict(zip(names, pv.fs))
    s = d["min_oracle_slot"]
    out = {"min_ts": d["min_oracle_ts"].t, "max_ts": d["max_oracle_ts"].t, "slot_some": s.is_("Some")}
    pl = s.pl.get("Some")
    out["slot"] = pl[0].t if pl else 0
    return out


PV_INPUTS = [("now", "i64"), ("max_age", "u64"), ("range", "u64"), ("excess", "u64"), ("min0", "i64"), ("max0", "i64"),
             ("has_slot0", "bool"), ("slot0", "u64")]
PV_RUST = ("use gmsol_store::states::oracle::validator::PriceValidator;\n"
           "            let clock = anchor_lang::prelude::Clock { slot: 0, epoch_start_timestamp: 0, epoch: 0, leader_schedule_epoch: 0, unix_timestamp: now };\n"
           "            let mut pv = PriceValidator::verif_new(clock, max_age, range, excess);\n"
           "            pv.verif_merge_range(if has_slot0 { Some(slot0) } else { None }, min0, max0);\n")
PV_PRINT = ('let (s, a, b) = pv.verif_range(); println!("min_ts={}\\nmax_ts={}\\nslot_some={}\\nslot={}", a, b, s.is_some() as u8, s.unwrap_or(0));')
# the native pre-state is built from (i64::MAX, i64::MIN, None) by one merge: every (min0, max0, slot0) is reachable that way


def merged(i, slot_flag, slot, lo, hi):
    """the state after merge_range(slot, lo, hi) from the pre-state in `i`"""
    has0, s0 = i["has_slot0"], i["slot0"]
    return dict(min_ts=Ite(lo <= i["min0"], lo, i["min0"]), max_ts=Ite(hi >= i["max0"], hi, i["max0"]),
                slot_some=Or(has0, slot_flag),
                slot=Ite(And(has0, slot_flag), Ite(s0 <= slot, s0, slot), Ite(has0, s0, slot)))


def state_is(o, m, with_slot=True):
    return And(o["min_ts"].eq(m["min_ts"]), o["max_ts"].eq(m["max_ts"]), o["slot_some"].iff(m["slot_some"]),
               m["slot_some"].implies(o["slot"].eq(m["slot"])))


def unchanged(i, o):
    return And(o["min_ts"].eq(i["min0"]), o["max_ts"].eq(i["max0"]), o["slot_some"].iff(i["has_slot0"]),
               i["has_slot0"].implies(o["slot"].eq(i["slot0"])))


def obligations(tier):
    out = []
    box = {}

    def locate(path):
        base = path_fn(path)

        def f(world):
            box["w"] = world
            return base(world)
        return f

    # ---- SmallPrices::from_price ---------------------------------------------------------------------------------
    DEC = "gmsol_utils::price::Decimal"
    fp_inputs = [("minv", "u32"), ("mind", "u8"), ("maxv", "u32"), ("maxd", "u8"), ("syn", "bool"), ("open", "bool")]

    def fp_view(ret):
        if not isinstance(ret, En) or ret.kind != "Result":
            raise Unsupported("Result expected")
        out_ = {"some": ret.is_("Ok")}
        pl = ret.pl.get("Ok")
        if pl:
            names = box["w"].struct_fields("programs/store/src/states/oracle/price_map.rs", "SmallPrices")
            d = dict(zip(names, pl[0].fs))
            out_.update({"dm": d["decimal_multiplier"].t, "min": d["min"].t, "max": d["max"].t})
        return out_
    out.append(Obl("SmallPrices::from_price", locate("SmallPrices::from_price"), fp_inputs,
                   lambda v: [Ref(St("Price", [St("Decimal", [v["minv"], v["mind"]]), St("Decimal", [v["maxv"], v["maxd"]])])), v["syn"], v["open"]],
                   fp_view,
                   f"let price = gmsol_utils::Price {{ min: {DEC} {{ value: minv, decimal_multiplier: mind }}, max: {DEC} {{ value: maxv, decimal_multiplier: maxd }} }};\n"
                   "            let r = gmsol_store::verif_hooks::small_prices_from_price(&price, syn, open);\n"
                   '            match r { Ok(p) => println!("some=1\\ndm={}\\nmin={}\\nmax={}", p.min().decimal_multiplier, p.min().value, p.max().value), Err(_) => println!("some=0") }',
                   lambda i, o: [("Ok <=> equal multipliers and 0 < min.value <= max.value", o["some"].iff(And(i["mind"].eq(i["maxd"]), i["minv"] > 0, i["maxv"] >= i["minv"]))),
                                 ("Ok(p) => p stores the same multiplier and values", o["some"].implies(And(o["dm"].eq(i["mind"]), o["min"].eq(i["minv"]), o["max"].eq(i["maxv"]))))],
                   lambda i, o: [("Ok reachable", o["some"]), ("Err reachable", Not(o["some"]))],
                   lambda i, o: [("WRONG (twin): Ok => min.value < max.value", o["some"].implies(i["minv"] < i["maxv"]))],
                   stubs=[(r"(\w+::)*OraclePriceFlagContainer::set_flag", lambda ex, m, a, v: __import__("symex").Bv("flag_prev") if False else __import__("symex").Bv(False)),
                          (r"<(\w+::)*OraclePriceFlagContainer as Default>::default", lambda ex, m, a, v: Opq("flags"))],
                   notes="the flag bitmap (is_synthetic / is_open) is opaque"))

    # ---- merge_range --------------------------------------------------------------------------------------------------
    mr_inputs = PV_INPUTS + [("has_slot", "bool"), ("slot", "u64"), ("lo", "i64"), ("hi", "i64")]
    holder = {}

    def pv_init(v):
        pv, names = validator(box["w"], v)
        holder["names"] = names
        return {"$pv": pv}
    out.append(Obl("PriceValidator::merge_range", locate("PriceValidator::merge_range"), mr_inputs,
                   lambda v: [RefMut(0, "$pv"), opt(v["has_slot"], v["slot"]), v["lo"], v["hi"]], None,
                   PV_RUST + "            pv.verif_merge_range(if has_slot { Some(slot) } else { None }, lo, hi);\n            " + PV_PRINT,
                   lambda i, o: [("post-state = (min of the slots present, min(min_ts, lo), max(max_ts, hi))",
                                  state_is(o, merged(i, i["has_slot"], i["slot"], i["lo"], i["hi"])))],
                   lambda i, o: [("range widened on both sides", And(o["min_ts"] < i["min0"], o["max_ts"] > i["max0"])),
                                 ("slot lowered", And(i["has_slot0"], o["slot"] < i["slot0"]))],
                   lambda i, o: [("WRONG (twin): max_ts == hi", o["max_ts"].eq(i["hi"]))],
                   init_locals=pv_init, view_state=lambda ret, fin: state_view(fin["$pv"], holder["names"])))

    # ---- finish ---------------------------------------------------------------------------------------------------
    def fin_view(ret):
        if not isinstance(ret, En) or ret.kind != "Result":
            raise Unsupported("Result expected")
        o_ = {"some": ret.is_("Ok")}
        pl = ret.pl.get("Ok")
        if pl:
            op = pl[0]
            o_["has"] = op.is_("Some")
            t = op.pl.get("Some")
            if t:
                o_.update({"slot": t[0].fs[0].t, "min_ts": t[0].fs[1].t, "max_ts": t[0].fs[2].t})
        return o_
    out.append(Obl("PriceValidator::finish", locate("PriceValidator::finish"), PV_INPUTS,
                   lambda v: [validator(box["w"], v)[0]], fin_view,
                   PV_RUST + '            match pv.verif_finish() { Ok(Some((s, a, b))) => println!("some=1\\nhas=1\\nslot={}\\nmin_ts={}\\nmax_ts={}", s, a, b), '
                   'Ok(None) => println!("some=1\\nhas=0"), Err(_) => println!("some=0") }',
                   lambda i, o: [("Ok <=> 0 <= max_ts - min_ts <= max_oracle_timestamp_range (and the difference fits i64)",
                                  o["some"].iff(And(i["max0"] - i["min0"] >= 0, i["max0"] - i["min0"] <= I64MAX, i["max0"] - i["min0"] <= i["range"]))),
                                 ("Ok(v) => v == min_oracle_slot.map(|s| (s, min_ts, max_ts))",
                                  o["some"].implies(And(o["has"].iff(i["has_slot0"]),
                                                        o["has"].implies(And(o["slot"].eq(i["slot0"]), o["min_ts"].eq(i["min0"]), o["max_ts"].eq(i["max0"]))))))],
                   lambda i, o: [("Ok(Some)", And(o["some"], o["has"], i["max0"] > i["min0"])), ("Ok(None)", And(o["some"], Not(o["has"]))),
                                 ("Err: range exceeded", And(Not(o["some"]), i["max0"] > i["min0"])), ("Err: nothing validated yet", And(Not(o["some"]), i["max0"] < i["min0"]))],
                   lambda i, o: [("WRONG (twin): Ok => max_ts - min_ts < range", o["some"].implies(i["max0"] - i["min0"] < i["range"]))]))
    return out
