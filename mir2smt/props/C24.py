"""C24 - oracle validation (programs/store/src/states/oracle/validator.rs `PriceValidator::{validate_one,
merge_range, finish}`, price_map.rs `SmallPrices::from_price`), full i64/u64/u128 width on the MIR of the
real functions (gmsol-model / gmsol-utils callees inlined from their MIR).

validate_one: the per-feed accessors of TokenConfig are abstract (both fail, or return an arbitrary
u32 timestamp adjustment and an arbitrary u32 deviation ratio, 0 = none; factor = ratio * 10^12 as
FeedConfig stores it).  The deviation part refers to the values the code computes (taps): reference R,
deviation D = floor(R*factor/10^20), rounded deviation c*10^m_max with c = ceil(D / 10^m_max).
"""
from obl import Obl, path_fn, view_result, view_plain, flat
from symex import Ref, RefMut, St, En, Opq, LazySt, I, Tup, UNIT as UNITV, last_seg
from mirparse import Unsupported
from terms import E, And, Or, Not, Ite, Abs, t_ite

CRATE = "store"
CVC5_STRICT = False     # cvc5 1.0.3 does not finish several of the symbolic-divisor queries; counted and stated in the evidence
UNIT = 10 ** 20
RM = 10 ** 12
UMAX = 2 ** 128 - 1
U32MAX = 2 ** 32 - 1
I64MAX, I64MIN = 2 ** 63 - 1, -2 ** 63
MAXM = 20
VFILE = "programs/store/src/states/oracle/validator.rs"
BOUNDS = ["E2/C24: every i64 timestamp / clock value, every u64 max-age / range / future-excess setting and slot, every u32 timestamp adjustment and deviation ratio, "
          "every u32 price value, reference multiplier <= 20; validate_one: one obligation set per (min, max) multiplier pair - quick: the 21 equal pairs plus (3,10), (12,4); thorough: all 441; "
          "one call of each function from an arbitrary accumulated range state (histories follow: the post-state is again such a state)"]
ASSUMPTIONS = ["E2/C24: TokenConfig::timestamp_adjustment / max_deviation_factor are abstract accessors (both Err, or Ok(adj) / Ok(None | Some(ratio*10^12)))",
               "E2/C24: decimal multipliers <= 20; anchor error construction, msg! and the OraclePriceFlag bitmap are opaque",
               "E2/C24: provider / feed identity, Oracle::with_prices_opts clearing and the clock sysvar are not encoded"]


def Pow10(e, maxe=21):
    e = E(e)
    r = E(10 ** maxe)
    for k in range(maxe - 1, -1, -1):
        r = Ite(e.eq(k), 10 ** k, r)
    return r


def opt(flag, v):
    return En("Option", t_ite(flag.t, 1, 0), {"Some": (v,)})


def clock_provider(now):
    def p(ex, ty, idx, fty):
        if last_seg(ty) == "Clock" and idx == 4 and fty == "i64":
            return now
        raise Unsupported(f"C24: unexpected field {idx} of {ty}")
    return p


def validator(world, v):
    names = world.struct_fields(VFILE, "PriceValidator")
    by = {"clock": LazySt("Clock", clock_provider(v["now"])), "max_age": v["max_age"], "max_oracle_timestamp_range": v["range"],
          "max_future_timestamp_excess": v["excess"], "min_oracle_ts": v["min0"], "max_oracle_ts": v["max0"],
          "min_oracle_slot": opt(v["has_slot0"], v["slot0"])}
    return St("PriceValidator", [by[n] for n in names]), names


def state_view(pv, names):
    d = dict(zip(names, pv.fs))
    s = d["min_oracle_slot"]
    out = {"min_ts": d["min_oracle_ts"].t, "max_ts": d["max_oracle_ts"].t, "slot_some": s.is_("Some")}
    pl = s.pl.get("Some")
    out["slot"] = t_ite(s.is_("Some"), pl[0].t, 0) if pl else 0      # the native side prints unwrap_or(0)
    return out


PV_INPUTS = [("now", "i64"), ("max_age", "u64"), ("range", "u64"), ("excess", "u64"), ("min0", "i64"), ("max0", "i64"),
             ("has_slot0", "bool"), ("slot0", "u64")]
PV_RUST = ("use gmsol_store::states::oracle::validator::PriceValidator;\n"
           "            let clock = anchor_lang::prelude::Clock { slot: 0, epoch_start_timestamp: 0, epoch: 0, leader_schedule_epoch: 0, unix_timestamp: now };\n"
           "            let mut pv = PriceValidator::verif_new(clock, max_age, range, excess);\n"
           "            pv.verif_merge_range(if has_slot0 { Some(slot0) } else { None }, min0, max0);\n")
PV_PRINT = ('let (s, a, b) = pv.verif_range(); println!("min_ts={}\\nmax_ts={}\\nslot_some={}\\nslot={}", a, b, s.is_some() as u8, s.unwrap_or(0));')
# the native pre-state is built from (i64::MAX, i64::MIN, None) by one merge: every (min0, max0, slot0) is reachable that way


def merged(i, slot_flag, slot, lo, hi):
    """the state after merge_range(slot, lo, hi) from the pre-state in `i`"""
    has0, s0 = i["has_slot0"], i["slot0"]
    return dict(min_ts=Ite(lo <= i["min0"], lo, i["min0"]), max_ts=Ite(hi >= i["max0"], hi, i["max0"]),
                slot_some=Or(has0, slot_flag),
                slot=Ite(And(has0, slot_flag), Ite(s0 <= slot, s0, slot), Ite(has0, s0, slot)))


def state_is(o, m, with_slot=True):
    return And(o["min_ts"].eq(m["min_ts"]), o["max_ts"].eq(m["max_ts"]), o["slot_some"].iff(m["slot_some"]),
               m["slot_some"].implies(o["slot"].eq(m["slot"])))


def unchanged(i, o):
    return And(o["min_ts"].eq(i["min0"]), o["max_ts"].eq(i["max0"]), o["slot_some"].iff(i["has_slot0"]),
               i["has_slot0"].implies(o["slot"].eq(i["slot0"])))


def obligations(tier):
    out = []
    box = {}

    def locate(path):
        base = path_fn(path)

        def f(world):
            box["w"] = world
            return base(world)
        return f

    # ---- SmallPrices::from_price ---------------------------------------------------------------------------------
    DEC = "gmsol_utils::price::Decimal"
    fp_inputs = [("minv", "u32"), ("mind", "u8"), ("maxv", "u32"), ("maxd", "u8"), ("syn", "bool"), ("open", "bool")]

    def fp_view(ret):
        if not isinstance(ret, En) or ret.kind != "Result":
            raise Unsupported("Result expected")
        out_ = {"some": ret.is_("Ok")}
        pl = ret.pl.get("Ok")
        if pl:
            names = box["w"].struct_fields("programs/store/src/states/oracle/price_map.rs", "SmallPrices")
            d = dict(zip(names, pl[0].fs))
            out_.update({"dm": d["decimal_multiplier"].t, "min": d["min"].t, "max": d["max"].t})
        return out_
    out.append(Obl("SmallPrices::from_price", locate("SmallPrices::from_price"), fp_inputs,
                   lambda v: [Ref(St("Price", [St("Decimal", [v["minv"], v["mind"]]), St("Decimal", [v["maxv"], v["maxd"]])])), v["syn"], v["open"]],
                   fp_view,
                   f"let price = gmsol_utils::Price {{ min: {DEC} {{ value: minv, decimal_multiplier: mind }}, max: {DEC} {{ value: maxv, decimal_multiplier: maxd }} }};\n"
                   "            let r = gmsol_store::verif_hooks::small_prices_from_price(&price, syn, open);\n"
                   '            match r { Ok(p) => println!("some=1\\ndm={}\\nmin={}\\nmax={}", p.min().decimal_multiplier, p.min().value, p.max().value), Err(_) => println!("some=0") }',
                   lambda i, o: [("Ok <=> equal multipliers and 0 < min.value <= max.value", o["some"].iff(And(i["mind"].eq(i["maxd"]), i["minv"] > 0, i["maxv"] >= i["minv"]))),
                                 ("Ok(p) => p stores the same multiplier and values", o["some"].implies(And(o["dm"].eq(i["mind"]), o["min"].eq(i["minv"]), o["max"].eq(i["maxv"]))))],
                   lambda i, o: [("Ok reachable", o["some"]), ("Err reachable", Not(o["some"]))],
                   lambda i, o: [("WRONG (twin): Ok => min.value < max.value", o["some"].implies(i["minv"] < i["maxv"]))],
                   stubs=[(r"(\w+::)*OraclePriceFlagContainer::set_flag", lambda ex, m, a, v: __import__("symex").Bv("flag_prev") if False else __import__("symex").Bv(False)),
                          (r"<(\w+::)*OraclePriceFlagContainer as Default>::default", lambda ex, m, a, v: Opq("flags"))],
                   notes="the flag bitmap (is_synthetic / is_open) is opaque"))

    # ---- merge_range --------------------------------------------------------------------------------------------------
    mr_inputs = PV_INPUTS + [("has_slot", "bool"), ("slot", "u64"), ("lo", "i64"), ("hi", "i64")]
    holder = {}

    def pv_init(v):
        pv, names = validator(box["w"], v)
        holder["names"] = names
        return {"$pv": pv}
    out.append(Obl("PriceValidator::merge_range", locate("PriceValidator::merge_range"), mr_inputs,
                   lambda v: [RefMut(0, "$pv"), opt(v["has_slot"], v["slot"]), v["lo"], v["hi"]], None,
                   PV_RUST + "            pv.verif_merge_range(if has_slot { Some(slot) } else { None }, lo, hi);\n            " + PV_PRINT,
                   lambda i, o: [("post-state = (min of the slots present, min(min_ts, lo), max(max_ts, hi))",
                                  state_is(o, merged(i, i["has_slot"], i["slot"], i["lo"], i["hi"])))],
                   lambda i, o: [("range widened on both sides", And(o["min_ts"] < i["min0"], o["max_ts"] > i["max0"])),
                                 ("slot lowered", And(i["has_slot0"], o["slot"] < i["slot0"]))],
                   lambda i, o: [("WRONG (twin): max_ts == hi", o["max_ts"].eq(i["hi"]))],
                   init_locals=pv_init, view_state=lambda ret, fin: state_view(fin["$pv"], holder["names"])))

    # ---- finish ---------------------------------------------------------------------------------------------------
    def fin_view(ret):
        if not isinstance(ret, En) or ret.kind != "Result":
            raise Unsupported("Result expected")
        o_ = {"some": ret.is_("Ok")}
        pl = ret.pl.get("Ok")
        if pl:
            op = pl[0]
            o_["has"] = op.is_("Some")
            t = op.pl.get("Some")
            if t:
                o_.update({"slot": t[0].fs[0].t, "min_ts": t[0].fs[1].t, "max_ts": t[0].fs[2].t})
        return o_
    out.append(Obl("PriceValidator::finish", locate("PriceValidator::finish"), PV_INPUTS,
                   lambda v: [validator(box["w"], v)[0]], fin_view,
                   PV_RUST + '            match pv.verif_finish() { Ok(Some((s, a, b))) => println!("some=1\\nhas=1\\nslot={}\\nmin_ts={}\\nmax_ts={}", s, a, b), '
                   'Ok(None) => println!("some=1\\nhas=0"), Err(_) => println!("some=0") }',
                   lambda i, o: [("Ok <=> 0 <= max_ts - min_ts <= max_oracle_timestamp_range (and the difference fits i64)",
                                  o["some"].iff(And(i["max0"] - i["min0"] >= 0, i["max0"] - i["min0"] <= I64MAX, i["max0"] - i["min0"] <= i["range"]))),
                                 ("Ok(v) => v == min_oracle_slot.map(|s| (s, min_ts, max_ts))",
                                  o["some"].implies(And(o["has"].iff(i["has_slot0"]),
                                                        o["has"].implies(And(o["slot"].eq(i["slot0"]), o["min_ts"].eq(i["min0"]), o["max_ts"].eq(i["max0"]))))))],
                   lambda i, o: [("Ok(Some)", And(o["some"], o["has"], i["max0"] > i["min0"])), ("Ok(None)", And(o["some"], Not(o["has"]))),
                                 ("Err: range exceeded", And(Not(o["some"]), i["max0"] > i["min0"])), ("Err: nothing validated yet", And(Not(o["some"]), i["max0"] < i["min0"]))],
                   lambda i, o: [("WRONG (twin): Ok => max_ts - min_ts < range", o["some"].implies(i["max0"] - i["min0"] < i["range"]))]))

    # ---- validate_one -------------------------------------------------------------------------------------------------
    vo_inputs = PV_INPUTS + [("cfg_ok", "bool"), ("adj", "u32"), ("ratio", "u32"), ("ots", "i64"), ("oslot", "u64"),
                             ("minv", "u32"), ("mind", "u8"), ("maxv", "u32"), ("maxd", "u8"), ("has_ref", "bool"), ("refv", "u32"), ("refd", "u8")]

    def vo_args(v):
        dec = lambda a, b: St("Decimal", [v[a], v[b]])
        price = St("Price", [dec("minv", "mind"), dec("maxv", "maxd")])
        return [RefMut(0, "$pv"), Ref(Opq("TokenConfig")), Ref(Opq("PriceProviderKind")), v["ots"], v["oslot"], Ref(price),
                En("Option", t_ite(v["has_ref"].t, 1, 0), {"Some": (Ref(dec("refv", "refd")),)})]

    def res(ok, val):
        return En("Result", t_ite(ok.t, 0, 1), {"Ok": (val,), "Err": (Opq("TokenConfigError"),)})
    stubs = [(r"gmsol_utils::token_config::TokenConfig::timestamp_adjustment", lambda ex, m, a, v: res(v["cfg_ok"], v["adj"])),
             (r"gmsol_utils::token_config::TokenConfig::max_deviation_factor",
              lambda ex, m, a, v: res(v["cfg_ok"], En("Option", t_ite(E(v["ratio"].t).eq(0).t, 0, 1),
                                                     {"Some": (I(E(v["ratio"].t * 1).t if False else (E(v["ratio"].t) * RM).t, "u128"),)})))]
    vo_rust = (PV_RUST +
               "            let mut tc: gmsol_utils::token_config::TokenConfig = bytemuck::Zeroable::zeroed();\n"
               "            let kind = gmsol_utils::oracle::PriceProviderKind::Pyth;\n"
               "            if cfg_ok {\n"
               "                let fc = gmsol_utils::token_config::FeedConfig::new(anchor_lang::prelude::Pubkey::new_from_array([7u8; 32])).with_timestamp_adjustment(adj)\n"
               "                    .with_max_deviation_factor(if ratio == 0 { None } else { Some(ratio as u128 * 1_000_000_000_000u128) }).expect(\"factor\");\n"
               "                tc.set_feed_config(&kind, fc).expect(\"set feed\");\n"
               "            }\n"
               f"            let price = gmsol_utils::Price {{ min: {DEC} {{ value: minv, decimal_multiplier: mind }}, max: {DEC} {{ value: maxv, decimal_multiplier: maxd }} }};\n"
               f"            let rp = {DEC} {{ value: refv, decimal_multiplier: refd }};\n"
               "            let r = pv.verif_validate_one(&tc, &kind, ots, oslot, &price, if has_ref { Some(&rp) } else { None });\n"
               "            println!(\"some={}\", r.is_ok() as u8);\n            " + PV_PRINT)

    def tap_dev(args, result):
        r = args[0]
        while hasattr(r, "v"):
            r = r.v
        return {"R": r.t, "D": result.pl["Some"][0].t, "D_some": result.is_("Some")}

    def tap_round(args, result):
        pl = result.pl.get("Some")
        return {"c": pl[0].fs[0].t, "c_some": result.is_("Some")}

    def derive(inp):
        umin, umax = inp["minv"] * 10 ** inp["mind"], inp["maxv"] * 10 ** inp["maxd"]
        R = inp["refv"] * 10 ** inp["refd"] if inp["has_ref"] else (umin + umax) // 2
        D = R * inp["ratio"] * RM // UNIT
        m = 10 ** inp["maxd"]
        c = -((-D) // m)
        return {"R": R, "D": D, "D_some": D <= UMAX, "c": c, "c_some": c <= U32MAX}

    L_DEV = "Ok, deviation configured => |p.max - R| <= D and |p.min - R| <= D (the configured deviation itself)"

    def vo_spec(i, o):
        mmin, mmax = Pow10(i["mind"]), Pow10(i["maxd"])
        umin, umax = i["minv"] * mmin, i["maxv"] * mmax
        R, D, c = o["R"], o["D"], o["c"]
        f = i["ratio"] * RM
        ts = i["ots"] - i["adj"]
        exp = ts + i["max_age"]
        fut = Ite(i["now"] + i["excess"] > I64MAX, I64MAX, i["now"] + i["excess"])
        time_ok = And(ts >= I64MIN, exp <= I64MAX, exp >= i["now"], fut >= i["ots"])
        has_dev = i["ratio"].ne(0)
        dmax, dmin = Abs(umax - R), Abs(umin - R)
        Dr = c * mmax
        dev_ok = Or(Not(has_dev), And(o["D_some"], Or(D.eq(0), And(o["c_some"], Dr >= dmax, Dr >= dmin))))
        return [("LEMMA: R is the explicit reference's unit price, else floor((umin + umax) / 2) (when a deviation is configured)",
                 And(i["cfg_ok"], time_ok, has_dev).implies(Ite(i["has_ref"], R.eq(i["refv"] * Pow10(i["refd"])), And(2 * R <= umin + umax, umin + umax <= 2 * R + 1)))),
                ("LEMMA: D == floor(R * ratio * 10^12 / 10^20) (Err iff it exceeds u128)",
                 And(i["cfg_ok"], time_ok, has_dev).implies(And(D * UNIT <= R * f, R * f < (D + 1) * UNIT, D >= 0, o["D_some"].iff(D <= UMAX)))),
                ("LEMMA: the deviation is rounded up to the grid of p.max: c == ceil(D / 10^m_max) (Err iff c exceeds u32)",
                 And(i["cfg_ok"], time_ok, has_dev, o["D_some"], D > 0).implies(And((c - 1) * mmax < D, D <= c * mmax, o["c_some"].iff(c <= U32MAX)))),
                ("Ok <=> accessors Ok, oracle_ts - adj + max_age >= now (no i64 overflow), min(now + excess, i64::MAX) >= oracle_ts, and the deviation check "
                 "(none configured, or D == 0 [skipped], or both |p - R| <= c*10^m_max)", o["some"].iff(And(i["cfg_ok"], time_ok, dev_ok))),
                ("Ok => the price is not older than max_age after the adjustment and not further than the excess in the future (exact integers)",
                 o["some"].implies(And(i["ots"] - i["adj"] + i["max_age"] >= i["now"], i["now"] + i["excess"] >= i["ots"]))),
                (L_DEV, And(o["some"], has_dev).implies(And(dmax <= D, dmin <= D))),
                ("Ok, deviation configured, D > 0 => both sides within D rounded up to the grid of p.max, i.e. less than one grid step above D",
                 And(o["some"], has_dev, D > 0).implies(And(dmax < D + mmax, dmin < D + mmax))),
                ("Ok => range state merged with (oracle_slot, ts, ts), ts = oracle_ts - adj", o["some"].implies(state_is(o, merged(i, E(True), i["oslot"], ts, ts)))),
                ("Err => range state unchanged", Not(o["some"]).implies(unchanged(i, o)))]

    def k_dev(i, o):
        """finding region: the deviation is zero (check skipped) or not a multiple of the grid step of p.max (rounded up)"""
        return Or(o["D"].eq(0), (o["c"] * Pow10(i["maxd"])).ne(o["D"]))
    extra = ((3, 10), (12, 4))
    vos = []
    for mind in range(MAXM + 1):
        for maxd in range(MAXM + 1):
            if tier == "quick" and mind != maxd and (mind, maxd) not in extra:
                continue
            witness = (mind, maxd) in ((8, 8), (0, 0), (20, 20)) + extra
            cov = None          # vacuity witnesses are taken on the witness pairs
            covw = (lambda i, o: [("Ok with deviation check", And(o["some"], i["ratio"] > 0, o["D"] > 0)), ("Ok without reference, widening the range", And(o["some"], Not(i["has_ref"]), o["min_ts"] < i["min0"])),
                                  ("Err: too old", And(Not(o["some"]), i["cfg_ok"], i["ots"] < i["now"], i["ratio"].eq(0))),
                                  ("Err: deviation exceeded", And(Not(o["some"]), i["cfg_ok"], i["ratio"] > 0, o["D"] > 0, i["ots"].eq(i["now"]), i["adj"].eq(0))),
                                  ("Err: accessor failed", Not(i["cfg_ok"]))])
            vos.append(Obl(f"PriceValidator::validate_one [m_min={mind}, m_max={maxd}]", locate("PriceValidator::validate_one"), vo_inputs, vo_args, None, vo_rust,
                           vo_spec, covw if witness else cov,
                           (lambda i, o: [("WRONG (twin): Ok => oracle_ts - adj + max_age > now (strict)", o["some"].implies(i["ots"] - i["adj"] + i["max_age"] > i["now"]))]) if witness else None,
                           assume=lambda i: And(i["refd"] <= MAXM), fixed={"mind": mind, "maxd": maxd}, key="validate_one",
                           stubs=stubs, init_locals=pv_init,
                           view_state=lambda ret, fin: dict(state_view(fin["$pv"], holder["names"]), some=ret.is_("Ok")),
                           taps={"dev": (r"apply_factor::<u128, 20>", tap_dev), "round": (r"gmsol_utils::price::Decimal::with_unit_price", tap_round)},
                           derive=derive, findings={L_DEV: ("c24_deviation_rounded_up_to_grid_or_skipped_at_zero", k_dev,
                                                        lambda i, o: And(i["minv"] > 0, i["minv"] <= i["maxv"], i["now"] >= 0, i["ots"] >= 0, i["min0"] <= i["max0"], o["D"] > 0))}))
    vos.sort(key=lambda o_: (o_.fixed != {"mind": 8, "maxd": 8}))
    return out + vos
