"""C37 - GT bank proportional reserve / claim arithmetic (programs/treasury).

* `GtBank::reserve_balances`: the MIR of the real function is executed for a bank holding ONE token
  balance: the fixed-map iterator (`TokenBalances::entries_mut`, a loop over map entries) is abstract and
  yields exactly one entry whose amount is arbitrary; the loop is unrolled once and a second entry is
  excluded by the iterator stub (so `loop bound exceeded` is unreachable).  The arithmetic on the entry
  (u128::from, <u128 as MulDiv>::checked_mul_div from gmsol-model's MIR, try_into, the >= check, the write
  back) is the real code.
* the claim formula of `CompleteGtExchange::execute` (`balance.checked_mul_div(&gt_amount, &total_gt_amount)`
  on u64 under `total >= gt_amount`) sits inside an account/CPI loop outside the subset: only the kernel
  `<u64 as MulDiv>::checked_mul_div` is executed, composed with the precondition the code checks before it.
"""
from obl import Obl, path_fn, trait_fn, view_option
from symex import Ref, RefMut, St, Tup, En, Opq, I
from mirparse import Unsupported
from terms import E, And, Or, Not, Ite

CRATE = "treasury"
U64MAX = 2 ** 64 - 1
BANK = "programs/treasury/src/states/gt_bank.rs"
BOUNDS = ["E2/C37: every u64 balance, every u128 numerator / denominator (reserve, one balance in the bank); every u64 balance / gt_amount / total with gt_amount <= total (claim kernel)"]
ASSUMPTIONS = ["E2/C37: the bank's fixed-map iterator is abstract and yields one entry (one token balance); with several balances the same body runs once per entry (the method is documented as not atomic)",
               "E2/C37: CompleteGtExchange::execute (token CPIs, account loop) is not encoded: only its claim formula <u64 as MulDiv>::checked_mul_div under the checked precondition total >= gt_amount"]


def obligations(tier):
    import run as e2
    world = e2.static_world("treasury")
    out = []
    state = {}

    def init(v):
        bn = world.struct_fields(BANK, "GtBank")
        tn = world.struct_fields(BANK, "TokenBalance")
        state["calls"] = 0
        state["tn"], state["bn"] = tn, bn
        return {"$bank": St("GtBank", [Opq("GtBank." + n) for n in bn]),
                "$bal": St("TokenBalance", [v["b"] if n == "amount" else Opq("TokenBalance." + n) for n in tn])}

    def next_stub(ex, m, a, v):
        state["calls"] += 1
        if state["calls"] == 1:
            return En("Option", 1, {"Some": (Tup([Ref(Opq("token key")), RefMut(0, "$bal")]),)})
        return En("Option", 0, {})
    rust = ("use gmsol_treasury::{states::GtBank, verif_hooks as vh};\n"
            "            let mut bank: Box<GtBank> = Box::new(bytemuck::Zeroable::zeroed());\n"
            "            let token = anchor_lang::prelude::Pubkey::new_from_array([9u8; 32]);\n"
            "            vh::record_transferred_in(&mut bank, &token, b).expect(\"record balance\");\n"
            "            let r = vh::reserve_balances(&mut bank, &n, &d);\n"
            "            println!(\"some={}\\nbal={}\", r.is_ok() as u8, bank.get_balance(&token).expect(\"balance\"));")

    def spec(i, o):
        b, n, d, nb = i["b"], i["n"], i["d"], o["bal"]
        return [("Ok <=> numerator <= denominator and (balance == 0 or denominator != 0)", o["some"].iff(And(n <= d, Or(b.eq(0), d > 0)))),
                ("Ok, balance > 0 => new balance == floor(balance * numerator / denominator) <= old balance",
                 And(o["some"], b > 0).implies(And(nb * d <= b * n, b * n < (nb + 1) * d, nb <= b, nb >= 0))),
                ("Ok, balance == 0 => unchanged", And(o["some"], b.eq(0)).implies(nb.eq(0))),
                ("Err => balance unchanged", Not(o["some"]).implies(nb.eq(b)))]
    out.append(Obl("GtBank::reserve_balances [one token balance]", path_fn("GtBank::reserve_balances"),
                   [("b", "u64"), ("n", "u128"), ("d", "u128")],
                   lambda v: [RefMut(0, "$bank"), Ref(v["n"]), Ref(v["d"])], None, rust, spec,
                   lambda i, o: [("reserved strictly less", And(o["some"], o["bal"] < i["b"], o["bal"] > 0)), ("everything reserved", And(o["some"], i["b"] > 0, o["bal"].eq(i["b"]))),
                                 ("Err: numerator > denominator", And(Not(o["some"]), i["n"] > i["d"])), ("Err: zero denominator", And(Not(o["some"]), i["d"].eq(0), i["n"].eq(0)))],
                   lambda i, o: [("WRONG (twin): Ok, balance > 0 => new balance == ceil(balance * numerator / denominator)",
                                  And(o["some"], i["b"] > 0).implies(And((o["bal"] - 1) * i["d"] < i["b"] * i["n"], i["b"] * i["n"] <= o["bal"] * i["d"])))],
                   unroll=1, init_locals=init,
                   view_state=lambda ret, fin: {"some": ret.is_("Ok"), "bal": fin["$bal"].fs[state["tn"].index("amount")].t},
                   stubs=[(r"TokenBalances::entries_mut", lambda ex, m, a, v: Opq("entries_mut iterator")),
                          (r"<Map<.*> as IntoIterator>::into_iter", lambda ex, m, a, v: a[0]),
                          (r"<Map<.*> as Iterator>::next", next_stub)]))

    out.append(Obl("claim formula of CompleteGtExchange::execute: <u64 as MulDiv>::checked_mul_div(balance, gt_amount, total) with gt_amount <= total",
                   trait_fn("u64", "MulDiv", "checked_mul_div"), [("bal", "u64"), ("gt", "u64"), ("total", "u64")],
                   lambda v: [Ref(v["bal"]), Ref(v["gt"]), Ref(v["total"])], view_option,
                   'let r = gmsol_model::num::MulDiv::checked_mul_div(&bal, &gt, &total); match r { Some(v) => println!("some=1\\nv={}", v), None => println!("some=0") }',
                   lambda i, o: [("Some(amount) => amount == floor(balance * gt_amount / total) <= balance", o["some"].implies(And(o["v"] * i["total"] <= i["bal"] * i["gt"], i["bal"] * i["gt"] < (o["v"] + 1) * i["total"], o["v"] <= i["bal"], o["v"] >= 0))),
                                 ("None <=> total == 0 (never an overflow when gt_amount <= total)", Not(o["some"]).iff(i["total"].eq(0)))],
                   lambda i, o: [("partial claim", And(o["some"], o["v"] < i["bal"], o["v"] > 0)), ("full claim", And(o["some"], i["gt"].eq(i["total"]), o["v"].eq(i["bal"]), i["bal"] > 0))],
                   None, assume=lambda i: i["gt"] <= i["total"]))
    return out
