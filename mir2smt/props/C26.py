"""C26 - price decimal conversion never rounds up and never silently truncates (crates/utils:
price/decimal.rs, price/mod.rs), decided on the MIR of the real code for every u128 price.

The exact meaning of the conversion: a provider price `p` with `d` decimals, for a token with `td`
decimals and a configured precision `prec`, has the unit price (20 decimals) p * 10^(20 - d - td); the
compact decimal stores value * 10^dm with dm = 20 - td - prec, hence
        value = floor(p * 10^prec / 10^d)            (the price truncated to `prec` decimals)
which is the specification below, written without division:  value*10^d <= p*10^prec < (value+1)*10^d.
"""
from obl import Obl, path_fn, view_option, view_result, view_plain
from symex import Ref, St
from terms import E, And, Or, Not, Ite, Abs

CRATE = "utils"
U32MAX = 2 ** 32 - 1
U128MAX = 2 ** 128 - 1
MAXD = 20

BOUNDS = ["E2/C26: every u128 price; try_from_price: one obligation set per valid (decimals, token_decimals, precision) triple "
          "(all 4851 triples with token_decimals + precision <= 20 and decimals <= 20; quick tier: every triple, clauses merged into one query per triple), "
          "plus one symbolic obligation over all u8 triples outside the limits (must be Err); "
          "to_unit_price / with_unit_price: every u32 value, every decimal_multiplier <= 20 (the type's documented invariant), every u128 price; "
          "find_divisor_decimals / convert_to_u128_storage: every U192 number and every u8 decimals"]
ASSUMPTIONS = ["E2/C26: Decimal values passed to to_unit_price / with_unit_price satisfy decimal_multiplier <= MAX_DECIMAL_MULTIPLIER (20), "
               "the invariant documented on the constant and established by try_from_price (proved here: Ok(d) => d.decimal_multiplier = 20 - td - prec <= 20)",
               "E2/C26: DecimalError payloads are opaque (Ok/Err and the Ok value are decided)"]

DEC = "gmsol_utils::price::Decimal"
P_DEC_RES = 'match r { Ok(d) => println!("some=1\\nv0={}\\nv1={}", d.value, d.decimal_multiplier), Err(_) => println!("some=0") }'
P_DEC_OPT = 'match r { Some(d) => println!("some=1\\nv0={}\\nv1={}", d.value, d.decimal_multiplier), None => println!("some=0") }'


def Pow10(e, maxe=40):
    """10^e for a (possibly symbolic) exponent in 0..maxe."""
    e = E(e)
    r = E(10 ** maxe)
    for k in range(maxe - 1, -1, -1):
        r = Ite(e.eq(k), 10 ** k, r)
    return r


def valid(d, td, prec):
    return And(td <= MAXD, prec <= MAXD, d <= MAXD, td + prec <= MAXD)


def spec_try_from_price(i, o):
    p, d, td, prec = i["price"], i["d"], i["td"], i["prec"]
    value, dm = o["v0"], o["v1"]
    lhs = p * Pow10(prec)
    pd = Pow10(d)
    return [("Ok(dec) => limits respected, dec.decimal_multiplier == 20 - td - prec, dec.value == floor(p*10^prec / 10^d) (truncation, never up), value <= u32::MAX",
             o["some"].implies(And(valid(d, td, prec), dm.eq(MAXD - td - prec), value * pd <= lhs, lhs < (value + 1) * pd,
                                   value >= 0, value <= U32MAX))),
            ("Err => decimal settings beyond the limits or the truncated value exceeds u32::MAX",
             Not(o["some"]).implies(Or(Not(valid(d, td, prec)), lhs >= (U32MAX + 1) * pd)))]


def wrong_try_from_price(i, o):
    p, d, prec = i["price"], i["d"], i["prec"]
    return [("WRONG (twin): Ok(dec) => dec.value == ceil(p*10^prec / 10^d)",
             o["some"].implies(And((o["v0"] - 1) * Pow10(d) < p * Pow10(prec), p * Pow10(prec) <= o["v0"] * Pow10(d))))]


TFP_VECTORS = [
    ((5_000_000_000_000_000_000_000, 18, 8, 4), (50_000_000, 8)),
    ((6_000_000_000_000, 8, 8, 2), (6_000_000, 10)),
    ((1_000_000, 6, 6, 6), (1_000_000, 8)),
    ((10_000_000_000, 18, 8, 11), (1_000, 1)),
    ((500_000_000, 5, 8, 4), (50_000_000, 8)),
    ((5_000_000_000_000, 8, 8, 2), (5_000_000, 10)),
    ((5_000_000_000_000, 12, 8, 2), (500, 10)),
    ((177_347, 10, 5, 9), (17_734, 6)),
    ((296041000000, 8, 8, 4), (29604100, 8)),
    ((7695092578398765000000000, 20, 8, 2), (7695092, 10)),
    ((100000000000000000000, 20, 6, 6), (1000000, 8)),
    ((U32MAX, 0, 0, 0), (U32MAX, 20)),
]


def obligations(tier):
    out = []
    rust_tfp = f"let r = {DEC}::try_from_price(price, d, td, prec); {P_DEC_RES}"
    tfp_inputs = [("price", "u128"), ("d", "u8"), ("td", "u8"), ("prec", "u8")]
    tfp = path_fn("Decimal::try_from_price")
    vec_all = [({"price": a[0], "d": a[1], "td": a[2], "prec": a[3]}, {"some": True, "v0": b[0], "v1": b[1]}) for a, b in TFP_VECTORS]
    vec_all.append(({"price": U32MAX + 1, "d": 0, "td": 0, "prec": 0}, {"some": False}))

    # ---- decimal settings outside the limits: one symbolic obligation over all u8 triples ---------------------------
    out.append(Obl("Decimal::try_from_price [all (d, td, prec) outside the limits]", tfp, tfp_inputs,
                   lambda v: [v["price"], v["d"], v["td"], v["prec"]], view_result, rust_tfp,
                   lambda i, o: [("limits exceeded => Err", Not(o["some"]))],
                   lambda i, o: [("Err reachable", Not(o["some"]))],
                   assume=lambda i: Not(valid(i["d"], i["td"], i["prec"])), key="try_from_price"))

    # ---- all settings symbolic (one encoding for every u8 triple; powers of ten decided by table) ----------------------
    out.append(Obl("Decimal::try_from_price [symbolic price and symbolic (d, td, prec); unit-test vectors]", tfp, tfp_inputs,
                   lambda v: [v["price"], v["d"], v["td"], v["prec"]], view_result, rust_tfp,
                   lambda i, o: [], None, None, vectors=vec_all, key="try_from_price",
                   notes="the repository's test vectors pushed through the fully symbolic encoding"))

    # ---- one obligation per valid triple, symbolic u128 price ---------------------------------------------------------
    for td in range(MAXD + 1):
        for prec in range(MAXD + 1 - td):
            for d in range(MAXD + 1):
                merged = tier == "quick"
                spec = spec_try_from_price
                if merged:
                    def spec(i, o, f=spec_try_from_price):
                        cl = f(i, o)
                        return [("; ".join(lab for lab, _ in cl), And(*[c for _, c in cl]))]
                witness = (d, td, prec) in ((18, 8, 4), (5, 8, 4), (20, 0, 0), (8, 20, 0), (7, 0, 20), (20, 20, 0), (12, 8, 2))
                out.append(Obl(f"Decimal::try_from_price [d={d}, td={td}, prec={prec}]", tfp, tfp_inputs,
                               lambda v: [v["price"], v["d"], v["td"], v["prec"]], view_result, rust_tfp, spec,
                               (lambda i, o: [("Ok reachable", o["some"]), ("Err reachable", Not(o["some"]))]) if (witness or not merged) else None,
                               wrong_try_from_price if (witness and d > prec) else None,
                               fixed={"d": d, "td": td, "prec": prec}, key="try_from_price"))

    # ---- to_unit_price / with_unit_price ---------------------------------------------------------------------------------
    dec_arg = lambda v: Ref(St("Decimal", [v["value"], v["dm"]]))
    out.append(Obl("Decimal::to_unit_price", path_fn("Decimal::to_unit_price"), [("value", "u32"), ("dm", "u8")],
                   lambda v: [dec_arg(v)], view_plain,
                   f"let r = {DEC} {{ value, decimal_multiplier: dm }}.to_unit_price(); println!(\"v={{}}\", r);",
                   lambda i, o: [("unit price == value * 10^decimal_multiplier (fits u128)",
                                  And(o["v"].eq(i["value"] * Pow10(i["dm"])), o["v"] <= U128MAX))],
                   lambda i, o: [("largest value at dm = 20", And(i["dm"].eq(20), i["value"].eq(U32MAX)))],
                   lambda i, o: [("WRONG (twin): unit price == value * 10^(dm+1)", o["v"].eq(i["value"] * Pow10(i["dm"] + 1)))],
                   vectors=[({"value": 50_000_000, "dm": 8}, {"v": 5_000_000_000_000_000}),
                            ({"value": 17_734, "dm": 6}, {"v": 17_734_000_000})],
                   assume=lambda i: i["dm"] <= MAXD))

    def spec_wup(i, o):
        m = Pow10(i["dm"])
        p, up, v = i["price"], i["up"], o["v0"]
        return [("Some(dec) => dec.decimal_multiplier unchanged", o["some"].implies(o["v1"].eq(i["dm"]))),
                ("Some(dec), round_up => dec.value == ceil(price / 10^dm)", And(o["some"], up).implies(And((v - 1) * m < p, p <= v * m, v >= 0, v <= U32MAX))),
                ("Some(dec), !round_up => dec.value == floor(price / 10^dm)", And(o["some"], Not(up)).implies(And(v * m <= p, p < (v + 1) * m, v >= 0, v <= U32MAX))),
                ("None => the rounded value exceeds u32::MAX", Not(o["some"]).implies(Ite(up, p > U32MAX * m, p >= (U32MAX + 1) * m)))]
    out.append(Obl("Decimal::with_unit_price", path_fn("Decimal::with_unit_price"),
                   [("value", "u32"), ("dm", "u8"), ("price", "u128"), ("up", "bool")],
                   lambda v: [dec_arg(v), v["price"], v["up"]], view_option,
                   f"let r = {DEC} {{ value, decimal_multiplier: dm }}.with_unit_price(price, up); {P_DEC_OPT}",
                   spec_wup,
                   lambda i, o: [("Some, round up, inexact", And(o["some"], i["up"], i["dm"] > 0, o["v0"] * Pow10(i["dm"]) > i["price"])),
                                 ("Some, round down, inexact", And(o["some"], Not(i["up"]), o["v0"] * Pow10(i["dm"]) < i["price"])),
                                 ("None reachable", Not(o["some"]))],
                   lambda i, o: [("WRONG (twin): Some(dec), round_up => dec.value == floor(price / 10^dm)",
                                  And(o["some"], i["up"]).implies(And(o["v0"] * Pow10(i["dm"]) <= i["price"], i["price"] < (o["v0"] + 1) * Pow10(i["dm"]))))],
                   assume=lambda i: i["dm"] <= MAXD))

    # ---- U192 -> u128 storage ---------------------------------------------------------------------------------------------
    U192 = "Uint<192, 3>"

    def k_is_min(num, k):
        """k = min { k in 0..=20 : num <= u128::MAX * 10^k }"""
        return And(k >= 0, k <= 20, num <= U128MAX * Pow10(k, 21), Or(k.eq(0), num > U128MAX * Pow10(k - 1, 21)))
    out.append(Obl("price::find_divisor_decimals", path_fn("price::find_divisor_decimals"), [("num", U192)],
                   lambda v: [Ref(v["num"])], view_plain,
                   "let r = gmsol_utils::price::find_divisor_decimals(&num); println!(\"v={}\", r);",
                   lambda i, o: [("k == min { k : num <= u128::MAX * 10^k } and 0 <= k <= 20", k_is_min(i["num"], o["v"])),
                                 ("num / 10^k fits u128", i["num"] < (U128MAX + 1) * Pow10(o["v"], 21))],
                   lambda i, o: [("k == 0", o["v"].eq(0)), ("k == 7", o["v"].eq(7)), ("k == 20", o["v"].eq(20))],
                   lambda i, o: [("WRONG (twin): k is minimal w.r.t. 2^128 * 10^k", Or(o["v"].eq(0), i["num"] >= (U128MAX + 1) * Pow10(o["v"] - 1, 21)))],
                   vectors=[({"num": U128MAX}, {"v": 0}), ({"num": 2 ** 192 - 1}, {"v": 20})],
                   notes="minimal with respect to the table bound u128::MAX * 10^k (pinned by the repository's test_convert_to_u128_storage), "
                         "not with respect to 2^128 * 10^k: in the band (u128::MAX*10^k, 2^128*10^k) one more digit than necessary is dropped"))

    def spec_conv(i, o):
        num, dec = i["num"], i["decimals"]
        v, nd = o["v0"], o["v1"]
        k = dec - nd
        m = Pow10(k, 21)
        return [("Some((v, nd)) => k = decimals - nd is the table-minimal divisor exponent, v == floor(num / 10^k), v fits u128",
                 o["some"].implies(And(k_is_min(num, k), nd >= 0, v * m <= num, num < (v + 1) * m, v >= 0, v <= U128MAX))),
                ("None => even 10^decimals is not enough: num > u128::MAX * 10^decimals",
                 Not(o["some"]).implies(And(dec < 20, num > U128MAX * Pow10(dec, 21))))]
    out.append(Obl("price::convert_to_u128_storage", path_fn("price::convert_to_u128_storage"), [("num", U192), ("decimals", "u8")],
                   lambda v: [v["num"], v["decimals"]], view_option,
                   'let r = gmsol_utils::price::convert_to_u128_storage(num, decimals); '
                   'match r { Some((a, b)) => println!("some=1\\nv0={}\\nv1={}", a, b), None => println!("some=0") }',
                   spec_conv,
                   lambda i, o: [("Some with k == 0", And(o["some"], o["v1"].eq(i["decimals"]))),
                                 ("Some with k == 20", And(o["some"], (i["decimals"] - o["v1"]).eq(20))),
                                 ("None reachable", Not(o["some"]))],
                   lambda i, o: [("WRONG (twin): Some((v, nd)) => v == ceil(num / 10^k)",
                                  o["some"].implies(And((o["v0"] - 1) * Pow10(i["decimals"] - o["v1"], 21) < i["num"],
                                                        i["num"] <= o["v0"] * Pow10(i["decimals"] - o["v1"], 21))))],
                   vectors=[({"num": U128MAX, "decimals": 18}, {"some": True, "v0": U128MAX, "v1": 18}),
                            ({"num": U128MAX + 1, "decimals": 18}, {"some": True, "v0": 34028236692093846346337460743176821145, "v1": 17}),
                            ({"num": 2 ** 192 - 1, "decimals": 20}, {"some": True, "v0": 62771017353866807638357894232076664161, "v1": 0}),
                            ({"num": U128MAX * 10 ** 19 - 11, "decimals": 20}, {"some": True, "v0": 340282366920938463463374607431768211454, "v1": 1}),
                            ({"num": U128MAX * 10 ** 19 + 1, "decimals": 20}, {"some": True, "v0": 34028236692093846346337460743176821145, "v1": 0}),
                            ({"num": U128MAX * 10 ** 18, "decimals": 18}, {"some": True, "v0": 340282366920938463463374607431768211455, "v1": 0})]))
    return out
