"""C38 - liquidity-provider GT rewards (programs/liquidity-provider/src/lib.rs), full width on the MIR of
the real private functions (gmsol-model's apply_factor / checked_mul_div inlined from its MIR).
"""
from obl import Obl, path_fn, view_result, view_plain
from symex import Ref, St, Tup, En, Opq, I
from mirparse import Unsupported
from terms import E, And, Or, Not, Ite

CRATE = "lp"
UNIT = 10 ** 20
UMAX = 2 ** 128 - 1
U64MAX = 2 ** 64 - 1
HOOK = "gmsol_liquidity_provider::verif_hooks"
BOUNDS = ["E2/C38: calculate_gt_reward_amount: every u128 stake value / APY-per-second / inverse-cost integral, every i64 duration; "
          "compute_time_weighted_apy: every 53-bucket gradient within the 200% cap, every non-negative start / now with at most 1701411834604692317 elapsed seconds, "
          "one obligation set per number of full weeks 0..51 and one for 52 or more (bucket loop unrolled 52 times, bound checked)"]
ASSUMPTIONS = ["E2/C38: anchor error construction and msg! formatting are opaque",
               "E2/C38: compute_time_weighted_apy: gradient entries <= 2 * 10^20 (the 200% cap of the property), start >= 0 and now = start + elapsed <= i64::MAX (unix timestamps; `now - start` is an "
               "overflow-checked i64 subtraction: with a negative start and more than i64::MAX elapsed seconds it panics), elapsed seconds <= u128::MAX / (2*10^20) (beyond it the saturating accumulator can clip)"]


def tap_factor(calls):
    d = {}
    for j in range(2):
        if j < len(calls):
            a, r, pc = calls[j]
            d[f"r{j + 1}"], d[f"ok{j + 1}"], d[f"x{j + 1}"] = r.pl["Some"][0].t, r.is_("Some"), pc
        else:
            d[f"r{j + 1}"], d[f"ok{j + 1}"], d[f"x{j + 1}"] = 0, True, False
    return d


def derive(inp):
    r1 = inp["v"] * inp["apy"] // UNIT
    r2 = r1 * inp["integral"] // UNIT
    return {"r1": r1, "ok1": r1 <= UMAX, "x1": inp["dur"] >= 0, "r2": r2, "ok2": r2 <= UMAX, "x2": inp["dur"] >= 0 and r1 <= UMAX}


def spec(i, o):
    v, apy, integ, dur = i["v"], i["apy"], i["integral"], i["dur"]
    r1, r2 = o["r1"], o["r2"]
    return [("LEMMA: per-second notional r1 == floor(stake * apy_per_sec / 10^20) (Err iff above u128)",
             o["x1"].implies(And(r1 * UNIT <= v * apy, v * apy < (r1 + 1) * UNIT, r1 >= 0, o["ok1"].iff(r1 <= UMAX)))),
            ("LEMMA: raw reward r2 == floor(r1 * integral / 10^20) (Err iff above u128)",
             o["x2"].implies(And(r2 * UNIT <= r1 * integ, r1 * integ < (r2 + 1) * UNIT, r2 >= 0, o["ok2"].iff(r2 <= UMAX)))),
            ("Ok <=> duration >= 0 and neither product exceeds u128", o["some"].iff(And(dur >= 0, o["ok1"], o["ok2"]))),
            ("Ok(amount) => amount == min(r2, u64::MAX) (saturating, never wrapping)", o["some"].implies(o["v"].eq(Ite(r2 > U64MAX, U64MAX, r2)))),
            ("Ok(amount) with zero stake or zero integral => 0", And(o["some"], Or(v.eq(0), integ.eq(0))).implies(o["v"].eq(0)))]


W = 604800
NB = 53
CAP = 2 * UNIT
TMAX = UMAX // CAP          # beyond this many seconds the saturating accumulator can clip under the 200% cap


def apy_obligations():
    """Inputs are the start time and the position inside the current week: elapsed = fw*W + rem (and, for the last case,
    + e*W extra weeks); now = start + elapsed is what the code receives.  With this shape the encoder folds the
    division / remainder by the week length and the bucket-loop trip count is concrete in every case."""
    out = []
    names = [f"a{k}" for k in range(NB)]
    al = ", ".join(names)
    I64MAX = 2 ** 63 - 1
    caps = {n: (0, CAP) for n in names}
    from terms import t_add, t_mul
    from symex import I as Int
    out.append(Obl("compute_time_weighted_apy [now <= start]", path_fn("compute_time_weighted_apy"),
                   [("start", "i64"), ("back", "i64")] + [(n, "u128") for n in names],
                   lambda v: [v["start"], Int(__import__("terms").t_sub(v["start"].t, v["back"].t), "i64"), Ref(Tup([v[n] for n in names]))], view_plain,
                   f"let g: [u128; {NB}] = [{al}];\n            let r = {HOOK}::compute_time_weighted_apy(start, start - back, &g); println!(\"v={{}}\", r);",
                   lambda i, o: [("now <= start => the first bucket's APY", o["v"].eq(i["a0"]))],
                   lambda i, o: [("reachable", i["a0"] > 0)], None,
                   assume=lambda i: i["start"] - i["back"] >= -I64MAX - 1, bounds=dict(caps, back=(0, I64MAX)), unroll=NB - 1, key="apy_back"))
    for fw in range(NB):
        last = fw == NB - 1
        inputs = [("start", "i64"), ("rem", "i64")] + ([("e", "i64")] if last else []) + [(n, "u128") for n in names]
        emax = (min(TMAX, I64MAX) - fw * W) // W - 1

        def el_term(v, fw=fw, last=last):
            t = t_add(fw * W, v["rem"].t)
            return t_add(t_mul(v["e"].t, W), t) if last else t

        def args(v, el_term=el_term):
            return [v["start"], Int(t_add(v["start"].t, el_term(v)), "i64"), Ref(Tup([v[n] for n in names]))]

        def spec(i, o, fw=fw, last=last):
            el = (i["e"] * W + (fw * W + i["rem"])) if last else (fw * W + i["rem"])
            s = E(0)
            for j in range(fw):
                s = s + i[f"a{j}"] * W
            s = s + ((i[f"a{fw}"] * (i["e"] * W) + i[f"a{fw}"] * i["rem"]) if last else i[f"a{fw}"] * i["rem"])
            r = o["v"]
            return [("result == floor(sum over every elapsed second of that second's weekly bucket / elapsed seconds) (weeks past the last bucket use the last one)",
                     And(r * el <= s, s < (r + 1) * el, r >= 0)),
                    ("result <= 200% (within the cap of the gradient)", r <= CAP)]
        witness = fw in (0, 1, 7, 51, 52)
        rust = (f"let g: [u128; {NB}] = [{al}];\n            let el: i64 = {fw * W} + rem" + (f" + e * {W}" if last else "") + ";\n"
                f"            let r = {HOOK}::compute_time_weighted_apy(start, start + el, &g); println!(\"v={{}}\", r);")
        out.append(Obl(f"compute_time_weighted_apy [{fw}{' or more' if last else ''} full weeks elapsed]", path_fn("compute_time_weighted_apy"), inputs, args, view_plain, rust, spec,
                       (lambda i, o, fw=fw: [("buckets differ", And(o["v"] > 0, (i[f"a{fw}"] > i["a0"]) if fw else (o["v"] > 1)))]) if witness else None,
                       (lambda i, o, fw=fw: [("WRONG (twin): result == the current bucket's APY", o["v"].eq(i[f"a{fw}"]))]) if (witness and fw) else None,
                       assume=(lambda i, el_term=el_term: E(t_add(i["start"].t, el_term({k: Int(x.t, "i64") for k, x in i.items()}))) <= I64MAX),
                       bounds=dict(caps, start=(0, I64MAX), rem=(1 if fw == 0 else 0, W - 1), **({"e": (0, emax)} if last else {})),
                       unroll=NB - 1))
    return out


def obligations(tier):
    return apy_obligations() + [Obl("calculate_gt_reward_amount", path_fn("calculate_gt_reward_amount"),
                [("v", "u128"), ("dur", "i64"), ("apy", "u128"), ("integral", "u128")],
                lambda x: [x["v"], x["dur"], x["apy"], x["integral"]], view_result,
                f'let r = {HOOK}::calculate_gt_reward_amount(v, dur, apy, integral); match r {{ Ok(a) => println!("some=1\\nv={{}}", a), Err(_) => println!("some=0") }}',
                spec,
                lambda i, o: [("saturated at u64::MAX", And(o["some"], o["v"].eq(U64MAX), o["r2"] > U64MAX)), ("ordinary reward", And(o["some"], o["v"] > 1, o["v"] < U64MAX)),
                              ("Err: negative duration", i["dur"] < 0), ("Err: overflow", And(Not(o["some"]), i["dur"] >= 0))],
                lambda i, o: [("WRONG (twin): Ok(amount) => amount == r2 mod 2^64 (wrapping)", o["some"].implies(Or(o["r2"] <= U64MAX, o["v"] < U64MAX)))],
                taps={"factor": (r"apply_factor::<u128, 20>", tap_factor)}, derive=derive,
                notes="monotonicity in the stake value and in the integral follows from the exact formula min(floor(floor(v*apy/1e20)*integral/1e20), u64::MAX)")]
