"""C31 - order fee discounts are valid fractions combining rank and referral (program side:
programs/store/src/states/store.rs `Store::order_fee_discount_factor`, states/gt.rs
`GtState::order_fee_discount_factor`), full u128 width on the MIR of the real code.

The store is an arbitrary state image restricted to the fields the function reads (read on demand,
any other field access is an error of the check): gt.max_rank, gt.order_fee_discount_factors[0..16],
factor.order_fee_discount_for_referred_user.
"""
from obl import Obl, path_fn, view_result
from symex import Ref, St, Tup, LazySt, last_seg
from mirparse import Unsupported
from terms import E, And, Or, Not, Ite

CRATE = "store"
UNIT = 10 ** 20
UMAX = 2 ** 128 - 1
NR = 16
BOUNDS = ["E2/C31: every rank table (16 entries, each <= 100%), every max_rank <= 15, every u8 rank, both referral states, every referred-user "
          "discount <= 100%; program side only (the SDK copy is not encoded)"]
ASSUMPTIONS = ["E2/C31: representation invariant gt.max_rank <= MAX_RANK (15), established by GtState::init (`ranks.len().min(MAX_RANK)`); "
               "without it `order_fee_discount_factors[rank]` can index out of bounds (panic)",
               "E2/C31: rank factors <= MARKET_USD_UNIT (validated by GtState::set_order_fee_discount_factors) and referred-user factor <= MARKET_USD_UNIT "
               "(the property's quantifier: factors up to 100%)",
               "E2/C31: construction of anchor Error values is total and opaque"]
FILES = {"Store": "programs/store/src/states/store.rs", "Factors": "programs/store/src/states/store.rs",
         "GtState": "programs/store/src/states/gt.rs"}


def make_store(v):
    def provider(ex, ty, idx, fty):
        t = last_seg(ty)
        if t not in FILES:
            raise Unsupported(f"C31: unexpected struct {ty}")
        name = ex.w.struct_fields(FILES[t], t)[idx]
        if (t, name) == ("Store", "factor"):
            return LazySt("Factors", provider)
        if (t, name) == ("Store", "gt"):
            return LazySt("GtState", provider)
        if (t, name) == ("Factors", "order_fee_discount_for_referred_user"):
            return v["b"]
        if (t, name) == ("GtState", "max_rank"):
            return v["max_rank"]
        if (t, name) == ("GtState", "order_fee_discount_factors"):
            return Tup([v[f"f{k}"] for k in range(NR)])
        raise Unsupported(f"C31: the function reads {t}.{name}, which the check does not provide")
    return LazySt("Store", provider)


def sel(i, rank):
    r = i[f"f{NR - 1}"]
    for k in range(NR - 2, -1, -1):
        r = Ite(rank.eq(k), i[f"f{k}"], r)
    return r


def spec(i, o):
    rank, ref, mr, b = i["rank"], i["referred"], i["max_rank"], i["b"]
    a = sel(i, rank)
    r = o["v"]
    ok = rank <= mr
    x = a * (UNIT - b)          # r = b + floor(x / UNIT)
    return [("rank > max_rank <=> Err", Not(o["some"]).iff(Not(ok))),
            ("not referred => the rank discount itself", And(o["some"], Not(ref)).implies(r.eq(a))),
            ("referred => B + floor(A*(UNIT-B)/UNIT), i.e. 1 - (1-A)(1-B) up to rounding",
             And(o["some"], ref).implies(And((r - b) * UNIT <= x, x < (r - b + 1) * UNIT))),
            ("0% <= discount <= 100%", o["some"].implies(And(r >= 0, r <= UNIT))),
            ("referred discount >= unreferred (rank) discount", And(o["some"], ref).implies(r >= a)),
            ("referred discount >= the referral discount", And(o["some"], ref).implies(r >= b))]


def obligations(tier):
    inputs = [("rank", "u8"), ("referred", "bool"), ("max_rank", "u64"), ("b", "u128")] + [(f"f{k}", "u128") for k in range(NR)]
    fl = ", ".join(f"f{k}" for k in range(NR))
    rust = ("use gmsol_store::{states::{Store, gt::GtState}, verif_hooks as vh};\n"
            "            let mut store: Box<Store> = Box::new(bytemuck::Zeroable::zeroed());\n"
            f"            let factors: [u128; {NR}] = [{fl}];\n"
            "            {\n"
            "                // the private `max_rank` of the Pod GtState is located by probing through the `ranks()` accessor hook\n"
            "                let gt = vh::gt_mut(&mut store);\n"
            "                let mut off = None;\n"
            "                let n = std::mem::size_of::<GtState>();\n"
            "                for o in (0..n - 8).step_by(8) {\n"
            "                    bytemuck::bytes_of_mut(gt)[o] = 1;\n"
            "                    let hit = std::panic::catch_unwind(std::panic::AssertUnwindSafe(|| vh::gt_ranks(gt).len() == 1)).unwrap_or(false);\n"
            "                    bytemuck::bytes_of_mut(gt)[o] = 0;\n"
            "                    if hit { off = Some(o); break; }\n"
            "                }\n"
            "                let off = off.expect(\"max_rank offset\");\n"
            "                bytemuck::bytes_of_mut(gt)[off..off + 8].copy_from_slice(&max_rank.to_le_bytes());\n"
            "                vh::gt_set_order_fee_discount_factors(gt, &factors[..=(max_rank as usize)]).expect(\"set factors\");\n"
            "            }\n"
            "            *store.verif_factor_mut(gmsol_utils::config::FactorKey::OrderFeeDiscountForReferredUser).expect(\"factor\") = b;\n"
            "            let r = store.order_fee_discount_factor(rank, referred);\n"
            "            match r { Ok(v) => println!(\"some=1\\nv={}\", v), Err(_) => println!(\"some=0\") }")

    def assume(i):
        return And(i["max_rank"] <= NR - 1, i["b"] <= UNIT, *[i[f"f{k}"] <= UNIT for k in range(NR)])
    return [Obl("Store::order_fee_discount_factor", path_fn("Store::order_fee_discount_factor"), inputs,
                lambda v: [Ref(make_store(v)), v["rank"], v["referred"]], view_result, rust, spec,
                lambda i, o: [("referred, both discounts strictly between 0 and 100%", And(o["some"], i["referred"], o["v"] > i["b"], o["v"] < UNIT, i["b"] > 0)),
                              ("rank rejected", Not(o["some"])), ("top rank accepted", And(o["some"], i["rank"].eq(NR - 1)))],
                lambda i, o: [("WRONG (twin): referred => A + B", And(o["some"], i["referred"]).implies(o["v"].eq(sel(i, i["rank"]) + i["b"])))],
                assume=assume)]
