"""C01 - fixed-point arithmetic is exact with the documented rounding (crates/model: num.rs, utils.rs,
fixed.rs), decided at full width (u64/i64 and u128/i128, no value bound) on the MIR of the real code.

Specifications are written over mathematical integers without division: for d > 0,
  r = floor(a / d)  <=>  r*d <= a < (r+1)*d          r = ceil(a / d)  <=>  (r-1)*d < a <= r*d.
Every `None`/`Err` is justified by an exact characterisation of when the code fails (zero divisor,
the exact result not fitting, or - stated per function - an intermediate value not fitting).
"""
from obl import Obl, trait_fn, path_fn, view_option, view_result, P_OPT, P_RES
from symex import Ref, St
from terms import E, And, Or, Not, Ite, Abs

CRATE = "model"
BOUNDS = ["E2/C01: no bound on values: every u64/i64 resp. u128/i128 operand (SMT Int with exact range constraints); "
          "generic helpers instantiated at Self/T = u64 and u128; DECIMALS = 9 (u64) and 20 (u128) for the UNIT-based helpers "
          "(plus DECIMALS = 19 at u64 for the repository's own apply_factor test vector)"]
ASSUMPTIONS = ["E2/C01: error payloads (crate::Error variants) are opaque: only Ok/Err and the Ok value are decided",
               "E2/C01: U256 arithmetic of ruint is modelled as exact integer arithmetic modulo 2^256 (ruint's limb algorithms are trusted)"]

W = {
    "u64": dict(U="u64", S="i64", UMAX=2 ** 64 - 1, SMAX=2 ** 63 - 1, SMIN=-2 ** 63, D=9),
    "u128": dict(U="u128", S="i128", UMAX=2 ** 128 - 1, SMAX=2 ** 127 - 1, SMIN=-2 ** 127, D=20),
}


# ---- specification building blocks -------------------------------------------------------------------------
def floor_is(r, a, d):
    return And(d > 0, r * d <= a, a < (r + 1) * d)


def ceil_is(r, a, d):
    return And(d > 0, (r - 1) * d < a, a <= r * d)


def spec_floor(a_of, d_of, MAX):
    """Some(r) => r = floor(a/d) and fits;  None => d == 0 or floor(a/d) > MAX."""
    def spec(i, o):
        a, d, r = a_of(i), d_of(i), o["v"]
        return [("Some(r) => r == floor(a/d), 0 <= r <= MAX", o["some"].implies(And(floor_is(r, a, d), r >= 0, r <= MAX))),
                ("None => d == 0 or floor(a/d) > MAX", Not(o["some"]).implies(Or(d.eq(0), a >= (MAX + 1) * d)))]
    return spec


def spec_ceil(a_of, d_of, MAX):
    def spec(i, o):
        a, d, r = a_of(i), d_of(i), o["v"]
        return [("Some(r) => r == ceil(a/d), 0 <= r <= MAX", o["some"].implies(And(ceil_is(r, a, d), r >= 0, r <= MAX))),
                ("None => d == 0 or ceil(a/d) > MAX", Not(o["some"]).implies(Or(d.eq(0), a > MAX * d)))]
    return spec


def wrong_ceil_for_floor(a_of, d_of):
    def wrong(i, o):
        return [("WRONG (twin): Some(r) => r == ceil(a/d)", o["some"].implies(ceil_is(o["v"], a_of(i), d_of(i))))]
    return wrong


def wrong_floor_for_ceil(a_of, d_of):
    def wrong(i, o):
        return [("WRONG (twin): Some(r) => r == floor(a/d)", o["some"].implies(floor_is(o["v"], a_of(i), d_of(i))))]
    return wrong


def covers_some_none(i, o):
    return [("Some reachable", o["some"]), ("None reachable", Not(o["some"]))]


def sign_mag_floor(r, a, d, num, SMIN, SMAX):
    """|r| = floor(a/d), the sign of r follows `num` (zero magnitude: r = 0)."""
    return And(floor_is(Abs(r), a, d), (num > 0).implies(r >= 0), (num <= 0).implies(r <= 0), r >= SMIN, r <= SMAX)


refs = lambda *names: (lambda v: [Ref(v[n]) for n in names])
vals = lambda *names: (lambda v: [v[n] for n in names])


def obligations(tier):
    return obligations_for("u64") + obligations_for("u128")


def obligations_for(w):
    """All obligations at one width (a function, so that the closures capture this width's constants)."""
    out = []
    if True:
        c = W[w]
        U, S, UMAX, SMAX, SMIN, D = c["U"], c["S"], c["UMAX"], c["SMAX"], c["SMIN"], c["D"]
        UNIT = 10 ** D
        md = "gmsol_model::num::MulDiv"
        un = "gmsol_model::num::Unsigned"
        ut = "gmsol_model::utils"

        prod = lambda i: i["x"] * i["n"]
        den = lambda i: i["d"]
        vec_ceil = [({"x": 650_406_504, "n": 40_000_000_000, "d": 80_000_000_000}, {"some": True, "v": 325_203_252}),
                    ({"x": 650_406_505, "n": 40_000_000_000, "d": 80_000_000_000}, {"some": True, "v": 325_203_253})]

        # ---- MulDiv impls ------------------------------------------------------------------------------
        out.append(Obl(f"<{U} as MulDiv>::checked_mul_div", trait_fn(U, "MulDiv", "checked_mul_div"),
                       [("x", U), ("n", U), ("d", U)], refs("x", "n", "d"), view_option,
                       f"let r = {md}::checked_mul_div(&x, &n, &d); {P_OPT}",
                       spec_floor(prod, den, UMAX), covers_some_none, wrong_ceil_for_floor(prod, den),
                       notes="doc: floor(self * numerator / denominator) with full precision; None if the denominator is zero or overflow"))
        out.append(Obl(f"<{U} as MulDiv>::checked_mul_div_ceil", trait_fn(U, "MulDiv", "checked_mul_div_ceil"),
                       [("x", U), ("n", U), ("d", U)], refs("x", "n", "d"), view_option,
                       f"let r = {md}::checked_mul_div_ceil(&x, &n, &d); {P_OPT}",
                       spec_ceil(prod, den, UMAX), covers_some_none, wrong_floor_for_ceil(prod, den), vectors=vec_ceil,
                       notes="doc: ceil(self * numerator / denominator) with full precision"))

        # ---- MulDiv::checked_mul_div_with_signed_numerator (default method) -------------------------------------------
        def spec_signed_num(i, o, SMIN=SMIN, SMAX=SMAX):
            a, d, r = i["x"] * Abs(i["n"]), i["d"], o["v"]
            return [("Some(r) => |r| == floor(x*|n|/d), sign(r) follows n", o["some"].implies(sign_mag_floor(r, a, d, i["n"], SMIN, SMAX))),
                    ("None => d == 0 or floor(x*|n|/d) > Signed::MAX", Not(o["some"]).implies(Or(d.eq(0), a >= (SMAX + 1) * d)))]
        out.append(Obl(f"<{U} as MulDiv>::checked_mul_div_with_signed_numerator",
                       trait_fn(U, "MulDiv", "checked_mul_div_with_signed_numerator"),
                       [("x", U), ("n", S), ("d", U)], refs("x", "n", "d"), view_option,
                       f"let r = {md}::checked_mul_div_with_signed_numerator(&x, &n, &d); {P_OPT}",
                       spec_signed_num, covers_some_none,
                       lambda i, o: [("WRONG (twin): Some(r) => r == floor(x*n/d) toward -inf",
                                      o["some"].implies(floor_is(o["v"], i["x"] * i["n"], i["d"])))],
                       notes="the magnitude is rounded toward zero and the sign re-applied (the doc comment says `floor`; "
                             "for negative numerators the code truncates the magnitude, as GMX's Precision.mulDiv does)"))

        # ---- Unsigned default methods -----------------------------------------------------------------------------
        out.append(Obl(f"<{U} as Unsigned>::checked_round_up_div", trait_fn(U, "Unsigned", "checked_round_up_div"),
                       [("a", U), ("d", U)], refs("a", "d"), view_option,
                       f"let r = {un}::checked_round_up_div(&a, &d); {P_OPT}",
                       lambda i, o, UMAX=UMAX: [
                           ("Some(r) => r == ceil(a/d)", o["some"].implies(And(ceil_is(o["v"], i["a"], i["d"]), o["v"] >= 0, o["v"] <= UMAX))),
                           ("None => d == 0 or a + d > MAX (intermediate sum)", Not(o["some"]).implies(Or(i["d"].eq(0), i["a"] + i["d"] > UMAX)))],
                       covers_some_none, wrong_floor_for_ceil(lambda i: i["a"], lambda i: i["d"]),
                       vectors=[({"a": 1, "d": 3}, {"some": True, "v": 1})] if w == "u64" else (),
                       notes="fails when the intermediate a + d overflows even if ceil(a/d) fits"))

        def spec_round_up_mag(i, o, SMIN=SMIN, SMAX=SMAX):
            d, x, r = i["d"], i["x"], o["v"]
            return [("Some(r) => |r| == ceil(|x|/d), sign(r) follows x",
                     o["some"].implies(And(ceil_is(Abs(r), Abs(x), d), (x >= 0).implies(r >= 0), (x < 0).implies(r <= 0), r >= SMIN, r <= SMAX))),
                    ("None => d == 0 or d > Signed::MAX or x -/+ d leaves the signed range",
                     Not(o["some"]).implies(Or(d.eq(0), d > SMAX, And(x < 0, x - d < SMIN), And(x >= 0, x + d > SMAX))))]
        out.append(Obl(f"<{U} as Unsigned>::as_divisor_to_round_up_magnitude_div",
                       trait_fn(U, "Unsigned", "as_divisor_to_round_up_magnitude_div"),
                       [("d", U), ("x", S)], refs("d", "x"), view_option,
                       f"let r = {un}::as_divisor_to_round_up_magnitude_div(&d, &x); {P_OPT}",
                       spec_round_up_mag, covers_some_none,
                       lambda i, o: [("WRONG (twin): Some(r) => |r| == floor(|x|/d)", o["some"].implies(floor_is(Abs(o["v"]), Abs(i["x"]), i["d"])))],
                       vectors=[({"d": 3, "x": 1}, {"some": True, "v": 1}), ({"d": 3, "x": -1}, {"some": True, "v": -1})] if w == "u64" else ()))

        def spec_bound(i, o, SMAX=SMAX):
            v, lo, hi, r = i["v"], i["min"], i["max"], o["v"]
            m = Abs(v)
            clamped = Ite(m < lo, lo, Ite(m > hi, hi, m))
            return [("Ok(r) => min <= max, |r| == clamp(|v|, min, max), sign(r) follows v (v >= 0: non-negative)",
                     o["some"].implies(And(lo <= hi, Abs(r).eq(clamped), (v < 0).implies(r <= 0), (v >= 0).implies(r >= 0)))),
                    ("Ok(r) and min <= |v| <= max => r == v", And(o["some"], lo <= m, m <= hi).implies(r.eq(v))),
                    ("Err => min > max or the clamped magnitude (taken from min/max) exceeds Signed::MAX",
                     Not(o["some"]).implies(Or(lo > hi, And(Or(m < lo, m > hi), clamped > SMAX))))]
        bm_vec = []
        if w == "u64":
            for (v, lo, hi, r) in [(-123, 0, 124, -123), (-123, 0, 120, -120), (-123, 124, 256, -124), (-123, 125, 125, -125),
                                   (123, 0, 124, 123), (123, 0, 120, 120), (123, 124, 256, 124), (123, 125, 125, 125),
                                   (0, 1, 124, 1)]:
                bm_vec.append(({"v": v, "min": lo, "max": hi}, {"some": True, "v": r}))
            bm_vec.append(({"v": 0, "min": 2 ** 64 - 1, "max": 2 ** 64 - 1}, {"some": False}))
            bm_vec.append(({"v": 0, "min": 1, "max": 0}, {"some": False}))
            bm_vec.append(({"v": 0, "min": 2 ** 63, "max": 2 ** 64 - 1}, {"some": False}))
        out.append(Obl(f"<{U} as Unsigned>::bound_magnitude", trait_fn(U, "Unsigned", "bound_magnitude"),
                       [("v", S), ("min", U), ("max", U)], refs("v", "min", "max"), view_result,
                       f"let r = <{U} as {un}>::bound_magnitude(&v, &min, &max); {P_RES}",
                       spec_bound, covers_some_none,
                       lambda i, o: [("WRONG (twin): Ok(r) => |r| <= |v|", o["some"].implies(Abs(o["v"]) <= Abs(i["v"])))],
                       vectors=bm_vec))

        def spec_addsub(sign):
            def spec(i, o, UMAX=UMAX):
                e = i["a"] + i["b"] if sign > 0 else i["a"] - i["b"]
                return [("Some(r) => r == a +/- b exactly, 0 <= r <= MAX", o["some"].implies(And(o["v"].eq(e), e >= 0, e <= UMAX))),
                        ("None => a +/- b is outside [0, MAX]", Not(o["some"]).implies(Or(e < 0, e > UMAX)))]
            return spec
        out.append(Obl(f"<{U} as Unsigned>::checked_add_with_signed", trait_fn(U, "Unsigned", "checked_add_with_signed"),
                       [("a", U), ("b", S)], refs("a", "b"), view_option,
                       f"let r = {un}::checked_add_with_signed(&a, &b); {P_OPT}", spec_addsub(+1), covers_some_none,
                       lambda i, o: [("WRONG (twin): Some(r) => r == a - b", o["some"].implies(o["v"].eq(i["a"] - i["b"])))]))
        out.append(Obl(f"<{U} as Unsigned>::checked_sub_with_signed", trait_fn(U, "Unsigned", "checked_sub_with_signed"),
                       [("a", U), ("b", S)], refs("a", "b"), view_option,
                       f"let r = {un}::checked_sub_with_signed(&a, &b); {P_OPT}", spec_addsub(-1), covers_some_none,
                       lambda i, o: [("WRONG (twin): Some(r) => r == a + b", o["some"].implies(o["v"].eq(i["a"] + i["b"])))]))
        out.append(Obl(f"<{U} as Unsigned>::checked_mul_with_signed", trait_fn(U, "Unsigned", "checked_mul_with_signed"),
                       [("a", U), ("b", S)], refs("a", "b"), view_option,
                       f"let r = {un}::checked_mul_with_signed(&a, &b); {P_OPT}",
                       lambda i, o, SMAX=SMAX, SMIN=SMIN: [
                           ("Some(r) => r == a * b exactly and fits", o["some"].implies(And(o["v"].eq(i["a"] * i["b"]), o["v"] >= SMIN, o["v"] <= SMAX))),
                           ("None => |a * b| > Signed::MAX", Not(o["some"]).implies(i["a"] * Abs(i["b"]) > SMAX))],
                       covers_some_none,
                       lambda i, o: [("WRONG (twin): Some(r) => r == a * |b|", o["some"].implies(o["v"].eq(i["a"] * Abs(i["b"]))))],
                       notes="an exact product equal to Signed::MIN is reported as None (the magnitude is converted before negation)"))
        out.append(Obl(f"<{U} as Unsigned>::checked_signed_sub", trait_fn(U, "Unsigned", "checked_signed_sub"),
                       [("a", U), ("b", U)], vals("a", "b"), view_result,
                       f"let r = {un}::checked_signed_sub(a, b); {P_RES}",
                       lambda i, o, SMAX=SMAX: [
                           ("Ok(r) => r == a - b exactly", o["some"].implies(o["v"].eq(i["a"] - i["b"]))),
                           ("Err => |a - b| > Signed::MAX", Not(o["some"]).implies(Abs(i["a"] - i["b"]) > SMAX))],
                       covers_some_none,
                       lambda i, o: [("WRONG (twin): Ok(r) => r == b - a", o["some"].implies(o["v"].eq(i["b"] - i["a"])))]))
        out.append(Obl(f"<{U} as Unsigned>::to_signed", trait_fn(U, "Unsigned", "to_signed"),
                       [("a", U)], refs("a"), view_result, f"let r = {un}::to_signed(&a); {P_RES}",
                       lambda i, o, SMAX=SMAX: [("Ok(r) => r == a", o["some"].implies(o["v"].eq(i["a"]))),
                                                ("Err => a > Signed::MAX", Not(o["some"]).implies(i["a"] > SMAX))],
                       covers_some_none,
                       lambda i, o: [("WRONG (twin): Ok(r) => r == -a", o["some"].implies(o["v"].eq(-i["a"])))]))
        out.append(Obl(f"<{U} as Unsigned>::to_opposite_signed", trait_fn(U, "Unsigned", "to_opposite_signed"),
                       [("a", U)], refs("a"), view_result, f"let r = {un}::to_opposite_signed(&a); {P_RES}",
                       lambda i, o, SMAX=SMAX: [("Ok(r) => r == -a", o["some"].implies(o["v"].eq(-i["a"]))),
                                                ("Err => a > Signed::MAX", Not(o["some"]).implies(i["a"] > SMAX))],
                       covers_some_none,
                       lambda i, o: [("WRONG (twin): Ok(r) => r == a", o["some"].implies(o["v"].eq(i["a"])))]))

        # ---- utils ------------------------------------------------------------------------------------------------
        T = {"T": U, "DECIMALS": f"{D}_u8"}
        TT = {"T": U}

        def spec_usd_to_mt(i, o, UMAX=UMAX):
            usd, pool, supply, dv, r = i["usd"], i["pool"], i["supply"], i["dv"], o["v"]
            c1 = And(supply.eq(0), pool.eq(0))
            c2 = And(supply.eq(0), pool.ne(0))
            c3 = supply.ne(0)
            return [("Some(r) => divisor != 0 and r is the floor of the documented case formula",
                     o["some"].implies(And(dv > 0, r >= 0, r <= UMAX,
                                           c1.implies(floor_is(r, usd, dv)),
                                           c2.implies(And(floor_is(r, pool + usd, dv), pool + usd <= UMAX)),
                                           c3.implies(floor_is(r, supply * usd, pool))))),
                    ("None => divisor == 0, or pool+usd overflows (supply == 0 != pool), or (supply != 0 and (pool == 0 or the result overflows))",
                     Not(o["some"]).implies(Or(dv.eq(0), And(c2, pool + usd > UMAX),
                                               And(c3, Or(pool.eq(0), supply * usd >= (UMAX + 1) * pool)))))]
        out.append(Obl(f"utils::usd_to_market_token_amount::<{U}>", path_fn("utils::usd_to_market_token_amount", TT),
                       [("usd", U), ("pool", U), ("supply", U), ("dv", U)], vals("usd", "pool", "supply", "dv"), view_option,
                       f"let r = {ut}::usd_to_market_token_amount(usd, pool, supply, dv); {P_OPT}",
                       spec_usd_to_mt,
                       lambda i, o: covers_some_none(i, o) + [
                           ("case supply == 0 == pool", And(o["some"], i["supply"].eq(0), i["pool"].eq(0))),
                           ("case supply == 0 != pool", And(o["some"], i["supply"].eq(0), i["pool"].ne(0))),
                           ("case supply != 0", And(o["some"], i["supply"].ne(0), i["usd"] > 0))],
                       lambda i, o: [("WRONG (twin): supply != 0 and Some(r) => r == ceil(supply*usd/pool)",
                                      And(o["some"], i["supply"].ne(0)).implies(ceil_is(o["v"], i["supply"] * i["usd"], i["pool"])))]))
        out.append(Obl(f"utils::market_token_amount_to_usd::<{U}>", path_fn("utils::market_token_amount_to_usd", TT),
                       [("amount", U), ("pool", U), ("supply", U)], refs("amount", "pool", "supply"), view_option,
                       f"let r = {ut}::market_token_amount_to_usd(&amount, &pool, &supply); {P_OPT}",
                       spec_floor(lambda i: i["pool"] * i["amount"], lambda i: i["supply"], UMAX), covers_some_none,
                       wrong_ceil_for_floor(lambda i: i["pool"] * i["amount"], lambda i: i["supply"])))
        af_vec = []
        if w == "u64":
            af_vec = [({"v": 100 * 10 ** 9, "f": 10 ** 7}, {"some": True, "v": 10 ** 9}),
                      ({"v": 100 * 10 ** 9, "f": 10 ** 9 + 10 ** 8}, {"some": True, "v": 110 * 10 ** 9})]
        out.append(Obl(f"utils::apply_factor::<{U}, {D}>", path_fn("utils::apply_factor", T),
                       [("v", U), ("f", U)], refs("v", "f"), view_option,
                       f"let r = {ut}::apply_factor::<{U}, {D}>(&v, &f); {P_OPT}",
                       spec_floor(lambda i: i["v"] * i["f"], lambda i: E(UNIT), UMAX), covers_some_none,
                       wrong_ceil_for_floor(lambda i: i["v"] * i["f"], lambda i: E(UNIT)), vectors=af_vec))
        if w == "u64":
            out.append(Obl("utils::apply_factor::<u64, 19> (test vector instantiation)",
                           path_fn("utils::apply_factor", {"T": "u64", "DECIMALS": "19_u8"}),
                           [("v", U), ("f", U)], refs("v", "f"), view_option,
                           f"let r = {ut}::apply_factor::<u64, 19>(&v, &f); {P_OPT}",
                           spec_floor(lambda i: i["v"] * i["f"], lambda i: E(10 ** 19), UMAX), covers_some_none,
                           vectors=[({"v": 12 * 10 ** 10, "f": 10 ** 9}, {"some": True, "v": 12})]))

        def spec_div_to_factor(i, o, UMAX=UMAX, UNIT=UNIT):
            v, dv, up, r = i["v"], i["dv"], i["up"], o["v"]
            a = v * UNIT
            return [("divisor == 0 => Some(0)", dv.eq(0).implies(And(o["some"], r.eq(0)))),
                    ("Some(r), divisor != 0, round_up => r == ceil(v*UNIT/divisor)", And(o["some"], dv.ne(0), up).implies(And(ceil_is(r, a, dv), r <= UMAX))),
                    ("Some(r), divisor != 0, !round_up => r == floor(v*UNIT/divisor)", And(o["some"], dv.ne(0), Not(up)).implies(And(floor_is(r, a, dv), r <= UMAX))),
                    ("None => divisor != 0", Not(o["some"]).implies(dv.ne(0))),
                    ("None, round_up => ceil(v*UNIT/divisor) > MAX", And(Not(o["some"]), up).implies(a > UMAX * dv)),
                    ("None, !round_up => floor(v*UNIT/divisor) > MAX", And(Not(o["some"]), Not(up)).implies(a >= (UMAX + 1) * dv))]
        out.append(Obl(f"utils::div_to_factor::<{U}, {D}>", path_fn("utils::div_to_factor", T),
                       [("v", U), ("dv", U), ("up", "bool")], lambda v: [Ref(v["v"]), Ref(v["dv"]), v["up"]], view_option,
                       f"let r = {ut}::div_to_factor::<{U}, {D}>(&v, &dv, up); {P_OPT}",
                       spec_div_to_factor,
                       lambda i, o: covers_some_none(i, o) + [("round-up Some", And(o["some"], i["up"], i["dv"] > 1)),
                                                              ("round-down Some", And(o["some"], Not(i["up"]), i["dv"] > 1))],
                       lambda i, o, UNIT=UNIT: [("WRONG (twin): round_up and Some(r) => r == floor(v*UNIT/divisor)",
                                                 And(o["some"], i["up"], i["dv"].ne(0)).implies(floor_is(o["v"], i["v"] * UNIT, i["dv"])))]))

        def spec_div_to_factor_signed(i, o, SMAX=SMAX, SMIN=SMIN, UNIT=UNIT):
            v, dv, r = i["v"], i["dv"], o["v"]
            a = UNIT * Abs(v)
            return [("divisor == 0 => Some(0)", dv.eq(0).implies(And(o["some"], r.eq(0)))),
                    ("Some(r), divisor != 0 => |r| == floor(UNIT*|v|/divisor), sign(r) follows v",
                     And(o["some"], dv.ne(0)).implies(sign_mag_floor(r, a, dv, v, SMIN, SMAX))),
                    ("None => divisor != 0 and floor(UNIT*|v|/divisor) > Signed::MAX", Not(o["some"]).implies(And(dv.ne(0), a >= (SMAX + 1) * dv)))]
        out.append(Obl(f"utils::div_to_factor_signed::<{U}, {D}>", path_fn("utils::div_to_factor_signed", T),
                       [("v", S), ("dv", U)], refs("v", "dv"), view_option,
                       f"let r = {ut}::div_to_factor_signed::<{U}, {D}>(&v, &dv); {P_OPT}",
                       spec_div_to_factor_signed, covers_some_none,
                       lambda i, o, UNIT=UNIT: [("WRONG (twin): Some(r), divisor != 0 => r == floor(UNIT*v/divisor) toward -inf",
                                                 And(o["some"], i["dv"].ne(0)).implies(floor_is(o["v"], UNIT * i["v"], i["dv"])))]))

        # ---- Fixed::checked_mul -----------------------------------------------------------------------------------
        fx_vec = [({"a": 12_800_000_000, "b": 25_600_000_001}, {"some": True, "v": 327_680_000_012})] if w == "u64" else \
                 [({"a": 128 * 10 ** 20, "b": 256 * 10 ** 20 + 1}, {"some": True, "v": 3_276_800_000_000_000_000_000_128})]
        out.append(Obl(f"<Fixed<{U}, {D}> as CheckedMul>::checked_mul",
                       trait_fn(f"Fixed<{U}, {D}>", "CheckedMul", "checked_mul"),
                       [("a", U), ("b", U)], lambda v: [Ref(St("Fixed", [v["a"]])), Ref(St("Fixed", [v["b"]]))],
                       lambda ret: view_option_fixed(ret),
                       f"let r = gmsol_model::num_traits::CheckedMul::checked_mul(&gmsol_model::fixed::Fixed::<{U}, {D}>::from_inner(a), "
                       f"&gmsol_model::fixed::Fixed::<{U}, {D}>::from_inner(b)).map(|x| x.into_inner()); {P_OPT}",
                       spec_floor(lambda i: i["a"] * i["b"], lambda i: E(UNIT), UMAX), covers_some_none,
                       wrong_ceil_for_floor(lambda i: i["a"] * i["b"], lambda i: E(UNIT)), vectors=fx_vec))
    return out


def view_option_fixed(ret):
    v = view_option(ret)
    # payload is Fixed(inner): flat() names the single field v0
    if "v0" in v:
        v["v"] = v.pop("v0")
    return v
