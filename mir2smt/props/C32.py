"""C32 - builder fee helpers (programs/store/src/ops/order.rs), full u128/u64 width on the MIR of the
real (private) functions; gmsol-model callees (`apply_factor`, `checked_round_up_div`, `Price::pick_price`,
`<u128 as MulDiv>::checked_mul_div`) are inlined from the MIR of crates/model dumped in the same run.

    fee = ceil( floor(size * factor / 10^20) / p_min )
written without division (fv = floor(a/UNIT) satisfies fv >= k <=> a >= k*UNIT):
    ((fee-1)*p_min + 1)*UNIT <= size*factor < (fee*p_min + 1)*UNIT.
"""
from obl import Obl, path_fn, view_result, view_plain
from symex import Ref, St
from terms import E, And, Or, Not, Ite

CRATE = "store"
UMAX = 2 ** 128 - 1
U64MAX = 2 ** 64 - 1
UNIT = 10 ** 20
BOUNDS = ["E2/C32: every u128 size / factor / min and max price, every u64 collateral increment (no value bound); helpers only: "
          "compute_builder_fee_amount, clamp_builder_fee_amount, charge_builder_fee_on_collateral_increment"]
ASSUMPTIONS = ["E2/C32: construction of anchor Error values on the failure paths is total and opaque (only Ok/Err and the Ok value are decided)",
               "E2/C32: Price { min, max } is built in the field order read from crates/model/src/price.rs"]
HOOK = "gmsol_store::ops::order::verif_hooks"


def price_arg(ex_world, v):
    names = ex_world.struct_fields("crates/model/src/price.rs", "Price")
    by = {"min": v["pmin"], "max": v["pmax"]}
    return Ref(St("Price", [by[n] for n in names]))


def fee_is(fee, a, pmin):
    return And(pmin > 0, ((fee - 1) * pmin + 1) * UNIT <= a, a < (fee * pmin + 1) * UNIT)


def fee_fails(a, pmin):
    """compute fails: zero price, floor(a/UNIT) does not fit, or the round-up intermediate fv + p_min overflows"""
    return Or(pmin.eq(0), a >= (UMAX + 1) * UNIT, a >= (UMAX - pmin + 1) * UNIT)


def spec_compute(i, o):
    a, pmin, f = i["size"] * i["factor"], i["pmin"], i["factor"]
    return [("factor == 0 => Ok(0) whatever the price", f.eq(0).implies(And(o["some"], o["v"].eq(0)))),
            ("Ok(fee), factor != 0 => fee == ceil(floor(size*factor/UNIT) / p_min)", And(o["some"], f.ne(0)).implies(And(fee_is(o["v"], a, pmin), o["v"] >= 0, o["v"] <= UMAX))),
            ("Err => factor != 0 and (p_min == 0 or an intermediate does not fit u128)", Not(o["some"]).implies(And(f.ne(0), fee_fails(a, pmin))))]


def spec_charge(i, o):
    a, pmin, f, inc = i["size"] * i["factor"], i["pmin"], i["factor"], i["inc"]
    after, fee = o["v0"], o["v1"]
    return [("Ok((after, fee)) => after + fee == increment, fee is the computed fee (0 if factor == 0), both fit u64",
             o["some"].implies(And((after + fee).eq(inc), after >= 0, fee >= 0, fee <= U64MAX,
                                   Ite(f.eq(0), fee.eq(0), fee_is(fee, a, pmin))))),
            ("Err => the fee cannot be computed, exceeds u64, or exceeds the increment",
             Not(o["some"]).implies(And(f.ne(0), Or(fee_fails(a, pmin),
                                                    # fee > min(inc, u64::MAX)  <=>  fv > bound*p_min  <=>  a >= (bound*p_min + 1)*UNIT
                                                    a >= (inc * pmin + 1) * UNIT))))]


def obligations(tier):
    price_in = [("pmin", "u128"), ("pmax", "u128")]
    mk_price = "let price = gmsol_model::price::Price { min: pmin, max: pmax };"
    out = []
    world_box = {}

    def with_world(f):
        # the struct field order needs the World; obligations receive it through locate()
        return f

    def locate(path):
        base = path_fn(path)

        def f(world):
            world_box["w"] = world
            return base(world)
        return f

    out.append(Obl("ops::order::compute_builder_fee_amount", locate("compute_builder_fee_amount"),
                   [("size", "u128"), ("factor", "u128")] + price_in,
                   lambda v: [v["size"], v["factor"], price_arg(world_box["w"], v)], view_result,
                   f"{mk_price} let r = {HOOK}::compute_builder_fee_amount(size, factor, &price); "
                   'match r { Ok(v) => println!("some=1\\nv={}", v), Err(_) => println!("some=0") }',
                   spec_compute,
                   lambda i, o: [("Ok with rounding up", And(o["some"], i["factor"].ne(0), o["v"] * i["pmin"] * UNIT > i["size"] * i["factor"], o["v"] > 1)),
                                 ("Err reachable", Not(o["some"])), ("zero factor", And(o["some"], i["factor"].eq(0), i["pmin"].eq(0)))],
                   lambda i, o: [("WRONG (twin): Ok(fee), factor != 0 => fee == floor(floor(size*factor/UNIT) / p_min)",
                                  And(o["some"], i["factor"].ne(0)).implies(And(o["v"] * i["pmin"] * UNIT <= i["size"] * i["factor"])))]))
    out.append(Obl("ops::order::clamp_builder_fee_amount", locate("clamp_builder_fee_amount"),
                   [("fee", "u128"), ("avail", "u128")], lambda v: [v["fee"], v["avail"]], view_plain,
                   f'let r = {HOOK}::clamp_builder_fee_amount(fee, avail); println!("v={{}}", r);',
                   lambda i, o: [("result == min(fee, available)", o["v"].eq(Ite(i["fee"] <= i["avail"], i["fee"], i["avail"]))),
                                 ("never exceeds what is available", o["v"] <= i["avail"])],
                   lambda i, o: [("clamped", o["v"] < i["fee"])],
                   lambda i, o: [("WRONG (twin): result == fee", o["v"].eq(i["fee"]))]))
    out.append(Obl("ops::order::charge_builder_fee_on_collateral_increment", locate("charge_builder_fee_on_collateral_increment"),
                   [("inc", "u64"), ("size", "u128"), ("factor", "u128")] + price_in,
                   lambda v: [v["inc"], v["size"], v["factor"], price_arg(world_box["w"], v)], view_result,
                   f"{mk_price} let r = {HOOK}::charge_builder_fee_on_collateral_increment(inc, size, factor, &price); "
                   'match r { Ok((a, b)) => println!("some=1\\nv0={}\\nv1={}", a, b), Err(_) => println!("some=0") }',
                   spec_charge,
                   lambda i, o: [("Ok with a non-zero fee", And(o["some"], o["v1"] > 0, o["v0"] > 0)), ("Err reachable", Not(o["some"])),
                                 ("fee equals the whole increment", And(o["some"], o["v0"].eq(0), o["v1"] > 0))],
                   lambda i, o: [("WRONG (twin): Ok((after, fee)) => after == increment", o["some"].implies(o["v0"].eq(i["inc"])))]))
    return out
