"""Exact integer models of library callees (the trusted base of engine E2).

Each model is keyed by a regular expression over the *normalised* callee path as printed in MIR and
is the mathematical definition of the std / num-traits / ruint function on integers, including its
panics (recorded through `ex.panic`, i.e. they become proof obligations).  A model that is used is
reported in the evidence under `trusted_base`.
"""
import re

from mirparse import Unsupported, split_top
from symex import (I, Bv, Tup, St, En, Ref, RefMut, Opq, Sl, UNIT, mk_option, mk_result, vite, int_range,
                   is_int_ty, PRIMS)
from terms import (is_c, t_add, t_sub, t_mul, t_neg, t_eq, t_lt, t_le, t_not, t_and, t_or, t_ite)

INT = r"(?:u8|u16|u32|u64|u128|i8|i16|i32|i64|i128|usize|isize)"
UINT = r"Uint<\d+, \d+>"
ANYINT = rf"(?:{INT}|{UINT})"

TABLE = []


def model(pattern, label):
    rx = re.compile("^(?:" + pattern + ")$")

    def deco(f):
        TABLE.append((rx, label, f))
        return f
    return deco


def dispatch(ex, callee, args):
    for rx, label, f in TABLE:
        m = rx.match(callee)
        if m:
            ex.trusted.add(label)
            return f(ex, m, args)
    return NotImplemented


def deref(ex, v):
    while isinstance(v, (Ref, RefMut)):
        v = v.v if isinstance(v, Ref) else v.load(ex)
    return v


def as_int(ex, v, ty=None):
    v = deref(ex, v)
    if not isinstance(v, I):
        raise Unsupported(f"integer expected, got {v!r}")
    if ty is not None and v.ty != ty:
        raise Unsupported(f"integer of type {ty} expected, got {v.ty}")
    return v


def checked(ex, exact, ty):
    exact = ex.name_term(exact, "chk")
    return mk_option(ex.in_range(exact, ty), I(exact, ty))


# ---- primitive integers: inherent methods ---------------------------------------------------------
@model(rf"core::num::<impl ({INT})>::(checked_add|checked_sub|checked_mul)",
       "core: {integer}::checked_add/sub/mul = exact result if it fits the type, else None")
def m_checked_arith(ex, m, args):
    ty = m.group(1)
    a, b = as_int(ex, args[0], ty), as_int(ex, args[1], ty)
    f = {"checked_add": t_add, "checked_sub": t_sub, "checked_mul": t_mul}[m.group(2)]
    return checked(ex, f(a.t, b.t), ty)


@model(rf"<({INT}) as (CheckedAdd|CheckedSub|CheckedMul)>::(checked_add|checked_sub|checked_mul)",
       "num-traits: CheckedAdd/CheckedSub/CheckedMul for primitives forward to the inherent checked_* methods")
def m_nt_checked(ex, m, args):
    ty = m.group(1)
    a, b = as_int(ex, args[0], ty), as_int(ex, args[1], ty)
    f = {"checked_add": t_add, "checked_sub": t_sub, "checked_mul": t_mul}[m.group(3)]
    return checked(ex, f(a.t, b.t), ty)


def checked_div(ex, a, b, ty):
    lo, hi = int_range(ty)
    if lo < 0:
        q, _ = ex.sdivrem(a.t, b.t, "cdiv")
        ok = t_and(t_not(t_eq(b.t, 0)), t_not(t_and(t_eq(a.t, lo), t_eq(b.t, -1))))
    else:
        q, _ = ex.udivrem(a.t, b.t, "cdiv")
        ok = t_not(t_eq(b.t, 0))
    return mk_option(ok, I(q, ty))


@model(rf"core::num::<impl ({INT})>::checked_div",
       "core: {integer}::checked_div = truncated quotient, None for a zero divisor or MIN / -1")
def m_checked_div(ex, m, args):
    ty = m.group(1)
    return checked_div(ex, as_int(ex, args[0], ty), as_int(ex, args[1], ty), ty)


@model(rf"<({INT}) as CheckedDiv>::checked_div",
       "num-traits: CheckedDiv for primitives forwards to the inherent checked_div")
def m_nt_checked_div(ex, m, args):
    ty = m.group(1)
    return checked_div(ex, as_int(ex, args[0], ty), as_int(ex, args[1], ty), ty)


@model(rf"(?:core::num::<impl ({INT})>|<({INT}) as CheckedNeg>)::checked_neg",
       "core/num-traits: checked_neg = -x if it fits the type, else None")
def m_checked_neg(ex, m, args):
    ty = m.group(1) or m.group(2)
    a = as_int(ex, args[0], ty)
    return checked(ex, t_neg(a.t), ty)


@model(r"core::num::<impl (i8|i16|i32|i64|i128)>::(checked_add_unsigned|checked_sub_unsigned|saturating_add_unsigned|saturating_sub_unsigned)",
       "core: {signed}::checked_add_unsigned / checked_sub_unsigned = exact x +/- u if it fits, else None; saturating_* clamp to the type's range")
def m_signed_unsigned(ex, m, args):
    ty = m.group(1)
    a, b = as_int(ex, args[0], ty), as_int(ex, args[1], "u" + ty[1:])
    exact = ex.name_term(t_add(a.t, b.t) if "add" in m.group(2) else t_sub(a.t, b.t), "su")
    lo, hi = int_range(ty)
    if m.group(2).startswith("checked"):
        return mk_option(ex.in_range(exact, ty), I(exact, ty))
    return I(t_ite(t_lt(hi, exact), hi, t_ite(t_lt(exact, lo), lo, exact)), ty)


@model(r"anchor_lang::solana_program::log::sol_log(_\w+)?", "solana: sol_log (msg!) has no effect on the computation")
def m_sol_log(ex, m, args):
    return UNIT


@model(rf"core::num::<impl ({INT})>::abs_diff", "core: {integer}::abs_diff = |a - b| (as the unsigned type)")
def m_abs_diff(ex, m, args):
    ty = m.group(1)
    a, b = as_int(ex, args[0], ty), as_int(ex, args[1], ty)
    uty = ty if ty.startswith("u") else "u" + ty[1:]
    return I(t_ite(t_le(b.t, a.t), t_sub(a.t, b.t), t_sub(b.t, a.t)), uty)


@model(rf"core::num::<impl (i8|i16|i32|i64|i128|isize)>::unsigned_abs",
       "core: {signed}::unsigned_abs = |x| as the unsigned type (total)")
def m_unsigned_abs(ex, m, args):
    ty = m.group(1)
    a = as_int(ex, args[0], ty)
    return I(t_ite(t_le(0, a.t), a.t, t_neg(a.t)), "u" + ty[1:])


def div_ceil(ex, a, b, ty, what):
    ex.panic(f"panic: {what}::div_ceil by zero", t_eq(b.t, 0))
    q, r = ex.udivrem(a.t, b.t, "dceil")
    return I(t_ite(t_lt(0, r), t_add(q, 1), q), ty)


@model(rf"core::num::<impl (u8|u16|u32|u64|u128|usize)>::div_ceil",
       "core: {unsigned}::div_ceil = q + (r > 0) with (q, r) the Euclidean quotient/remainder; panics on zero divisor")
def m_div_ceil(ex, m, args):
    ty = m.group(1)
    return div_ceil(ex, as_int(ex, args[0], ty), as_int(ex, args[1], ty), ty, ty)


@model(rf"core::num::<impl ({INT})>::(pow|checked_pow)",
       "core: {integer}::pow / checked_pow = exact power (concrete exponent, or concrete base with the exponent decided by a table of all non-overflowing powers); pow panics on overflow (overflow checks on)")
def m_pow(ex, m, args):
    ty = m.group(1)
    a, e = as_int(ex, args[0], ty), as_int(ex, args[1], "u32")
    lo, hi = int_range(ty)
    if is_c(e.t):
        if is_c(a.t):
            r = a.t ** e.t
        else:
            r = 1
            for _ in range(e.t):
                r = t_mul(r, a.t)
        fits = ex.in_range(r, ty)
    else:
        if not is_c(a.t) or a.t < 2:
            raise Unsupported("pow with symbolic exponent and symbolic (or trivial) base")
        table = []
        while a.t ** len(table) <= hi:
            table.append(a.t ** len(table))
        fits = t_lt(e.t, len(table))
        r = table[-1]
        for k in range(len(table) - 2, -1, -1):
            r = t_ite(t_eq(e.t, k), table[k], r)
        r = ex.name_term(r, "pow")
    if m.group(2) == "checked_pow":
        return mk_option(fits, I(r, ty))
    ex.panic(f"panic: {ty}::pow overflow", t_not(fits))
    return I(r, ty)


@model(rf"<({INT}) as (Div|Rem)>::(div|rem)",
       "core: Div/Rem for primitive integers = truncated quotient / remainder; panics on zero divisor and MIN / -1")
def m_div_op(ex, m, args):
    ty = m.group(1)
    a, b = as_int(ex, args[0], ty), as_int(ex, args[1], ty)
    lo, hi = int_range(ty)
    ex.panic(f"panic: {ty} division by zero", t_eq(b.t, 0))
    if lo < 0:
        ex.panic(f"panic: {ty} division overflow", t_and(t_eq(a.t, lo), t_eq(b.t, -1)))
        q, r = ex.sdivrem(a.t, b.t, "div")
    else:
        q, r = ex.udivrem(a.t, b.t, "div")
    return I(q if m.group(3) == "div" else r, ty)


@model(rf"<({INT}) as (Add|Sub|Mul)>::(add|sub|mul)",
       "core: Add/Sub/Mul for primitive integers inherit the caller's overflow checks (on): exact result, panic on overflow")
def m_arith_op(ex, m, args):
    ty = m.group(1)
    a, b = as_int(ex, args[0], ty), as_int(ex, args[1], ty)
    f = {"add": t_add, "sub": t_sub, "mul": t_mul}[m.group(3)]
    r = ex.name_term(f(a.t, b.t), m.group(3))
    ex.panic(f"panic: {ty} {m.group(3)} overflow", t_not(ex.in_range(r, ty)))
    return I(r, ty)


@model(rf"core::num::<impl ({INT})>::(min|max)|<({INT}) as Ord>::(min|max)|(?:std|core)::cmp::(min|max)::<({INT})>",
       "core: Ord::min/max on integers")
def m_minmax(ex, m, args):
    ty = m.group(1) or m.group(3) or m.group(6)
    which = m.group(2) or m.group(4) or m.group(5)
    a, b = as_int(ex, args[0], ty), as_int(ex, args[1], ty)
    if which == "min":
        return I(t_ite(t_le(a.t, b.t), a.t, b.t), ty)
    return I(t_ite(t_le(b.t, a.t), a.t, b.t), ty)     # max returns the second argument on ties: same value


# ---- num-traits predicates / constants ------------------------------------------------------------
@model(rf"<({INT}) as Zero>::is_zero", "num-traits: Zero::is_zero(x) = (x == 0)")
def m_is_zero(ex, m, args):
    return Bv(t_eq(as_int(ex, args[0], m.group(1)).t, 0))


@model(rf"<({INT}) as Zero>::zero", "num-traits: Zero::zero() = 0")
def m_zero(ex, m, args):
    return I(0, m.group(1))


@model(rf"<({INT}) as One>::one", "num-traits: One::one() = 1")
def m_one(ex, m, args):
    return I(1, m.group(1))


@model(rf"<({INT}) as One>::is_one", "num-traits: One::is_one(x) = (x == 1)")
def m_is_one(ex, m, args):
    return Bv(t_eq(as_int(ex, args[0], m.group(1)).t, 1))


@model(rf"<({INT}) as Signed>::(is_negative|is_positive)",
       "num-traits: Signed::is_negative(x) = (x < 0), is_positive(x) = (x > 0)")
def m_sign(ex, m, args):
    a = as_int(ex, args[0], m.group(1))
    return Bv(t_lt(a.t, 0) if m.group(2) == "is_negative" else t_lt(0, a.t))


@model(rf"core::num::<impl ({INT})>::(is_negative|is_positive)",
       "core: {signed}::is_negative(x) = (x < 0), is_positive(x) = (x > 0)")
def m_sign2(ex, m, args):
    a = as_int(ex, args[0], m.group(1))
    return Bv(t_lt(a.t, 0) if m.group(2) == "is_negative" else t_lt(0, a.t))


# ---- Clone / comparisons / conversions -------------------------------------------------------------------
@model(rf"<({ANYINT}|bool) as Clone>::clone", "core: Clone for Copy scalars is the identity")
def m_clone(ex, m, args):
    return deref(ex, args[0])


@model(rf"<&*({ANYINT}) as (?:PartialOrd|PartialEq)(?:<&*{ANYINT}>)?>::(lt|le|gt|ge|eq|ne)",
       "core: integer comparison operators (references compare by value)")
def m_cmp(ex, m, args):
    a, b = as_int(ex, args[0], m.group(1)), as_int(ex, args[1], m.group(1))
    op = m.group(2)
    r = {"lt": t_lt(a.t, b.t), "le": t_le(a.t, b.t), "gt": t_lt(b.t, a.t), "ge": t_le(b.t, a.t),
         "eq": t_eq(a.t, b.t), "ne": t_not(t_eq(a.t, b.t))}[op]
    return Bv(r)


@model(rf"<({ANYINT}) as Ord>::cmp", "core: Ord::cmp on integers = Less / Equal / Greater")
def m_ord_cmp(ex, m, args):
    a, b = as_int(ex, args[0], m.group(1)), as_int(ex, args[1], m.group(1))
    return En("Ordering", t_ite(t_lt(a.t, b.t), -1, t_ite(t_eq(a.t, b.t), 0, 1)), {})


def try_convert(ex, v, dst, err_desc):
    return mk_result(ex.in_range(v.t, dst), I(v.t, dst), Opq(err_desc))


@model(rf"<({INT}) as TryInto<({INT})>>::try_into",
       "core: TryInto/TryFrom between primitive integers = Ok(x) iff x fits the target type")
def m_try_into(ex, m, args):
    return try_convert(ex, as_int(ex, args[0], m.group(1)), m.group(2), "TryFromIntError")


@model(rf"<({INT}) as TryFrom<({INT})>>::try_from",
       "core: TryInto/TryFrom between primitive integers = Ok(x) iff x fits the target type")
def m_try_from(ex, m, args):
    return try_convert(ex, as_int(ex, args[0], m.group(2)), m.group(1), "TryFromIntError")


@model(rf"<({INT}) as Into<({INT})>>::into|<({INT}) as From<({INT})>>::from",
       "core: From/Into between primitive integers is value preserving (only defined for widening pairs)")
def m_into(ex, m, args):
    src, dst = (m.group(1), m.group(2)) if m.group(1) else (m.group(4), m.group(3))
    v = as_int(ex, args[0], src)
    slo, shi = int_range(src)
    dlo, dhi = int_range(dst)
    if not (dlo <= slo and shi <= dhi):
        raise Unsupported(f"From<{src}> for {dst} is not a widening conversion")
    return I(v.t, dst)


@model(rf"<({INT}) as FromPrimitive>::from_(u8|u16|u32|u64|u128|i8|i16|i32|i64|i128|usize|isize)",
       "num-traits: FromPrimitive::from_<int>(x) = Some(x) iff x fits the target type")
def m_from_prim(ex, m, args):
    v = as_int(ex, args[0], m.group(2))
    return mk_option(ex.in_range(v.t, m.group(1)), I(v.t, m.group(1)))


# ---- Option / Result / Try ----------------------------------------------------------------------------
def as_enum(ex, v, kind):
    v = deref(ex, v)
    if not isinstance(v, En) or v.kind != kind:
        raise Unsupported(f"{kind} expected, got {v!r}")
    return v


def payload(v, variant):
    pl = v.pl.get(variant)
    return pl[0] if pl else None


@model(r"<Option<.*> as Try>::branch", "core: Try::branch for Option (the `?` operator)")
def m_opt_branch(ex, m, args):
    o = as_enum(ex, args[0], "Option")
    pl = {"Break": (En("Option", 0, {}),)}
    if payload(o, "Some") is not None:
        pl["Continue"] = (payload(o, "Some"),)
    return En("ControlFlow", t_ite(o.is_("Some"), 0, 1), pl)


@model(r"<Result<.*> as Try>::branch", "core: Try::branch for Result (the `?` operator)")
def m_res_branch(ex, m, args):
    r = as_enum(ex, args[0], "Result")
    pl = {}
    if payload(r, "Ok") is not None:
        pl["Continue"] = (payload(r, "Ok"),)
    e = payload(r, "Err")
    pl["Break"] = (En("Result", 1, {"Err": (e if e is not None else Opq("err"),)}),)
    return En("ControlFlow", t_ite(r.is_("Ok"), 0, 1), pl)


@model(r"<Option<.*> as FromResidual<Option<Infallible>>>::from_residual",
       "core: FromResidual for Option (the `?` operator) = None")
def m_opt_residual(ex, m, args):
    return En("Option", 0, {})


@model(r"<Result<.*> as FromResidual<Result<Infallible, .*>>>::from_residual",
       "core: FromResidual for Result (the `?` operator) = Err(From::from(e)); error payloads are opaque")
def m_res_residual(ex, m, args):
    r = as_enum(ex, args[0], "Result")
    e = payload(r, "Err")
    return En("Result", 1, {"Err": (e if e is not None else Opq("err"),)})


@model(r"Option::<.*>::ok_or::<.*>", "core: Option::ok_or")
def m_ok_or(ex, m, args):
    o = as_enum(ex, args[0], "Option")
    pl = {"Err": (args[1],)}
    if payload(o, "Some") is not None:
        pl["Ok"] = (payload(o, "Some"),)
    return En("Result", t_ite(o.is_("Some"), 0, 1), pl)


@model(r"Option::<.*>::ok_or_else::<.*>", "core: Option::ok_or_else (closure body inlined from its MIR)")
def m_ok_or_else(ex, m, args):
    o = as_enum(ex, args[0], "Option")
    save = ex.pc
    ex.pc = t_and(save, o.is_("None"))
    e = ex.call_closure(args[1], []) if ex.pc is not False else Opq("err")
    ex.pc = save
    pl = {"Err": (e,)}
    if payload(o, "Some") is not None:
        pl["Ok"] = (payload(o, "Some"),)
    return En("Result", t_ite(o.is_("Some"), 0, 1), pl)


@model(r"(\w+::)*(CoreError|ErrorCode)::name|<(\w+::)*(CoreError|ErrorCode) as Into<u32>>::into|<u32 as From<(\w+::)*(CoreError|ErrorCode)>>::from|<\w+ as ToString>::to_string|"
       r"<(\w+::)*ErrorCode as Into<anchor_lang::error::Error>>::into|"
       r"<anchor_lang::error::Error as From<.*>>::from|anchor_lang::error::Error::with_\w+(::<.*>)?",
       "anchor: construction of anchor_lang::error::Error values (error name / code / message / compared values) is total and opaque; error payloads are never inspected")
def m_anchor_error(ex, m, args):
    return Opq("anchor error part")


@model(r"Result::<.*>::ok", "core: Result::ok")
def m_res_ok(ex, m, args):
    r = as_enum(ex, args[0], "Result")
    pl = {}
    if payload(r, "Ok") is not None:
        pl["Some"] = (payload(r, "Ok"),)
    return En("Option", t_ite(r.is_("Ok"), 1, 0), pl)


@model(r"Result::<.*>::map_err::<.*>", "core: Result::map_err (closure body inlined from its MIR; a `From::from` function item as mapper is total and its result opaque)")
def m_map_err(ex, m, args):
    r = as_enum(ex, args[0], "Result")
    e = payload(r, "Err")
    if isinstance(args[1], Opq) and args[1].d.startswith("fn item ") and "From<" in args[1].d:
        pl = {"Err": (Opq("converted error"),)}
        if payload(r, "Ok") is not None:
            pl["Ok"] = (payload(r, "Ok"),)
        return En("Result", r.tag, pl)
    save = ex.pc
    ex.pc = t_and(save, r.is_("Err"))
    ne = ex.call_closure(args[1], [e if e is not None else Opq("err")])
    if ex.pc != t_and(save, r.is_("Err")) and ex.pc is not False:
        # the closure may panic: ex.panic has recorded it; returning paths continue
        pass
    ex.pc = save
    pl = {"Err": (ne,)}
    if payload(r, "Ok") is not None:
        pl["Ok"] = (payload(r, "Ok"),)
    return En("Result", r.tag, pl)


@model(r"Option::<.*>::map::<.*>", "core: Option::map (closure body inlined from its MIR)")
def m_opt_map(ex, m, args):
    o = as_enum(ex, args[0], "Option")
    p = payload(o, "Some")
    if p is None:
        return En("Option", 0, {})
    save = ex.pc
    ex.pc = t_and(save, o.is_("Some"))
    nv = ex.call_closure(args[1], [p])
    ex.pc = save
    return En("Option", o.tag, {"Some": (nv,)})


@model(r"Option::<.*>::and_then::<.*>", "core: Option::and_then (closure body inlined from its MIR)")
def m_opt_and_then(ex, m, args):
    o = as_enum(ex, args[0], "Option")
    p = payload(o, "Some")
    if p is None:
        return En("Option", 0, {})
    save = ex.pc
    ex.pc = t_and(save, o.is_("Some"))
    nv = as_enum(ex, ex.call_closure(args[1], [p]), "Option")
    ex.pc = save
    return vite(o.is_("Some"), nv, En("Option", 0, {}))


@model(r"Result::<.*>::(unwrap|expect)", "core: Result::unwrap/expect = payload, panics on Err")
def m_res_unwrap(ex, m, args):
    r = as_enum(ex, args[0], "Result")
    ex.panic("panic: Result::unwrap on Err", r.is_("Err"))
    p = payload(r, "Ok")
    if p is None:
        return Opq("diverges")
    return p


@model(r"Option::<.*>::(unwrap|expect)", "core: Option::unwrap/expect = payload, panics on None")
def m_opt_unwrap(ex, m, args):
    o = as_enum(ex, args[0], "Option")
    ex.panic("panic: Option::unwrap on None", o.is_("None"))
    p = payload(o, "Some")
    if p is None:
        return Opq("diverges")
    return p


@model(r"Option::<.*>::get_or_insert", "core: Option::get_or_insert = keeps a present value, stores the given one otherwise; returns &mut to the payload")
def m_get_or_insert(ex, m, args):
    r = args[0]
    if not isinstance(r, RefMut):
        raise Unsupported("get_or_insert target is not a &mut place")
    o = as_enum(ex, r, "Option")
    old = payload(o, "Some")
    new = args[1] if old is None else vite(o.is_("Some"), old, args[1])
    r.store(ex, En("Option", 1, {"Some": (new,)}))
    return RefMut(r.depth, r.lid, r.path + (("payload", "Some", 0),))


@model(r"Option::<.*>::(is_some|is_none)", "core: Option::is_some / is_none")
def m_opt_is(ex, m, args):
    o = as_enum(ex, args[0], "Option")
    return Bv(o.is_("Some") if m.group(1) == "is_some" else o.is_("None"))


@model(r"Option::<.*>::unwrap_or", "core: Option::unwrap_or")
def m_opt_unwrap_or(ex, m, args):
    o = as_enum(ex, args[0], "Option")
    p = payload(o, "Some")
    if p is None:
        return args[1]
    return vite(o.is_("Some"), p, args[1])


# ---- slice::Iter / Take (loops are unrolled by the executor) ---------------------------------------------------------
@model(rf"core::slice::<impl \[({ANYINT})\]>::iter", "core: slice::iter = iterator over the elements in order")
def m_slice_iter(ex, m, args):
    arr = deref(ex, args[0])
    if isinstance(arr, Tup):
        arr = Sl(arr.fs, len(arr.fs))
    if not isinstance(arr, Sl) or not is_c(arr.len):
        raise Unsupported("slice::iter on a slice of symbolic length")
    return St("SliceIter", [Tup(arr.fs[:arr.len]), I(0, "usize")])


@model(r"<(?:\w+::)*Iter<'_, .*> as Iterator>::take", "core: Iterator::take(n) = at most n further items")
def m_iter_take(ex, m, args):
    return St("Take", [args[0], as_int(ex, args[1], "usize")])


@model(r"<(?:\w+::)*Take<(?:\w+::)*Iter<'_, .*>> as IntoIterator>::into_iter", "core: IntoIterator for an iterator is the identity")
def m_take_into_iter(ex, m, args):
    return args[0]


@model(r"<(?:\w+::)*Take<(?:\w+::)*Iter<'_, .*>> as Iterator>::next",
       "core: Take<slice::Iter>::next = Some(&s[k]) for the k-th call while k < min(n, len), then None (the k-th call is only reached after k items)")
def m_take_next(ex, m, args):
    r = args[0]
    if not isinstance(r, RefMut):
        raise Unsupported("Take::next on a non-&mut place")
    tk = r.load(ex)
    if not isinstance(tk, St) or tk.name != "Take":
        raise Unsupported(f"Take value expected, got {tk!r}")
    it, n = tk.fs
    elems, pos = it.fs
    k = pos.t
    if not is_c(k):
        raise Unsupported("slice iterator position is symbolic")
    has = t_and(t_lt(0, n.t), k < len(elems.fs))
    # after a None the iterator stays exhausted whatever the position is (n == 0 or position >= len), so the
    # position can advance unconditionally
    has = ex.name_term(has, "take_has", "Bool")
    r.store(ex, St("Take", [St("SliceIter", [elems, I(k + 1, "usize")]), I(ex.name_term(t_ite(has, t_sub(n.t, 1), n.t), "take_n"), "usize")]))
    if k < len(elems.fs):
        return En("Option", t_ite(has, 1, 0), {"Some": (Ref(elems.fs[k]),)})
    return En("Option", 0, {})


@model(rf"core::num::<impl ({INT})>::(saturating_add|saturating_sub|saturating_mul)",
       "core: {integer}::saturating_add/sub/mul = exact result clamped to the type's range")
def m_saturating(ex, m, args):
    ty = m.group(1)
    a, b = as_int(ex, args[0], ty), as_int(ex, args[1], ty)
    f = {"saturating_add": t_add, "saturating_sub": t_sub, "saturating_mul": t_mul}[m.group(2)]
    exact = ex.name_term(f(a.t, b.t), "sat")
    lo, hi = int_range(ty)
    return I(ex.name_term(t_ite(t_lt(hi, exact), hi, t_ite(t_lt(exact, lo), lo, exact)), "satv"), ty)


@model(r"Result::<.*>::unwrap_or", "core: Result::unwrap_or")
def m_res_unwrap_or(ex, m, args):
    r = as_enum(ex, args[0], "Result")
    p = payload(r, "Ok")
    if p is None:
        return args[1]
    return vite(r.is_("Ok"), p, args[1])


# ---- Range<int> iteration (loops are unrolled by the executor) -----------------------------------------------
@model(rf"<Range<({INT})> as IntoIterator>::into_iter", "core: IntoIterator for Range is the identity")
def m_range_into_iter(ex, m, args):
    return args[0]


@model(rf"<Range<({INT})> as Iterator>::next|core::iter::range::<impl Iterator for Range<({INT})>>::next",
       "core: Range<int>::next = if start < end { start += 1; Some(old start) } else { None }")
def m_range_next(ex, m, args):
    ty = m.group(1) or m.group(2)
    r = args[0]
    if not isinstance(r, RefMut):
        raise Unsupported("Range::next on a non-&mut place")
    rng = r.load(ex)
    if not isinstance(rng, St) or len(rng.fs) != 2:
        raise Unsupported(f"Range value expected, got {rng!r}")
    start, end = as_int(ex, rng.fs[0], ty), as_int(ex, rng.fs[1], ty)
    has = ex.name_term(t_lt(start.t, end.t), "range_has", "Bool")
    r.store(ex, St(rng.name, [I(ex.name_term(t_ite(has, t_add(start.t, 1), start.t), "range_start"), ty), end]))
    return mk_option(has, start)


# ---- ruint ---------------------------------------------------------------------------------------------
@model(rf"ruint::from::<impl ({UINT})>::from::<({INT})>",
       "ruint: Uint::from(primitive unsigned) is value preserving (panics if the value does not fit)")
def m_uint_from(ex, m, args):
    v = as_int(ex, args[0], m.group(2))
    ex.panic("panic: Uint::from out of range", t_not(ex.in_range(v.t, m.group(1))))
    return I(v.t, m.group(1))


@model(rf"({UINT})::from_limbs|Uint::<(\d+), (\d+)>::from_limbs",
       "ruint: Uint::from_limbs(little-endian u64 limbs) = sum limb_i * 2^(64 i) (panics if above the bit size)")
def m_uint_from_limbs(ex, m, args):
    ty = m.group(1) or f"Uint<{m.group(2)}, {m.group(3)}>"
    arr = deref(ex, args[0])
    if not isinstance(arr, Tup):
        raise Unsupported("from_limbs of non-array")
    t = 0
    for i, l in enumerate(arr.fs):
        t = t_add(t, t_mul(as_int(ex, l, "u64").t, 2 ** (64 * i)))
    ex.panic("panic: Uint::from_limbs value too large", t_not(ex.in_range(t, ty)))
    return I(t, ty)


@model(rf"<({UINT}) as Mul>::mul",
       "ruint: `*` on Uint is wrapping_mul = (a * b) mod 2^BITS (ruint-1.15 src/mul.rs impl_bin_op!(Mul, .., wrapping_mul))")
def m_uint_mul(ex, m, args):
    ty = m.group(1)
    a, b = as_int(ex, args[0], ty), as_int(ex, args[1], ty)
    exact = ex.name_term(t_mul(a.t, b.t), "umul")
    lo, hi = int_range(ty)
    ex.wrap_possible(f"silent wrap: {ty} multiplication exceeds 2^BITS", t_lt(hi, exact))
    if is_c(exact):
        return I(exact % (hi + 1), ty)
    return I(t_ite(t_le(exact, hi), exact, ex.wrap(exact, ty)), ty)


@model(rf"<({UINT}) as Div>::div", "ruint: `/` on Uint = Euclidean quotient; panics on zero divisor")
def m_uint_div(ex, m, args):
    ty = m.group(1)
    a, b = as_int(ex, args[0], ty), as_int(ex, args[1], ty)
    ex.panic("panic: Uint division by zero", t_eq(b.t, 0))
    q, _ = ex.udivrem(a.t, b.t, "udiv")
    return I(q, ty)


@model(rf"<({UINT}) as DivAssign>::div_assign", "ruint: `/=` on Uint = Euclidean quotient; panics on zero divisor")
def m_uint_div_assign(ex, m, args):
    ty = m.group(1)
    if not isinstance(args[0], RefMut):
        raise Unsupported("div_assign target is not &mut local")
    a, b = as_int(ex, args[0], ty), as_int(ex, args[1], ty)
    ex.panic("panic: Uint division by zero", t_eq(b.t, 0))
    q, _ = ex.udivrem(a.t, b.t, "udiv")
    args[0].store(ex, I(q, ty))
    return UNIT


@model(rf"ruint::div::<impl ({UINT})>::div_ceil",
       "ruint: Uint::div_ceil = q + (r != 0) with (q, r) = div_rem; panics on zero divisor (ruint-1.15 src/div.rs)")
def m_uint_div_ceil(ex, m, args):
    ty = m.group(1)
    a, b = as_int(ex, args[0], ty), as_int(ex, args[1], ty)
    ex.panic("panic: Uint::div_ceil by zero", t_eq(b.t, 0))
    q, r = ex.udivrem(a.t, b.t, "udceil")
    res = t_ite(t_lt(0, r), t_add(q, 1), q)
    return I(res, ty)       # q + 1 cannot wrap: r != 0 implies b >= 2 hence q <= MAX / 2


@model(rf"<({UINT}) as TryInto<({INT})>>::try_into|<({INT}) as TryFrom<({UINT})>>::try_from",
       "ruint: TryFrom<Uint> for primitive integers = Ok(x) iff x fits the target type")
def m_uint_try_into(ex, m, args):
    src, dst = (m.group(1), m.group(2)) if m.group(1) else (m.group(4), m.group(3))
    return try_convert(ex, as_int(ex, args[0], src), dst, "FromUintError")


@model(rf"ruint::pow::<impl ({UINT})>::pow",
       "ruint: Uint::pow(base, exp) with a concrete base = base^exp for every exponent whose power fits the type (table); larger exponents are reported as unsupported-if-reachable")
def m_uint_pow(ex, m, args):
    ty = m.group(1)
    a, e = as_int(ex, args[0], ty), as_int(ex, args[1], ty)
    if not is_c(a.t) or a.t < 2:
        raise Unsupported("Uint::pow with symbolic base")
    lo, hi = int_range(ty)
    if is_c(e.t):
        return I((a.t ** e.t) % (hi + 1), ty)
    k = 0
    table = []
    while a.t ** k <= hi:
        table.append(a.t ** k)
        k += 1
    ex.panic("unsupported-if-reachable: Uint::pow exponent beyond the non-wrapping table", t_le(k, e.t))
    r = table[-1]
    for i in range(len(table) - 2, -1, -1):
        r = t_ite(t_eq(e.t, i), table[i], r)
    return I(ex.name_term(r, "upow"), ty)


@model(rf"core::slice::<impl \[({ANYINT})\]>::binary_search",
       "core: slice::binary_search on a strictly increasing slice = Ok(i) if s[i] == x else Err(#{j : s[j] < x}) (strict monotonicity is itself an obligation)")
def m_binary_search(ex, m, args):
    ty = m.group(1)
    arr = deref(ex, args[0])
    x = as_int(ex, args[1], ty)
    if isinstance(arr, Tup):
        arr = Sl(arr.fs, len(arr.fs))
    if not isinstance(arr, Sl):
        raise Unsupported("binary_search on a non-slice")
    vals = [as_int(ex, v, ty).t for v in arr.fs]
    n = arr.len
    inside = [t_lt(k, n) for k in range(len(vals))]
    unsorted = t_or(*[t_and(t_lt(k + 1, n), t_not(t_lt(vals[k], vals[k + 1]))) for k in range(len(vals) - 1)])
    ex.panic("unsupported-if-reachable: binary_search on a slice that is not strictly increasing", unsorted)
    found = t_or(*[t_and(inside[k], t_eq(x.t, vals[k])) for k in range(len(vals))])
    idx = 0
    for k, v in enumerate(vals):
        idx = t_add(idx, t_ite(t_and(inside[k], t_lt(v, x.t)), 1, 0))
    idx = ex.name_term(idx, "bsidx")
    return En("Result", t_ite(found, 0, 1), {"Ok": (I(idx, "usize"),), "Err": (I(idx, "usize"),)})


@model(rf"<\[({ANYINT}); (\d+)\] as Index<Range<usize>>>::index",
       "core: array[start..end] = the sub-slice; panics if start > end or end > N (only start == 0 is modelled)")
def m_index_range(ex, m, args):
    arr = deref(ex, args[0])
    rng = deref(ex, args[1])
    if not isinstance(arr, Tup) or not isinstance(rng, St) or len(rng.fs) != 2:
        raise Unsupported("array range index: unexpected operands")
    start, end = as_int(ex, rng.fs[0], "usize"), as_int(ex, rng.fs[1], "usize")
    if not (is_c(start.t) and start.t == 0):
        raise Unsupported("array range index with a non-zero start")
    ex.panic("panic: range end index out of range for the array", t_lt(len(arr.fs), end.t))
    return Ref(Sl(arr.fs, end.t))


@model(r"core::fmt::rt::Argument::<'_>::new_\w+::<.*>|(core::fmt::)?Arguments::<'_>::new(_\w+)?(::<.*>)?|(alloc::fmt::)?format|(core::hint::)?must_use::<.*>|<String as Deref>::deref",
       "std: formatting of a log message (format!, fmt::Arguments) has no effect on the computation and is opaque")
def m_fmt(ex, m, args):
    return Opq("formatted text")
