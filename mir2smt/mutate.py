#!/usr/bin/env python3
"""Sensitivity test for engine E2: apply one hand mutation to the real source in /repo, run the
property's E2 check, restore the file byte-for-byte, report whether a VIOLATION with a natively
reproducing replay was produced.

  python3 mutate.py C01 [index ...]        (no index: all mutations of the property)

Each mutation window is a few seconds; the file must be unmodified (git) before it is touched and
is verified unmodified afterwards.
"""
import json
import os
import signal
import subprocess
import sys
import time

HERE = os.path.dirname(os.path.abspath(__file__))
sys.path.insert(0, HERE)
import run as e2          # noqa: E402

REPO = e2.REPO

MUTATIONS = {
    "C01": [
        ("crates/model/src/num.rs", "        let ans = (x * numerator).div_ceil(denominator);\n        ans.try_into().ok()\n    }\n}\n\nimpl UnsignedAbs for i64",
         "        let ans = (x * numerator) / (denominator);\n        ans.try_into().ok()\n    }\n}\n\nimpl UnsignedAbs for i64", "u64 checked_mul_div_ceil: div_ceil -> /"),
        ("crates/model/src/num.rs", "            let ans = x * numerator / denominator;\n            ans.try_into().ok()",
         "            let ans = (x * numerator).div_ceil(denominator);\n            ans.try_into().ok()", "u128 checked_mul_div: / -> div_ceil"),
        ("crates/model/src/num.rs", "        let x = *self as u128;\n        let numerator = *numerator as u128;\n        let denominator = *denominator as u128;\n        let ans = x * numerator / denominator;",
         "        let x = (*self * *numerator) as u128;\n        let numerator = 1u128;\n        let denominator = *denominator as u128;\n        let ans = x * numerator / denominator;", "u64 checked_mul_div: multiply before widening"),
        ("crates/model/src/num.rs", "        if min > max {", "        if min >= max {", "bound_magnitude: > -> >="),
        ("crates/model/src/num.rs", "        if magnitude < *min {\n            min.to_signed_with_sign(negative)", "        if magnitude < *min {\n            min.to_signed_with_sign(!negative)", "bound_magnitude: wrong sign on the min clamp"),
        ("crates/model/src/num.rs", "        let value = other.unsigned_abs();\n        if other.is_positive() {\n            self.checked_add(&value)",
         "        let value = other.unsigned_abs();\n        if other.is_negative() {\n            self.checked_add(&value)", "checked_add_with_signed: swapped sign test"),
        ("crates/model/src/num.rs", "        if numerator.is_positive() {\n            Some(ans)", "        if numerator.is_negative() {\n            Some(ans)", "mul_div_with_signed_numerator: swapped sign"),
        ("crates/model/src/num.rs", "        self.checked_add(divisor)?\n            .checked_sub(&One::one())?\n            .checked_div(divisor)",
         "        self.checked_add(divisor)?\n            .checked_div(divisor)", "checked_round_up_div: dropped the -1"),
        ("crates/model/src/num.rs", "                .checked_sub(&divisor)?\n                .checked_add(&One::one())?", "                .checked_sub(&divisor)?\n                .checked_sub(&One::one())?", "round_up_magnitude_div: +1 -> -1 on the negative branch"),
        ("crates/model/src/num.rs", "        if self >= other {\n            self.diff(other).to_signed()", "        if self > other {\n            self.diff(other).to_signed()", "checked_signed_sub: >= -> > (equivalent mutant: diff is 0)"),
        ("crates/model/src/num.rs", "        self.to_signed()?\n            .checked_neg()\n            .ok_or(crate::Error::Computation(\"to opposite signed\"))", "        self.to_signed()", "to_opposite_signed: negation dropped"),
        ("crates/model/src/utils.rs", "        supply.checked_mul_div(&usd_value, &pool_value)", "        supply.checked_mul_div(&pool_value, &usd_value)", "usd_to_market_token_amount: swapped operands"),
        ("crates/model/src/utils.rs", "    } else if supply.is_zero() && !pool_value.is_zero() {\n        pool_value\n            .checked_add(&usd_value)?", "    } else if supply.is_zero() && !pool_value.is_zero() {\n        pool_value\n            .checked_sub(&usd_value)?", "usd_to_market_token_amount: + -> -"),
        ("crates/model/src/utils.rs", "    pool_value.checked_mul_div(amount, supply)", "    pool_value.checked_mul_div_ceil(amount, supply)", "market_token_amount_to_usd: floor -> ceil"),
        ("crates/model/src/utils.rs", "    if round_up_magnitude {\n        value.checked_mul_div_ceil(&T::UNIT, divisor)", "    if !round_up_magnitude {\n        value.checked_mul_div_ceil(&T::UNIT, divisor)", "div_to_factor: rounding flag inverted"),
        ("crates/model/src/utils.rs", "    value.checked_mul_div(factor, &FixedPointOps::UNIT)", "    value.checked_mul_div_ceil(factor, &FixedPointOps::UNIT)", "apply_factor: floor -> ceil"),
        ("crates/model/src/utils.rs", "    T::UNIT.checked_mul_div_with_signed_numerator(value, divisor)", "    divisor.checked_mul_div_with_signed_numerator(value, &T::UNIT)", "div_to_factor_signed: UNIT and divisor swapped"),
        ("crates/model/src/fixed.rs", "        Some(Self(self.0.checked_mul_div(&v.0, &Self::ONE.0)?))", "        Some(Self(self.0.checked_mul_div_ceil(&v.0, &Self::ONE.0)?))", "Fixed::checked_mul: floor -> ceil"),
        ("crates/model/src/fixed.rs", "    const UNIT: Self = 10u128.pow(DECIMALS as u32);", "    const UNIT: Self = 10u128.pow(DECIMALS as u32 - 1);", "u128 UNIT off by one decimal"),
    ],
    "C14": [
        ("crates/model/src/market/position_impact.rs", "        if distribution_amount > max_distribution_amount {\n            distribution_amount = max_distribution_amount;\n        }",
         "        if distribution_amount < max_distribution_amount {\n            distribution_amount = max_distribution_amount;\n        }", "cap comparison flipped (> -> <)"),
        ("crates/model/src/market/position_impact.rs", "            || current_amount <= *min_position_impact_pool_amount", "            || current_amount < *min_position_impact_pool_amount", "<= -> < (equivalent mutant: excess is 0)"),
        ("crates/model/src/market/position_impact.rs", "            utils::apply_factor(&duration_value, params.distribute_factor())", "            utils::apply_factor(&duration_value, params.min_position_impact_pool_amount())", "wrong field: rate replaced by the minimum"),
        ("crates/model/src/params/position.rs", "    pub fn distribute_factor(&self) -> &T {\n        &self.distribute_factor", "    pub fn distribute_factor(&self) -> &T {\n        &self.min_position_impact_pool_amount", "accessor returns the wrong field"),
    ],
    "C24": [
        ("programs/store/src/states/oracle/validator.rs", "            .checked_sub_unsigned(timestamp_adjustment)", "            .checked_add_unsigned(timestamp_adjustment)", "timestamp adjustment added instead of subtracted"),
        ("programs/store/src/states/oracle/validator.rs", "        require_gte!(expiration_ts, current_ts, CoreError::MaxPriceAgeExceeded);", "        require_gt!(expiration_ts, current_ts, CoreError::MaxPriceAgeExceeded);", "age check >= -> >"),
        ("programs/store/src/states/oracle/validator.rs", "            current_ts.saturating_add_unsigned(self.max_future_timestamp_excess),\n            oracle_ts,", "            current_ts.saturating_add_unsigned(self.max_future_timestamp_excess),\n            ts,", "future check on the adjusted timestamp"),
        ("programs/store/src/states/oracle/validator.rs", "                    unit_prices.min.abs_diff(ref_price),\n                    CoreError::InvalidPriceFeedPrice", "                    unit_prices.max.abs_diff(ref_price),\n                    CoreError::InvalidPriceFeedPrice", "min side of the deviation check dropped"),
        ("programs/store/src/states/oracle/validator.rs", "        self.merge_range(Some(oracle_slot), ts, ts);", "        self.merge_range(Some(oracle_slot), oracle_ts, oracle_ts);", "unadjusted timestamp merged into the range"),
        ("programs/store/src/states/oracle/validator.rs", "        self.max_oracle_ts = self.max_oracle_ts.max(max_oracle_ts);", "        self.max_oracle_ts = self.max_oracle_ts.min(max_oracle_ts);", "merge_range: max -> min"),
        ("programs/store/src/states/oracle/validator.rs", "            self.max_oracle_timestamp_range,\n            range,", "            self.max_oracle_timestamp_range + 1,\n            range,", "finish: range limit off by one"),
        ("programs/store/src/states/oracle/price_map.rs", "        require_gte!(price.max.value, price.min.value, CoreError::InvalidArgument);", "        require_gte!(price.min.value, price.max.value, CoreError::InvalidArgument);", "from_price: min/max comparison swapped"),
        ("programs/store/src/states/oracle/price_map.rs", "        require_neq!(price.min.value, 0, CoreError::InvalidArgument);", "        require_neq!(price.max.value, 0, CoreError::InvalidArgument);", "from_price: zero check on max instead of min"),
    ],
    "C29": [
        ("programs/store/src/states/oracle/mod.rs", "            .with_unit_price(ref_price.checked_add(max_deviation)?, false)?;", "            .with_unit_price(ref_price.checked_add(max_deviation)?, true)?;", "upper bound rounded up to the grid"),
        ("programs/store/src/states/oracle/mod.rs", "            .with_unit_price(ref_price.checked_sub(max_deviation)?, true)?;", "            .with_unit_price(ref_price.checked_sub(max_deviation)?, false)?;", "lower bound rounded down to the grid"),
        ("programs/store/src/states/oracle/mod.rs", "    if unit_prices.max.abs_diff(ref_price) > max_deviation {", "    if unit_prices.max.abs_diff(ref_price) >= max_deviation {", "max: > -> >="),
        ("programs/store/src/states/oracle/mod.rs", "        adjusted_price.get_or_insert(*price).min = price\n            .min", "        adjusted_price.get_or_insert(*price).max = price\n            .min", "clamped min written to the max side"),
        ("programs/store/src/states/oracle/mod.rs", "        None => unit_prices.checked_mid()?,", "        None => unit_prices.min,", "mid reference replaced by the min price"),
        ("programs/store/src/states/oracle/mod.rs", "    let max_deviation = apply_factor::<_, { constants::MARKET_DECIMALS }>(&ref_price, factor)?;", "    let max_deviation = apply_factor::<_, { constants::MARKET_DECIMALS }>(&unit_prices.max, factor)?;", "deviation taken of the max price instead of the reference"),
    ],
    "C30": [
        ("programs/store/src/states/gt.rs", "        let minted_value = size_in_value - remainder;", "        let minted_value = size_in_value;", "get_mint_amount: remainder not subtracted"),
        ("programs/store/src/states/gt.rs", "                    &minting_cost,\n                    &self.minting_cost_grow_factor,", "                    &self.minting_cost,\n                    &self.minting_cost_grow_factor,", "next_minting_cost: growth not compounded"),
        ("programs/store/src/states/gt.rs", "        let new_steps = next_minted / self.grow_step_amount;", "        let new_steps = next_minted.div_ceil(self.grow_step_amount);", "next_minting_cost: steps rounded up"),
        ("programs/store/src/states/gt.rs", "            Ok(rank) => rank + 1,", "            Ok(rank) => rank,", "update_rank: exact threshold hit not counted"),
        ("programs/store/src/states/gt.rs", "        &self.ranks[0..(self.max_rank as usize)]", "        &self.ranks[0..(self.max_rank as usize) / 2]", "ranks(): half of the table"),
    ],
    "C37": [
        ("programs/treasury/src/states/gt_bank.rs", "        require_gte!(denominator, numerator, CoreError::InvalidArgument);", "        require_gte!(numerator, denominator, CoreError::InvalidArgument);", "reserve_balances: proportion check inverted"),
        ("programs/treasury/src/states/gt_bank.rs", "                .checked_mul_div(numerator, denominator)", "                .checked_mul_div_ceil(numerator, denominator)", "reserve_balances: rounded up"),
        ("programs/treasury/src/states/gt_bank.rs", "            balance.amount = reserve_balance;", "            balance.amount -= reserve_balance;", "reserve_balances: complement kept"),
    ],
    "C38": [
        ("programs/liquidity-provider/src/lib.rs", "        u64::MAX\n    } else {\n        gt_raw as u64", "        gt_raw as u64\n    } else {\n        gt_raw as u64", "reward: wrapping instead of saturating"),
        ("programs/liquidity-provider/src/lib.rs", "    let gt_raw = apply_factor::<u128, MARKET_DECIMALS>(&per_sec_factor, &inv_cost_integral)", "    let gt_raw = apply_factor::<u128, MARKET_DECIMALS>(&staked_value_usd, &inv_cost_integral)", "reward: APY factor dropped"),
        ("programs/liquidity-provider/src/lib.rs", "    acc / total_seconds\n", "    acc / (total_seconds + 1)\n", "apy: average over one second too many"),
        ("programs/liquidity-provider/src/lib.rs", "    let capped_full: u128 = full_weeks.min(APY_LAST_INDEX as u128);", "    let capped_full: u128 = full_weeks.min(APY_LAST_INDEX as u128 - 1);", "apy: one full-week bucket dropped at the cap"),
        ("programs/liquidity-provider/src/lib.rs", "    if rem_seconds > 0 {\n        let idx", "    if rem_seconds > 1 {\n        let idx", "apy: a one-second remainder ignored"),
    ],
    "C45": [
        ("programs/store/src/states/glv.rs", "        if self.max_amount == 0 && self.max_value == 0 {", "        if self.max_amount == 0 || self.max_value == 0 {", "validate_balance: && -> || (one cap unset disables both)"),
        ("programs/store/src/states/glv.rs", "                &(new_balance as u128),\n                &market_pool_value.unsigned_abs(),\n                market_token_supply,", "                &(new_balance as u128),\n                market_token_supply,\n                &market_pool_value.unsigned_abs(),", "validate_balance: pool value and supply swapped"),
        ("programs/store/src/states/glv.rs", "                self.max_amount,\n                new_balance,\n                CoreError::ExceedMaxGlvMarketTokenBalanceAmount", "                self.max_amount + 1,\n                new_balance,\n                CoreError::ExceedMaxGlvMarketTokenBalanceAmount", "validate_balance: amount cap off by one"),
        ("programs/store/src/states/glv.rs", "            if market_pool_value.is_negative() {\n                return err!(CoreError::GlvNegativeMarketPoolValue);\n            }", "            if market_pool_value.is_negative() {\n                return Ok(());\n            }", "validate_balance: negative pool value accepted"),
    ],
    "C31": [
        ("programs/store/src/states/store.rs", "            .and_then(|factor| discount_factor_for_referred.checked_add(factor))", "            .and_then(|factor| discount_factor_for_referred.checked_sub(factor))", "referral discount combined with - instead of +"),
        ("programs/store/src/states/store.rs", "                .checked_sub(*discount_factor_for_referred)\n", "                .checked_sub(discount_factor_for_rank)\n", "complement taken of the rank discount"),
        ("programs/store/src/states/gt.rs", "        require_gte!(self.max_rank, rank as u64, CoreError::InvalidArgument);\n        Ok(self.order_fee_discount_factors[rank as usize])",
         "        require_gte!(self.max_rank + 1, rank as u64, CoreError::InvalidArgument);\n        Ok(self.order_fee_discount_factors[rank as usize])", "rank check off by one"),
        ("programs/store/src/states/store.rs", "        if is_referred {\n            let discount_factor_for_referred = self", "        if !is_referred {\n            let discount_factor_for_referred = self", "referral flag inverted"),
    ],
    "C32": [
        ("programs/store/src/ops/order.rs", "        .checked_round_up_div(price.pick_price(false))", "        .checked_round_up_div(price.pick_price(true))", "builder fee converted at the max price"),
        ("programs/store/src/ops/order.rs", "    fee_value\n        .checked_round_up_div(price.pick_price(false))", "    fee_value\n        .checked_div(*price.pick_price(false))", "builder fee rounded down"),
        ("programs/store/src/ops/order.rs", "    fee_amount.min(available)", "    fee_amount.max(available)", "clamp: min -> max"),
        ("programs/store/src/ops/order.rs", "    Ok((collateral_increment_after_fee, payable_amount))", "    Ok((collateral_increment_amount, payable_amount))", "fee not deducted from the increment"),
    ],
    "C26": [
        ("crates/utils/src/price/decimal.rs", "            price.div_ceil(multiplier)\n        } else {\n            price.div(multiplier)", "            price.div(multiplier)\n        } else {\n            price.div_ceil(multiplier)", "with_unit_price: rounding swapped"),
        ("crates/utils/src/price/decimal.rs", "                if exp >= divisor_exp {", "                if exp > divisor_exp {", "try_from_price: >= -> > (equivalent mutant: 10^0)"),
        ("crates/utils/src/price/decimal.rs", "                    price / 10u128.pow(exp as u32)\n", "                    price.div_ceil(10u128.pow(exp as u32))\n", "try_from_price: truncation -> round up"),
        ("crates/utils/src/price/decimal.rs", "        if token_decimals + precision > Self::MAX_DECIMALS {", "        if token_decimals + precision > Self::MAX_DECIMALS + 1 {", "try_from_price: limit check off by one"),
        ("crates/utils/src/price/decimal.rs", "            let mut ans = price / 10u128.pow((multiplier - Self::MAX_DECIMALS) as u32);", "            let mut ans = price / 10u128.pow((multiplier - Self::MAX_DECIMALS) as u32 + 1);", "try_from_price: extra power of ten"),
        ("crates/utils/src/price/decimal.rs", "        Self::MAX_DECIMALS - decimals - precision\n", "        Self::MAX_DECIMALS - decimals - precision + 1\n", "decimal_multiplier_from_precision: off by one"),
        ("crates/utils/src/price/decimal.rs", "        self.value as u128 * self.multiplier()", "        self.value as u128 + self.multiplier()", "to_unit_price: * -> +"),
        ("crates/utils/src/price/mod.rs", "    if divisor_decimals > decimals {", "    if divisor_decimals >= decimals {", "convert_to_u128_storage: > -> >="),
        ("crates/utils/src/price/mod.rs", "        Ok(idx) | Err(idx) => idx as u8,", "        Ok(idx) => idx as u8 + 1,\n        Err(idx) => idx as u8,", "find_divisor_decimals: exact hit off by one"),
        ("crates/utils/src/price/mod.rs", "        U192::from_limbs([18446744073709551516, 18446744073709551615, 99]),", "        U192::from_limbs([18446744073709551517, 18446744073709551615, 99]),", "power bound table entry off by one"),
    ],
}


def git_clean(rel):
    p = subprocess.run(["git", "-C", REPO, "status", "--porcelain", "--", rel], stdout=subprocess.PIPE, text=True)
    return p.stdout.strip() == ""


def main():
    prop = sys.argv[1]
    idx = [int(x) for x in sys.argv[2:]] or list(range(len(MUTATIONS[prop])))
    results = []
    for k in idx:
        rel, old, new, what = MUTATIONS[prop][k]
        path = os.path.join(REPO, rel)
        if not git_clean(rel):
            print(f"[{k}] SKIP {what}: {rel} has uncommitted changes (not mine)")
            continue
        orig = open(path).read()
        if orig.count(old) != 1:
            print(f"[{k}] SKIP {what}: pattern occurs {orig.count(old)} times")
            continue
        t0 = time.time()

        def restore(*_a, path=path, orig=orig):
            open(path, "w").write(orig)
            raise SystemExit(130)
        signal.signal(signal.SIGTERM, restore)
        signal.signal(signal.SIGINT, restore)
        signal.signal(signal.SIGHUP, restore)
        try:
            open(path, "w").write(orig.replace(old, new))
            out = e2.run_property(prop, "quick", os.path.join(e2.TARGET, "logs", f"{prop}-mut"), 0)
        finally:
            open(path, "w").write(orig)
        assert git_clean(rel), f"{rel} not restored!"
        v = [x for x in out["violations"] if not x.get("finding_key")]     # standing (unlisted) finding witnesses do not count
        verdict = "CAUGHT" if v else ("inconclusive" if out["inconclusive"] else "MISSED")
        print(f"[{k}] {verdict:12} {what}  ({time.time() - t0:.0f}s)")
        for x in v[:3]:
            print(f"       VIOLATION {x['obligation']} / {x['label']} inputs={x['inputs']} native={x['native']}")
        for x in out["inconclusive"][:3]:
            print(f"       inconclusive: {x[:300]}")
        results.append((k, what, verdict, len(v)))
    # final rebuild of the replay binary on the restored tree happens on the next normal run
    print(json.dumps(results))


if __name__ == "__main__":
    main()
