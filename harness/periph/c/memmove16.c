/* Bounded model of memmove for the C39 leaderboard harnesses.
 *
 * CBMC's library model of memmove copies through a variable-length array `char src_n[n]`; with a
 * symbolic `n` (Vec::insert / Vec::remove at a data-dependent position) that array is unbounded and
 * the array post-processing alone needs > 13 GB. Vec::insert and Vec::remove shift the tail of the
 * buffer by exactly one element inside one allocation. This model implements exactly that case
 * (same object, |dest - src| == 48 bytes = one LeaderEntry, 16-byte aligned, size a multiple of 16,
 * object of at most MAXW 16-byte words whose start the harness published in vh_memmove_base) with a loop over the *concrete* word positions of the
 * allocation, in the overlap-safe direction, exactly like memmove. Every precondition is asserted,
 * so any other use of memmove makes the harness fail instead of going unnoticed.
 */
#include <stddef.h>
#define MAXW 24
#define SHIFT 3

/* Start of the allocation being shifted, published by the harness (a pointer with the concrete
 * offset 0, which keeps every access below at a concrete offset; checked against `dest`). */
unsigned char *vh_memmove_base;

void *memmove(void *dest, const void *src, size_t n)
{
  size_t od = __CPROVER_POINTER_OFFSET(dest);
  size_t os = __CPROVER_POINTER_OFFSET(src);
  int ok = __CPROVER_same_object(dest, src) && n % 16 == 0 && od % 16 == 0 && os % 16 == 0 &&
           (od == os + 16 * SHIFT || os == od + 16 * SHIFT) && __CPROVER_OBJECT_SIZE(dest) <= 16 * MAXW &&
           __CPROVER_same_object(dest, vh_memmove_base) && __CPROVER_POINTER_OFFSET(vh_memmove_base) == 0;
  __CPROVER_assert(ok, "memmove model: one-element shift inside one small 16-byte aligned allocation");
  __CPROVER_assume(ok);
  unsigned __int128 *base = (unsigned __int128 *)vh_memmove_base;
  size_t wd = od / 16, k = n / 16;
  if(od > os)
  {
    /* shift up: highest word first */
    for(size_t j = MAXW; j > SHIFT; j--)
      if(j - 1 >= wd && j - 1 < wd + k)
        base[j - 1] = base[j - 1 - SHIFT];
  }
  else
  {
    /* shift down: lowest word first */
    for(size_t j = 0; j + SHIFT < MAXW; j++)
      if(j >= wd && j < wd + k)
        base[j] = base[j + SHIFT];
  }
  return dest;
}
