//! C36 — timelocked instructions: approval, delay and instruction fidelity (state level).
//!
//! The zero-copy account structs are `Pod`, so every pre-state is an arbitrary byte image.
//! `InstructionHeader::approve` and `TimelockConfig::increase_delay` are `pub(crate)` and reached
//! through the cfg(gmsol_verif) hooks; `is_executable`, `is_approved`, `approved_at`, `apporver`,
//! `delay` are public. Role re-checks, CPI and buffer loading are outside (see the claim text).
use anchor_lang::prelude::*;
use gmsol_timelock::states::{InstructionHeader, TimelockConfig};
use gmsol_timelock::verif_hooks;
use gmsol_utils::instruction::{
    InstructionAccess, InstructionAccount, InstructionAccountFlag, InstructionAccountFlagContainer,
    InstructionError,
};

const HSIZE: usize = std::mem::size_of::<InstructionHeader>();
const HWORDS: usize = HSIZE / 8;
// field offsets of the `repr(C)` header (asserted against the accessors below)
const OFF_FLAGS: usize = 1;
const OFF_APPROVED_AT: usize = 8;
const OFF_APPROVER: usize = 128;

fn any_header() -> (InstructionHeader, [u8; HSIZE]) {
    let img: [u8; HSIZE] = kani::any();
    (bytemuck::pod_read_unaligned(&img), img)
}

fn words(h: &InstructionHeader) -> [u64; HWORDS] {
    bytemuck::pod_read_unaligned(bytemuck::bytes_of(h))
}

fn words_of(img: &[u8; HSIZE]) -> [u64; HWORDS] {
    bytemuck::pod_read_unaligned(img)
}

fn same_image(a: &[u64; HWORDS], b: &[u64; HWORDS]) -> bool {
    let mut i = 0;
    let mut eq = true;
    while i < HWORDS {
        eq &= a[i] == b[i];
        i += 1;
    }
    eq
}

fn i64_at(img: &[u8; HSIZE], off: usize) -> i64 {
    let mut b = [0u8; 8];
    let mut i = 0;
    while i < 8 {
        b[i] = img[off + i];
        i += 1;
    }
    i64::from_le_bytes(b)
}

fn is_zero32(img: &[u8; HSIZE], off: usize) -> bool {
    let mut i = 0;
    let mut z = true;
    while i < 32 {
        z &= img[off + i] == 0;
        i += 1;
    }
    z
}

//@ prop=C36 tier=quick kind=hold
//@ enc=InstructionHeader::approve (via verif_hooks::approve), InstructionHeader::{is_approved, approved_at, apporver}, InstructionFlagContainer::{get_flag, set_flag}
//@ bound=every 224-byte header image, every 32-byte approver key, every i64 clock value; a second approval with any key and any later clock value; unwind 34
//@ stubs=Clock::get returns the arbitrary unix_timestamp drawn by the harness (stubs::set_clock; any slot); alloc::fmt::format, sol_log, CoreError::name and Display for CoreError do nothing
//@ args=--default-unwind,34
#[kani::proof]
#[kani::stub(<anchor_lang::prelude::Clock as anchor_lang::prelude::SolanaSysvar>::get, crate::stubs::clock_get)]
#[kani::stub(alloc::fmt::format, crate::stubs::fmt_format)]
#[kani::stub(anchor_lang::solana_program::log::sol_log, crate::stubs::sol_log)]
#[kani::stub(gmsol_store::CoreError::name, crate::stubs::core_error_name)]
#[kani::stub(<gmsol_store::CoreError as std::fmt::Display>::fmt, crate::stubs::fmt_core_error)]
fn c36_approve_at_most_once_records_approver_and_time() {
    assert!(HSIZE == 224 && HSIZE % 8 == 0);
    let (mut h, img0) = any_header();
    let was_approved = img0[OFF_FLAGS] & 1 != 0;
    let had_approver = !is_zero32(&img0, OFF_APPROVER);
    // the accessors read the fields the layout constants name
    assert!(h.is_approved() == was_approved);
    assert!(h.apporver().is_some() == had_approver);
    assert!(h.approved_at() == if was_approved { Some(i64_at(&img0, OFF_APPROVED_AT)) } else { None });

    let key: [u8; 32] = kani::any();
    let approver = Pubkey::new_from_array(key);
    let now: i64 = kani::any();
    crate::stubs::set_clock(now, kani::any());

    let r = verif_hooks::approve(&mut h, approver);

    if r.is_ok() {
        // at most once, never by the default key
        assert!(!was_approved, "C36: approved twice");
        assert!(approver != Pubkey::default(), "C36: default pubkey accepted as approver");
        // approver and clock time recorded
        assert!(h.is_approved(), "C36: approval not recorded");
        assert!(h.approved_at() == Some(now), "C36: approval time is not the clock time");
        assert!(h.apporver() == Some(&approver), "C36: approver not recorded");
        // exactly the flag bit, the timestamp and the approver changed
        let mut want = img0;
        want[OFF_FLAGS] |= 1;
        let nb = now.to_le_bytes();
        let mut i = 0;
        while i < 8 {
            want[OFF_APPROVED_AT + i] = nb[i];
            i += 1;
        }
        let mut i = 0;
        while i < 32 {
            want[OFF_APPROVER + i] = key[i];
            i += 1;
        }
        assert!(same_image(&words(&h), &words_of(&want)), "C36: approve touched another field");

        // a second approval (any key, any time) is refused and changes nothing
        let after = words(&h);
        let key2: [u8; 32] = kani::any();
        crate::stubs::set_clock(kani::any(), kani::any());
        let r2 = verif_hooks::approve(&mut h, Pubkey::new_from_array(key2));
        assert!(r2.is_err(), "C36: second approval accepted");
        assert!(same_image(&words(&h), &after), "C36: refused approval changed the header");
        std::mem::forget(r2);
    } else {
        // refused: nothing changes
        assert!(same_image(&words(&h), &words_of(&img0)), "C36: refused approval changed the header");
        // and a fresh, never-approved header is only refused for the default key
        if !was_approved && !had_approver {
            assert!(approver == Pubkey::default(), "C36: fresh header refused a valid approver");
        }
    }
    kani::cover!(r.is_ok());
    kani::cover!(r.is_err() && was_approved);
    kani::cover!(r.is_err() && !was_approved && had_approver);
    kani::cover!(r.is_err() && !was_approved && !had_approver);
    std::mem::forget(r);
}

//@ prop=C36 tier=quick kind=hold
//@ enc=InstructionHeader::{is_executable, approved_at, is_approved}
//@ bound=every 224-byte header image (approved or not, any i64 approval time), every u32 delay, every i64 clock value; unwind 34
//@ stubs=Clock::get returns the arbitrary unix_timestamp drawn by the harness (stubs::set_clock; any slot)
//@ args=--default-unwind,34
#[kani::proof]
#[kani::stub(<anchor_lang::prelude::Clock as anchor_lang::prelude::SolanaSysvar>::get, crate::stubs::clock_get)]
fn c36_executable_iff_approved_and_delay_elapsed() {
    let (h, img) = any_header();
    let delay: u32 = kani::any();
    let now: i64 = kani::any();
    crate::stubs::set_clock(now, kani::any());
    let r = h.is_executable(delay);
    assert!(r.is_ok());
    let got = *r.as_ref().unwrap();
    let approved = img[OFF_FLAGS] & 1 != 0;
    let approved_at = i64_at(&img, OFF_APPROVED_AT);
    // exact arithmetic: now >= approved_at + delay, the sum saturating at i64::MAX
    let due = (approved_at as i128 + delay as i128).min(i64::MAX as i128);
    let want = approved && (now as i128) >= due;
    assert!(got == want, "C36: is_executable differs from approved && now >= approved_at + delay");
    kani::cover!(got);
    kani::cover!(!got && approved && now > approved_at); // approved, delay not yet over
    kani::cover!(!got && !approved && now as i128 >= approved_at as i128 + delay as i128);
    kani::cover!(approved && approved_at as i128 + delay as i128 > i64::MAX as i128); // saturating
    kani::cover!(got && now as i128 == approved_at as i128 + delay as i128 && delay > 0); // boundary second
    std::mem::forget(r);
}

const CSIZE: usize = std::mem::size_of::<TimelockConfig>();
const CWORDS: usize = CSIZE / 8;
const OFF_DELAY: usize = 8;

//@ prop=C36 tier=quick kind=hold
//@ enc=TimelockConfig::increase_delay (via verif_hooks::increase_delay), TimelockConfig::delay
//@ bound=every 304-byte config image (any u32 delay), every u32 delta; unwind 40
//@ stubs=alloc::fmt::format, sol_log, CoreError::name and Display for CoreError do nothing
//@ args=--default-unwind,40
#[kani::proof]
#[kani::stub(alloc::fmt::format, crate::stubs::fmt_format)]
#[kani::stub(anchor_lang::solana_program::log::sol_log, crate::stubs::sol_log)]
#[kani::stub(gmsol_store::CoreError::name, crate::stubs::core_error_name)]
#[kani::stub(<gmsol_store::CoreError as std::fmt::Display>::fmt, crate::stubs::fmt_core_error)]
fn c36_delay_only_increases() {
    assert!(CSIZE == 304);
    let img0: [u8; CSIZE] = kani::any();
    let mut c: TimelockConfig = bytemuck::pod_read_unaligned(&img0);
    let d0 = u32::from_le_bytes([img0[OFF_DELAY], img0[OFF_DELAY + 1], img0[OFF_DELAY + 2], img0[OFF_DELAY + 3]]);
    assert!(c.delay() == d0);
    let delta: u32 = kani::any();
    let r = verif_hooks::increase_delay(&mut c, delta);
    let sum = d0 as u64 + delta as u64;
    let mut want = img0;
    match &r {
        Ok(n) => {
            assert!(sum <= u32::MAX as u64, "C36: delay wrapped");
            assert!(*n as u64 == sum && c.delay() == *n, "C36: new delay is not old + delta");
            assert!(c.delay() >= d0, "C36: delay decreased");
            let b = (sum as u32).to_le_bytes();
            let mut i = 0;
            while i < 4 {
                want[OFF_DELAY + i] = b[i];
                i += 1;
            }
        }
        Err(_) => {
            assert!(sum > u32::MAX as u64, "C36: a representable increase was refused");
            assert!(c.delay() == d0, "C36: failed increase changed the delay");
        }
    }
    // nothing but the delay moves
    let a: [u64; CWORDS] = bytemuck::pod_read_unaligned(bytemuck::bytes_of(&c));
    let w: [u64; CWORDS] = bytemuck::pod_read_unaligned(&want);
    let mut i = 0;
    while i < CWORDS {
        assert!(a[i] == w[i], "C36: increase_delay touched another field");
        i += 1;
    }
    kani::cover!(r.is_ok() && delta > 0);
    kani::cover!(r.is_ok() && delta == 0);
    kani::cover!(r.is_err());
    std::mem::forget(r);
}

// ------------------------------------------------------------------------------------------
// to_instruction
// ------------------------------------------------------------------------------------------

/// A buffer with `N` accounts and two data bytes; the trait's provided method `to_instruction`
/// (crates/utils/src/instruction.rs) is the subject, the accessors are the environment.
struct Buf<const N: usize> {
    wallet: Option<Pubkey>,
    program: Pubkey,
    data: [u8; 2],
    accounts: [InstructionAccount; N],
}

impl<const N: usize> InstructionAccess for Buf<N> {
    fn wallet(&self) -> std::result::Result<Pubkey, InstructionError> {
        self.wallet.ok_or(InstructionError::FailedToGetWallet)
    }
    fn program_id(&self) -> &Pubkey {
        &self.program
    }
    fn data(&self) -> &[u8] {
        &self.data
    }
    fn num_accounts(&self) -> usize {
        N
    }
    fn accounts(&self) -> impl Iterator<Item = &InstructionAccount> {
        self.accounts.iter()
    }
}

/// Pubkeys from a 256-element universe (byte 0 symbolic, the rest zero).
fn pk(b: u8) -> Pubkey {
    let mut k = [0u8; 32];
    k[0] = b;
    Pubkey::new_from_array(k)
}

fn to_instruction_is_faithful<const N: usize>() {
    let kb: [u8; N] = kani::any();
    let fb: [u8; N] = kani::any();
    let wallet_b: u8 = kani::any();
    let has_wallet: bool = kani::any();
    let prog_b: u8 = kani::any();
    let accounts: [InstructionAccount; N] = core::array::from_fn(|i| InstructionAccount {
        flags: InstructionAccountFlagContainer::from_value(fb[i]),
        pubkey: pk(kb[i]),
    });
    let b = Buf::<N> {
        wallet: if has_wallet { Some(pk(wallet_b)) } else { None },
        program: pk(prog_b),
        data: kani::any(),
        accounts,
    };
    // buffer invariant established by `load_and_init_instruction`: a stored signer flag is only
    // ever set on the executor wallet
    let mut inv = true;
    let mut i = 0;
    while i < N {
        let signer = fb[i] & 1 != 0;
        inv &= !signer || (has_wallet && kb[i] == wallet_b);
        i += 1;
    }
    let mark: bool = kani::any();
    match b.to_instruction(mark) {
        Ok(ix) => {
            assert!(has_wallet || !mark, "C36: wallet lookup failure ignored");
            assert!(ix.program_id == b.program, "C36: program id changed");
            assert!(ix.data.len() == 2 && ix.data[0] == b.data[0] && ix.data[1] == b.data[1], "C36: data changed");
            assert!(ix.accounts.len() == N, "C36: account list length changed");
            let mut i = 0;
            while i < N {
                let m = &ix.accounts[i];
                let signer = fb[i] & 1 != 0; // InstructionAccountFlag::Signer = bit 0
                let writable = fb[i] & 2 != 0; // InstructionAccountFlag::Writable = bit 1
                let is_wallet = has_wallet && kb[i] == wallet_b;
                assert!(m.pubkey == pk(kb[i]), "C36: account key or order changed");
                assert!(m.is_writable == writable, "C36: writable flag changed");
                assert!(m.is_signer == (signer || (mark && is_wallet)), "C36: signer flag is not stored flag or marked wallet");
                if inv {
                    assert!(!m.is_signer || is_wallet, "C36: an account other than the executor wallet is a signer");
                }
                i += 1;
            }
            kani::cover!(mark && N > 0 && ix.accounts[0].is_signer && fb[0] & 1 == 0);
            kani::cover!(!mark);
            kani::cover!(inv && N > 0 && ix.accounts[0].is_signer);
            std::mem::forget(ix);
        }
        Err(_) => {
            assert!(mark && !has_wallet, "C36: to_instruction failed although the wallet is known");
            kani::cover!(true);
        }
    }
}

//@ prop=C36 tier=quick kind=hold
//@ enc=InstructionAccess::to_instruction (provided method), From<&InstructionAccount> for AccountMeta, InstructionAccountFlagContainer::get_flag
//@ bound=exactly 1 account with arbitrary flag byte, keys (account, wallet, program) from a 256-element universe (byte 0 symbolic), 2 arbitrary data bytes, wallet present/absent, both values of mark_executor_wallet_as_signer; unwind 34
//@ stubs=InstructionAccess accessors implemented by a harness struct (array-backed); the real InstructionRef::wallet derives a PDA (sha256) and is not executed
//@ args=--default-unwind,34
#[kani::proof]
fn c36_to_instruction_is_faithful_1_account() {
    to_instruction_is_faithful::<1>();
}

//@ prop=C36 tier=quick kind=hold
//@ enc=InstructionAccess::to_instruction (provided method), From<&InstructionAccount> for AccountMeta, InstructionAccountFlagContainer::get_flag
//@ bound=exactly 2 accounts with arbitrary flag bytes, keys (accounts, wallet, program) from a 256-element universe (byte 0 symbolic), 2 arbitrary data bytes, wallet present/absent, both values of mark_executor_wallet_as_signer; unwind 34
//@ stubs=InstructionAccess accessors implemented by a harness struct (array-backed); the real InstructionRef::wallet derives a PDA (sha256) and is not executed
//@ args=--default-unwind,34
#[kani::proof]
fn c36_to_instruction_is_faithful_2_accounts() {
    to_instruction_is_faithful::<2>();
}

//@ prop=C36 tier=thorough kind=hold
//@ enc=InstructionAccess::to_instruction (provided method), From<&InstructionAccount> for AccountMeta, InstructionAccountFlagContainer::get_flag
//@ bound=exactly 3 accounts with arbitrary flag bytes, keys from a 256-element universe (byte 0 symbolic), 2 arbitrary data bytes, wallet present/absent, both values of mark_executor_wallet_as_signer; unwind 34
//@ stubs=InstructionAccess accessors implemented by a harness struct (array-backed); the real InstructionRef::wallet derives a PDA (sha256) and is not executed
//@ args=--default-unwind,34
#[kani::proof]
fn c36_to_instruction_is_faithful_3_accounts() {
    to_instruction_is_faithful::<3>();
}
