//! Environment stubs shared by the store harnesses (each use is listed in the harness `stubs=` line).
//!
//! The clock is modelled as a value the harness draws with `kani::any()` and publishes with
//! [`set_clock`]; under Kani `Clock::get` is replaced (`#[kani::stub]`) by [`clock_get`], which
//! returns it. Concrete playback does not apply Kani stubs, so when the driver replays a
//! counterexample natively (`--cfg vh_native`) the same value is served through Solana's own
//! `program_stubs::SyscallStubs` hook instead and the real `Clock::get` runs.
use anchor_lang::prelude::*;

static mut NOW: i64 = 0;
static mut SLOT: u64 = 0;

fn current() -> Clock {
    unsafe {
        Clock {
            slot: SLOT,
            epoch_start_timestamp: 0,
            epoch: 0,
            leader_schedule_epoch: 0,
            unix_timestamp: NOW,
        }
    }
}

/// Publish the (arbitrary) current time and slot.
pub fn set_clock(now: i64, slot: u64) {
    unsafe {
        NOW = now;
        SLOT = slot;
    }
    #[cfg(vh_native)]
    native::install();
}

/// Stub body for `<Clock as Sysvar>::get`.
pub fn clock_get() -> std::result::Result<Clock, ProgramError> {
    Ok(current())
}

/// `msg!`/`sol_log` does nothing.
pub fn sol_log(_m: &str) {}

/// `format!` returns an empty string (error messages are not the subject of any property).
///
/// The string owns a one-byte allocation on purpose: with `String::new()` CBMC sometimes reads the
/// zero-capacity constant of the empty `RawVec` as an unconstrained value and then reports a bogus
/// `__rust_dealloc` failure when the caller drops the string (seen with Kani 0.68 / CBMC 6.11).
pub fn fmt_format(_a: std::fmt::Arguments<'_>) -> String {
    String::with_capacity(1)
}

#[cfg(vh_native)]
mod native {
    use anchor_lang::solana_program::program_stubs::{set_syscall_stubs, SyscallStubs};

    struct Env;
    impl SyscallStubs for Env {
        fn sol_get_clock_sysvar(&self, var_addr: *mut u8) -> u64 {
            unsafe { *(var_addr as *mut anchor_lang::prelude::Clock) = super::current() };
            0
        }
        fn sol_log(&self, _m: &str) {}
    }

    pub fn install() {
        let _ = set_syscall_stubs(Box::new(Env));
    }
}

/// `Display` for integers prints nothing (`require_*!` error values are rendered with
/// `to_string()`; rendering a symbolic u128 is 39 symbolic 128-bit divisions).
pub fn fmt_u128(_v: &u128, _f: &mut std::fmt::Formatter<'_>) -> std::fmt::Result {
    Ok(())
}
pub fn fmt_u64(_v: &u64, _f: &mut std::fmt::Formatter<'_>) -> std::fmt::Result {
    Ok(())
}
pub fn fmt_i64(_v: &i64, _f: &mut std::fmt::Formatter<'_>) -> std::fmt::Result {
    Ok(())
}

/// Anchor's `error!(CoreError::X)` calls `x.name()` (a generated match with one `String`
/// allocation per variant) and renders `x.to_string()`; error texts are never the subject.
pub fn core_error_name(_e: &gmsol_store::CoreError) -> String {
    String::new()
}
pub fn fmt_core_error(_e: &gmsol_store::CoreError, _f: &mut std::fmt::Formatter<'_>) -> std::fmt::Result {
    Ok(())
}
pub fn general_error_name(_e: &gmsol_utils::GeneralError) -> String {
    String::new()
}
pub fn fmt_general_error(_e: &gmsol_utils::GeneralError, _f: &mut std::fmt::Formatter<'_>) -> std::fmt::Result {
    Ok(())
}

/// `u128::to_string()` / `u64::to_string()` (used by `require_gte!`/`require_eq!`… to render the
/// compared values) bypass `Display::fmt` through a specialised fast path (`_fmt`); rendering a
/// symbolic u128 is dozens of symbolic 128-bit divisions. Error texts are not the subject.
pub unsafe fn u128_fmt<'a>(_v: u128, _buf: &'a mut [core::mem::MaybeUninit<u8>]) -> &'a str {
    ""
}
pub unsafe fn u64_fmt<'a>(_v: u64, _buf: &'a mut [core::mem::MaybeUninit<u8>]) -> &'a str {
    ""
}

/// Specification of `<u128 as MulDiv>::checked_mul_div` (its exactness is property C01's subject):
/// `floor(x * n / d)`, `None` when `d == 0`. Only defined for operands below 2^32 (the product then
/// fits in u64 and the quotient always fits); the harnesses using this stub bound their operands
/// accordingly, and outside that range the stub panics instead of answering. The arithmetic is
/// done in u64 so that the solver sees a 64-bit divider instead of a 128-bit one.
pub fn mul_div_spec(x: &u128, n: &u128, d: &u128) -> Option<u128> {
    const LIM: u128 = 1 << 32;
    assert!(*x < LIM && *n < LIM && *d < LIM, "mul_div_spec: operands outside the range where the stub is defined");
    if *d == 0 {
        return None;
    }
    let p = (*x as u64) * (*n as u64);
    Some((p / (*d as u64)) as u128)
}
pub fn lp_error_name(_e: &gmsol_liquidity_provider::ErrorCode) -> String {
    String::new()
}
pub fn fmt_lp_error(_e: &gmsol_liquidity_provider::ErrorCode, _f: &mut std::fmt::Formatter<'_>) -> std::fmt::Result {
    Ok(())
}

/// Abstract monotone kernel standing for `<u128 as MulDiv>::checked_mul_div(x, n, d)` in the
/// reward-monotonicity harness (pattern P5, memoised nondeterministic function): the result is an
/// arbitrary `Option<u128>` (`None` = does not fit) that is (a) a function of its arguments and
/// (b) non-decreasing in `x` and in `n` for a fixed `d`, with `None` above every `Some`. That
/// `floor(x*n/d)` has these two properties is arithmetic (and C01's subject); what the harness
/// decides is that the code built on top of it preserves monotonicity.
pub mod monotone_kernel {
    const SLOTS: usize = 4;
    static mut USED: usize = 0;
    static mut XS: [u128; SLOTS] = [0; SLOTS];
    static mut NS: [u128; SLOTS] = [0; SLOTS];
    static mut DS: [u128; SLOTS] = [0; SLOTS];
    static mut RS: [Option<u128>; SLOTS] = [None; SLOTS];

    fn le(a: Option<u128>, b: Option<u128>) -> bool {
        match (a, b) {
            (_, None) => true,
            (None, Some(_)) => false,
            (Some(x), Some(y)) => x <= y,
        }
    }

    pub fn reset() {
        unsafe { USED = 0 };
    }

    pub fn mul_div(x: &u128, n: &u128, d: &u128) -> Option<u128> {
        #[cfg(kani)]
        unsafe {
            assert!(USED < SLOTS, "monotone kernel: more calls than memo slots");
            let r: Option<u128> = if kani::any() { Some(kani::any()) } else { None };
            let mut i = 0;
            while i < SLOTS {
                if i < USED && DS[i] == *d {
                    if XS[i] <= *x && NS[i] <= *n {
                        kani::assume(le(RS[i], r));
                    }
                    if *x <= XS[i] && *n <= NS[i] {
                        kani::assume(le(r, RS[i]));
                    }
                }
                i += 1;
            }
            XS[USED] = *x;
            NS[USED] = *n;
            DS[USED] = *d;
            RS[USED] = r;
            USED += 1;
            return r;
        }
        #[cfg(not(kani))]
        {
            // native replay: the real arithmetic (exact where it fits)
            if *d == 0 {
                return None;
            }
            x.checked_mul(*n).map(|p| p / *d)
        }
    }
}
