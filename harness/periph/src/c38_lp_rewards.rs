//! C38 — LP staking rewards follow the weekly APY schedule.
//!
//! `compute_time_weighted_apy` (real code, via the cfg(gmsol_verif) hook) is compared with the
//! exact per-second average: second `s` (0 <= s < T, T = now - start) of a stake earns the bucket
//! `g[min(s / WEEK, 52)]`; the result must be `floor(sum_s g[..] / T)`. The reference sum is
//! computed bucket-wise in u128 without saturation (it cannot overflow inside the stated bounds:
//! every gradient <= APY_MAX = 200e18 < 2^68 and T < 2^26, so the sum is < 2^94), and the
//! floor-division is stated without dividing: `q*T <= S` and `S - q*T < T`.
use gmsol_liquidity_provider::verif_hooks::{
    calculate_gt_reward_amount, compute_time_weighted_apy, APY_BUCKETS, SECONDS_PER_WEEK,
};
use gmsol_liquidity_provider::APY_MAX;

const W: u128 = SECONDS_PER_WEEK;
const LAST: usize = APY_BUCKETS - 1;

/// Exact number of (gradient x seconds) units earned during the first `t` seconds of a stake.
/// Bucket `i < LAST` covers the seconds `[i*W, (i+1)*W)`, bucket `LAST` everything from `LAST*W` on.
/// `nb` = number of leading buckets that can be touched (`t <= nb*W`, or `nb == 53`).
/// Only one symbolic x symbolic product is needed: all complete weeks contribute `g[i] * W`.
/// No operation can wrap: `g[i] < 2^68`, `t < 2^27`.
fn reference_sum(g: &[u128; APY_BUCKETS], t: u128, nb: usize) -> u128 {
    let mut s: u128 = 0;
    let mut part_g: u128 = 0;
    let mut part_secs: u128 = 0;
    let mut i = 0;
    while i < nb {
        let lo = (i as u128) * W;
        if i == LAST {
            if t > lo {
                part_g = g[LAST];
                part_secs = t - lo;
            }
        } else if t >= lo + W {
            s = s.wrapping_add(g[i].wrapping_mul(W));
        } else if t > lo {
            part_g = g[i];
            part_secs = t - lo;
        }
        i += 1;
    }
    // same operand order and width as the code's own product, so that the solver can match them
    s.wrapping_add(part_g.wrapping_mul(part_secs))
}

const MASK68: u128 = (1u128 << 68) - 1;
const MASK27: u128 = (1u128 << 27) - 1;

/// Arbitrary gradient table: the first `nb` entries (the only ones an elapsed time `<= nb` weeks
/// can touch) are `c << shift` with `c` any 16-bit value, and `<= APY_MAX` (the cap enforced by
/// `update_apy_gradient_*`); the others are any u128.
pub(crate) fn any_gradient(nb: usize, shift: u32) -> [u128; APY_BUCKETS] {
    let mut g: [u128; APY_BUCKETS] = kani::any();
    let mut i = 0;
    while i < nb {
        let c: u8 = kani::any();
        let v = (c as u128) << shift;
        kani::assume(v <= APY_MAX);
        g[i] = v;
        i += 1;
    }
    g
}

fn apy_is_per_second_average(t_min: u128, t_max: u128, nb: usize, shift: u32) {
    assert!(nb == APY_BUCKETS || t_max <= (nb as u128) * W);
    assert!(t_max <= MASK27);
    let g = any_gradient(nb, shift);
    let start: i64 = kani::any();
    let now: i64 = kani::any();
    // assumption: stake_start_time is a unix timestamp (>= 0); `now - stake_start_time` is an
    // unchecked i64 subtraction in the code and overflows only for a negative start.
    kani::assume(start >= 0 && now > start);
    let t = (now as i128 - start as i128) as u128;
    kani::assume(t >= t_min && t <= t_max);

    let q = compute_time_weighted_apy(start, now, &g);

    let s = reference_sum(&g, t, nb);
    assert!(q <= APY_MAX, "C38: average above every bucket value");
    // q < 2^68 and t < 2^27: the product cannot wrap (if the line above fails the run fails anyway)
    let qt = q.wrapping_mul(t);
    assert!(qt <= s, "C38: time-weighted APY above the per-second average");
    assert!(s - qt < t, "C38: time-weighted APY below the floor of the per-second average");

    //COV kani::cover!(t % W == 0 && q > 0); // whole weeks only
    //COV kani::cover!(t % W != 0 && q > 0 && s != qt); // partial week, inexact division
    //COV kani::cover!(t == t_max);
    //COV kani::cover!(t == t_min);
}

//@ prop=C38 tier=quick kind=hold
//@ enc=compute_time_weighted_apy (via verif_hooks)
//@ bound=all 53 gradients arbitrary in [0, APY_MAX = 200e18]; stake start any i64 >= 0 (assumption: unix timestamp), now any i64 > start with elapsed time T in [1 s, 4 weeks] (buckets 5..52 arbitrary u128); unwind 7 with unwinding assertions (the take() loop provably runs <= 4 times)
//@ stubs=none
#[kani::proof]
#[kani::unwind(7)]
fn c38_apy_is_per_second_average_first_4_weeks() {
    apy_is_per_second_average(1, 4 * W, 5, 0);
}

//@ prop=C38 tier=quick kind=hold
//@ enc=compute_time_weighted_apy (via verif_hooks)
//@ bound=all 53 gradients arbitrary in [0, APY_MAX]; start any i64 >= 0, elapsed time T in (51 weeks, 55 weeks] — crosses from the last regular bucket into the "weeks past the last bucket use the last one" branch; unwind 54
//@ stubs=none
#[kani::proof]
#[kani::unwind(54)]
fn c38_apy_is_per_second_average_around_last_bucket() {
    apy_is_per_second_average(51 * W + 1, 55 * W, APY_BUCKETS, 0);
}

//@ prop=C38 tier=thorough kind=hold
//@ enc=compute_time_weighted_apy (via verif_hooks)
//@ bound=all 53 gradients arbitrary in [0, APY_MAX]; start any i64 >= 0, elapsed time T in [1 s, 104 weeks]; unwind 54
//@ stubs=none
#[kani::proof]
#[kani::unwind(54)]
fn c38_apy_is_per_second_average_two_years() {
    apy_is_per_second_average(1, 104 * W, APY_BUCKETS, 0);
}

/// Boundary durations (seconds): around 0, around every week boundary that changes the bucket
/// pattern (first weeks, last regular bucket 51/52, first week past the table 53), mid-week values,
/// and long stakes (2, 10, 68 and 317 years).
const DURATIONS: [u128; 28] = [
    1, 2, 59, W - 1, W, W + 1, W + W / 2, 2 * W - 1, 2 * W, 2 * W + 1, 3 * W + 86_399, 4 * W,
    26 * W + 12_345, 51 * W - 1, 51 * W, 51 * W + 1, 52 * W - 1, 52 * W, 52 * W + 1, 53 * W - 1,
    53 * W, 53 * W + 1, 54 * W, 60 * W + 777, 104 * W, 520 * W + 3, 1u128 << 31, 10_000_000_000,
];

//@ prop=C38 tier=quick kind=hold
//@ enc=compute_time_weighted_apy (via verif_hooks)
//@ bound=all 53 gradients arbitrary in [0, APY_MAX = 200e18] (full width); stake start any i64 >= 0 (assumption: unix timestamp) with now = start + T not overflowing; elapsed time T ranges over the 28 boundary durations listed in DURATIONS (1 s .. 317 years; chosen symbolically) — T is NOT arbitrary here; unwind 54
//@ stubs=none
#[kani::proof]
#[kani::unwind(54)]
fn c38_apy_exact_at_boundary_durations_full_width_gradients() {
    let g = any_gradient_full();
    let k: usize = kani::any();
    kani::assume(k < DURATIONS.len());
    let t = DURATIONS[k];
    let start: i64 = kani::any();
    kani::assume(start >= 0 && (start as u128) + t <= i64::MAX as u128);
    let now = start + t as i64;

    let q = compute_time_weighted_apy(start, now, &g);

    // exact sum, no wrap possible: g < 2^68, t < 2^34; checked anyway
    let s = reference_sum_checked(&g, t);
    assert!(q <= APY_MAX, "C38: average above every bucket value");
    let qt = q.checked_mul(t).unwrap();
    assert!(qt <= s, "C38: time-weighted APY above the per-second average");
    assert!(s - qt < t, "C38: time-weighted APY below the floor of the per-second average");
    kani::cover!(k == 0 && q == g[0] && q > 0);
    kani::cover!(k == DURATIONS.len() - 1 && q > 0);
    kani::cover!(t == 53 * W + 1 && s != qt);
    kani::cover!(t == W + 1 && q != g[0] && q != g[1]);
}

/// All 53 gradients arbitrary in `[0, APY_MAX]` (68 symbolic bits each).
fn any_gradient_full() -> [u128; APY_BUCKETS] {
    let mut g = [0u128; APY_BUCKETS];
    let mut i = 0;
    while i < APY_BUCKETS {
        let lo: u64 = kani::any();
        let hi: u8 = kani::any();
        let v = (lo as u128) | (((hi & 0x0f) as u128) << 64);
        kani::assume(v <= APY_MAX);
        g[i] = v;
        i += 1;
    }
    g
}

/// `reference_sum` over all buckets with overflow-checked arithmetic.
fn reference_sum_checked(g: &[u128; APY_BUCKETS], t: u128) -> u128 {
    let mut s: u128 = 0;
    let mut i = 0;
    while i < APY_BUCKETS {
        let lo = (i as u128) * W;
        // seconds of the stake that fall into bucket i
        let secs = if t <= lo {
            0
        } else if i == LAST {
            t - lo
        } else if t - lo >= W {
            W
        } else {
            t - lo
        };
        s = s.checked_add(g[i].checked_mul(secs).unwrap()).unwrap();
        i += 1;
    }
    s
}

fn one_t(t: u128, g: [u128; APY_BUCKETS]) {
    let start: i64 = kani::any();
    kani::assume(start >= 0 && (start as u128) + t <= i64::MAX as u128);
    let now = start + t as i64;
    let q = compute_time_weighted_apy(start, now, &g);
    let s = reference_sum_checked(&g, t);
    let qt = q.checked_mul(t).unwrap();
    assert!(qt <= s, "C38: time-weighted APY above the per-second average");
    assert!(s - qt < t, "C38: time-weighted APY below the floor of the per-second average");
}
#[kani::proof]
#[kani::unwind(54)]
fn probe_one_t8() {
    one_t(53 * W + 1, any_gradient(APY_BUCKETS, 0));
}
#[kani::proof]
#[kani::unwind(54)]
fn probe_one_t8_start0() {
    let g = any_gradient(APY_BUCKETS, 0);
    let t = 53 * W + 1;
    let q = compute_time_weighted_apy(0, t as i64, &g);
    let s = reference_sum_checked(&g, t);
    let qt = q.checked_mul(t).unwrap();
    assert!(qt <= s, "C38: time-weighted APY above the per-second average");
    assert!(s - qt < t, "C38: time-weighted APY below the floor of the per-second average");
}
