//! C38 — LP staking rewards follow the weekly APY schedule.
//!
//! `compute_time_weighted_apy` (real code, via the cfg(gmsol_verif) hook) is compared with the
//! exact per-second average: second `s` (0 <= s < T, T = now - start) of a stake earns the bucket
//! `g[min(s / WEEK, 52)]`; the result must be `floor(sum_s g[..] / T)`. The reference sum is
//! computed bucket-wise with overflow-checked u128 arithmetic, and the floor-division is stated
//! without dividing: `q*T <= S` and `S - q*T < T`.
//!
//! What the solver can decide here is limited by the code's arithmetic: 53 saturating u128
//! multiplications (each a 256-bit multiplier for CBMC) followed by a u128 division by the symbolic
//! duration. With a symbolic duration the final equivalence does not finish even for 8-bit
//! gradients (kept as tier=experimental); the harnesses that run fix the duration per harness and
//! keep the whole gradient table symbolic.
use gmsol_liquidity_provider::verif_hooks::{
    calculate_gt_reward_amount, compute_time_weighted_apy, APY_BUCKETS, SECONDS_PER_WEEK,
};
use gmsol_liquidity_provider::APY_MAX;

/// A week, in seconds (stated independently of the program's constant, which is compared with it).
const W: u128 = 7 * 24 * 3600;
const LAST: usize = APY_BUCKETS - 1;

/// Exact number of (gradient x seconds) units earned during the first `t` seconds of a stake.
/// Second `s` belongs to week `s / W`; week `w` earns bucket `min(w, LAST)`. Buckets below `LAST`
/// own exactly one week; bucket `LAST` owns every week from `LAST` on, counted as a number of
/// complete weeks plus a remainder (the products are formed per bucket, complete weeks first, so
/// that the solver meets sums of the same shape as in the code; with a concrete `t` every factor
/// but the gradient is a constant). Overflow-checked: nothing can wrap inside the stated bounds.
fn reference_sum(g: &[u128; APY_BUCKETS], t: u128) -> u128 {
    let mut s: u128 = 0;
    let mut i = 0;
    while i < LAST {
        let lo = (i as u128) * W;
        if t >= lo + W {
            s = s.checked_add(g[i].checked_mul(W).unwrap()).unwrap(); // a complete week
        }
        i += 1;
    }
    let lo = (LAST as u128) * W;
    if t >= lo + W {
        let weeks = (t - lo) / W; // complete weeks served by the last bucket
        s = s.checked_add(g[LAST].checked_mul(W.checked_mul(weeks).unwrap()).unwrap()).unwrap();
    }
    // the incomplete week, if any
    let rem = t % W;
    if rem > 0 {
        let week = t / W;
        let bucket = if week < LAST as u128 { week as usize } else { LAST };
        s = s.checked_add(g[bucket].checked_mul(rem).unwrap()).unwrap();
    }
    s
}

/// All 53 gradients arbitrary below `2^bits`, and `<= APY_MAX` (the cap enforced by
/// `update_apy_gradient_*`). The upper bits are constants for the solver.
fn any_gradient(bits: u32) -> [u128; APY_BUCKETS] {
    let mut g = [0u128; APY_BUCKETS];
    let mask: u128 = if bits >= 128 { u128::MAX } else { (1u128 << bits) - 1 };
    let mut i = 0;
    while i < APY_BUCKETS {
        let lo: u64 = kani::any();
        let hi: u8 = kani::any();
        let v = ((lo as u128) | ((hi as u128) << 64)) & mask;
        kani::assume(v <= APY_MAX);
        g[i] = v;
        i += 1;
    }
    g
}

/// `compute_time_weighted_apy(start, start + t, g)` is the floor of the exact per-second average.
fn apy_is_exact_average(start: i64, t: u128, g: &[u128; APY_BUCKETS]) {
    assert!(start >= 0 && (start as u128) + t <= i64::MAX as u128 && t > 0);
    assert!(SECONDS_PER_WEEK == W, "C38: the program's week is not 604800 seconds");
    let now = start + t as i64;
    let q = compute_time_weighted_apy(start, now, g);
    let s = reference_sum(g, t);
    let qt = q.checked_mul(t);
    assert!(qt.is_some(), "C38: average far above every bucket value");
    let qt = qt.unwrap();
    assert!(qt <= s, "C38: time-weighted APY above the per-second average");
    assert!(s - qt < t, "C38: time-weighted APY below the floor of the per-second average");
    // witnesses: an inexact division needs at least two different bucket weights in play
    kani::cover!(q > 0 && (s != qt || t <= W)); // inexact division (where the duration allows one)
    kani::cover!(q > 0 && s == qt);
}

//@ prop=C38 tier=quick kind=hold
//@ enc=compute_time_weighted_apy (via verif_hooks)
//@ bound=elapsed time T fixed to 1 second (first bucket only); all 53 gradients arbitrary in [0, min(2^8 - 1, APY_MAX)]; stake start fixed to 0; unwind 54
//@ stubs=none
#[kani::proof]
#[kani::unwind(54)]
fn c38_apy_exact_after_1_second_w8() {
    let g = any_gradient(8);
    let t: u128 = 1;
    let start: i64 = 0;
    apy_is_exact_average(start, t, &g);
}

//@ prop=C38 tier=quick kind=hold
//@ enc=compute_time_weighted_apy (via verif_hooks)
//@ bound=elapsed time T fixed to exactly one week (no remainder); all 53 gradients arbitrary in [0, min(2^8 - 1, APY_MAX)]; stake start fixed to 0; unwind 54
//@ stubs=none
#[kani::proof]
#[kani::unwind(54)]
fn c38_apy_exact_after_1_week_w8() {
    let g = any_gradient(8);
    let t: u128 = W;
    let start: i64 = 0;
    apy_is_exact_average(start, t, &g);
}

//@ prop=C38 tier=quick kind=hold
//@ enc=compute_time_weighted_apy (via verif_hooks)
//@ bound=elapsed time T fixed to one week and one second (remainder falls into bucket 1); all 53 gradients arbitrary in [0, min(2^8 - 1, APY_MAX)]; stake start fixed to 0; unwind 54
//@ stubs=none
#[kani::proof]
#[kani::unwind(54)]
fn c38_apy_exact_after_1_week_1_second_w8() {
    let g = any_gradient(8);
    let t: u128 = W + 1;
    let start: i64 = 0;
    apy_is_exact_average(start, t, &g);
}

//@ prop=C38 tier=quick kind=hold
//@ enc=compute_time_weighted_apy (via verif_hooks)
//@ bound=elapsed time T fixed to 52 weeks and 5 seconds (all regular buckets complete, remainder in the last bucket, no extra week); all 53 gradients arbitrary in [0, min(2^8 - 1, APY_MAX)]; stake start fixed to 0; unwind 54
//@ stubs=none
#[kani::proof]
#[kani::unwind(54)]
fn c38_apy_exact_after_52_weeks_5_seconds_w8() {
    let g = any_gradient(8);
    let t: u128 = 52 * W + 5;
    let start: i64 = 0;
    apy_is_exact_average(start, t, &g);
}

//@ prop=C38 tier=quick kind=hold
//@ enc=compute_time_weighted_apy (via verif_hooks)
//@ bound=elapsed time T fixed to 53 weeks and 1 second (one complete week and a remainder past the table); all 53 gradients arbitrary in [0, min(2^8 - 1, APY_MAX)]; stake start fixed to 0; unwind 54
//@ stubs=none
#[kani::proof]
#[kani::unwind(54)]
fn c38_apy_exact_after_53_weeks_1_second_w8() {
    let g = any_gradient(8);
    let t: u128 = 53 * W + 1;
    let start: i64 = 0;
    apy_is_exact_average(start, t, &g);
}

//@ prop=C38 tier=quick kind=hold
//@ enc=compute_time_weighted_apy (via verif_hooks)
//@ bound=elapsed time T fixed to 60 weeks and 777 seconds (8 complete weeks past the table); all 53 gradients arbitrary in [0, min(2^8 - 1, APY_MAX)]; stake start fixed to 0; unwind 54
//@ stubs=none
#[kani::proof]
#[kani::unwind(54)]
fn c38_apy_exact_after_60_weeks_777_seconds_w8() {
    let g = any_gradient(8);
    let t: u128 = 60 * W + 777;
    let start: i64 = 0;
    apy_is_exact_average(start, t, &g);
}

//@ prop=C38 tier=quick kind=hold
//@ enc=compute_time_weighted_apy (via verif_hooks)
//@ bound=elapsed time T fixed to 3 days; all 53 gradients arbitrary in [0, min(2^8 - 1, APY_MAX)]; any stake start in [0, i64::MAX - T] (assumption: unix timestamp >= 0); unwind 54
//@ stubs=none
#[kani::proof]
#[kani::unwind(54)]
fn c38_apy_exact_any_start_3_days_w8() {
    let g = any_gradient(8);
    let t: u128 = 3 * 86_400;
    let start: i64 = kani::any();
    kani::assume(start >= 0 && (start as u128) + t <= i64::MAX as u128);
    apy_is_exact_average(start, t, &g);
}

//@ prop=C38 tier=thorough kind=hold
//@ enc=compute_time_weighted_apy (via verif_hooks)
//@ bound=elapsed time T fixed to one week and one second (remainder falls into bucket 1); all 53 gradients arbitrary in [0, min(2^16 - 1, APY_MAX)]; stake start fixed to 0; unwind 54
//@ stubs=none
#[kani::proof]
#[kani::unwind(54)]
fn c38_apy_exact_after_1_week_1_second_w16() {
    let g = any_gradient(16);
    let t: u128 = W + 1;
    let start: i64 = 0;
    apy_is_exact_average(start, t, &g);
}

//@ prop=C38 tier=thorough kind=hold
//@ enc=compute_time_weighted_apy (via verif_hooks)
//@ bound=elapsed time T fixed to 52 weeks and 5 seconds (all regular buckets complete, remainder in the last bucket, no extra week); all 53 gradients arbitrary in [0, min(2^16 - 1, APY_MAX)]; stake start fixed to 0; unwind 54
//@ stubs=none
#[kani::proof]
#[kani::unwind(54)]
fn c38_apy_exact_after_52_weeks_5_seconds_w16() {
    let g = any_gradient(16);
    let t: u128 = 52 * W + 5;
    let start: i64 = 0;
    apy_is_exact_average(start, t, &g);
}

//@ prop=C38 tier=thorough kind=hold
//@ enc=compute_time_weighted_apy (via verif_hooks)
//@ bound=elapsed time T fixed to 53 weeks and 1 second (one complete week and a remainder past the table); all 53 gradients arbitrary in [0, min(2^16 - 1, APY_MAX)]; stake start fixed to 0; unwind 54
//@ stubs=none
#[kani::proof]
#[kani::unwind(54)]
fn c38_apy_exact_after_53_weeks_1_second_w16() {
    let g = any_gradient(16);
    let t: u128 = 53 * W + 1;
    let start: i64 = 0;
    apy_is_exact_average(start, t, &g);
}

//@ prop=C38 tier=thorough kind=hold
//@ enc=compute_time_weighted_apy (via verif_hooks)
//@ bound=elapsed time T fixed to 60 weeks and 777 seconds (8 complete weeks past the table); all 53 gradients arbitrary in [0, min(2^16 - 1, APY_MAX)]; stake start fixed to 0; unwind 54
//@ stubs=none
#[kani::proof]
#[kani::unwind(54)]
fn c38_apy_exact_after_60_weeks_777_seconds_w16() {
    let g = any_gradient(16);
    let t: u128 = 60 * W + 777;
    let start: i64 = 0;
    apy_is_exact_average(start, t, &g);
}

//@ prop=C38 tier=experimental kind=hold
//@ enc=compute_time_weighted_apy (via verif_hooks)
//@ bound=elapsed time T fixed to 2 weeks and 3 days; all 53 gradients arbitrary in [0, min(2^68 - 1, APY_MAX)] (full width); stake start fixed to 0; unwind 54. Does not finish (> 5000 s)
//@ stubs=none
#[kani::proof]
#[kani::unwind(54)]
fn c38_apy_exact_after_2_weeks_3_days_full_width() {
    let g = any_gradient(68);
    let t: u128 = 2 * W + 3 * 86_400;
    let start: i64 = 0;
    apy_is_exact_average(start, t, &g);
}

//@ prop=C38 tier=experimental kind=hold
//@ enc=compute_time_weighted_apy (via verif_hooks)
//@ bound=any elapsed time T in [1 s, 4 weeks], 8-bit gradients, start 0; unwind 54. Does not finish (> 900 s): the u128 division by a symbolic duration has to be related to the reference product.
//@ stubs=none
#[kani::proof]
#[kani::unwind(54)]
fn c38_apy_exact_any_duration_up_to_4_weeks_w8() {
    let g = any_gradient(8);
    let t: u128 = kani::any();
    kani::assume(t >= 1 && t <= 4 * W);
    apy_is_exact_average(0, t, &g);
}

//@ prop=C38 tier=experimental kind=hold
//@ enc=calculate_gt_reward_amount (via verif_hooks), apply_factor::<u128, 20>, <u128 as MulDiv>::checked_mul_div (ruint U256)
//@ bound=stake values c * 2^64 with c < 2^12, per-second APY factor < 2^43 (200 % / year), cost integral i * 2^64 with i < 2^8; real ruint arithmetic. Does not finish (> 4000 s).
//@ stubs=alloc::fmt::format, sol_log, ErrorCode::name, Display/to_string for ErrorCode / u64 / u128 do nothing
#[kani::proof]
#[kani::unwind(10)]
#[kani::stub(alloc::fmt::format, crate::stubs::fmt_format)]
#[kani::stub(anchor_lang::solana_program::log::sol_log, crate::stubs::sol_log)]
#[kani::stub(gmsol_liquidity_provider::ErrorCode::name, crate::stubs::lp_error_name)]
#[kani::stub(<gmsol_liquidity_provider::ErrorCode as std::fmt::Display>::fmt, crate::stubs::fmt_lp_error)]
#[kani::stub(u128::_fmt, crate::stubs::u128_fmt)]
#[kani::stub(u64::_fmt, crate::stubs::u64_fmt)]
fn c38_reward_monotone_in_stake_real_ruint() {
    let c1: u16 = kani::any();
    let c2: u16 = kani::any();
    kani::assume(c1 <= c2 && c2 < (1 << 12));
    let v1 = (c1 as u128) << 64;
    let v2 = (c2 as u128) << 64;
    let a: u64 = kani::any();
    kani::assume(a < (1 << 43));
    let i: u8 = kani::any();
    let integral = (i as u128) << 64;
    let dur: i64 = kani::any();
    let r1 = calculate_gt_reward_amount(v1, dur, a as u128, integral);
    let r2 = calculate_gt_reward_amount(v2, dur, a as u128, integral);
    if let (Ok(x1), Ok(x2)) = (&r1, &r2) {
        assert!(x1 <= x2, "C38: a larger stake earned less");
        kani::cover!(*x1 < *x2 && *x1 > 0);
    }
    kani::cover!(r1.is_err());
    std::mem::forget(r1);
    std::mem::forget(r2);
}

//@ prop=C38 tier=quick kind=hold
//@ enc=calculate_gt_reward_amount (via verif_hooks), apply_factor::<u128, 20>
//@ bound=every u128 stake value pair v1 <= v2, every u128 cost-integral pair i1 <= i2, every u128 per-second factor, every i64 duration (full width)
//@ stubs=<u128 as MulDiv>::checked_mul_div is an abstract kernel (stubs::monotone_kernel: arbitrary, functional, non-decreasing in both factors, None above every Some) - the harness decides that the code on top of it (factor order, overflow handling, saturation to u64) preserves monotonicity, not the arithmetic itself; alloc::fmt::format, sol_log, ErrorCode::name, Display/to_string for ErrorCode / u64 / u128 do nothing
#[kani::proof]
#[kani::unwind(6)]
#[kani::stub(alloc::fmt::format, crate::stubs::fmt_format)]
#[kani::stub(anchor_lang::solana_program::log::sol_log, crate::stubs::sol_log)]
#[kani::stub(gmsol_liquidity_provider::ErrorCode::name, crate::stubs::lp_error_name)]
#[kani::stub(<gmsol_liquidity_provider::ErrorCode as std::fmt::Display>::fmt, crate::stubs::fmt_lp_error)]
#[kani::stub(u128::_fmt, crate::stubs::u128_fmt)]
#[kani::stub(u64::_fmt, crate::stubs::u64_fmt)]
#[kani::stub(<u128 as gmsol_model::num::MulDiv>::checked_mul_div, crate::stubs::monotone_kernel::mul_div)]
fn c38_reward_never_decreases_with_stake_or_integral() {
    crate::stubs::monotone_kernel::reset();
    let v1: u128 = kani::any();
    let v2: u128 = kani::any();
    let i1: u128 = kani::any();
    let i2: u128 = kani::any();
    kani::assume(v1 <= v2 && i1 <= i2);
    let a: u128 = kani::any();
    let dur: i64 = kani::any();
    let r1 = calculate_gt_reward_amount(v1, dur, a, i1);
    let r2 = calculate_gt_reward_amount(v2, dur, a, i2);
    match (&r1, &r2) {
        (Ok(x1), Ok(x2)) => {
            assert!(x1 <= x2, "C38: a larger stake or a longer cost integral earned less");
            kani::cover!(*x1 < *x2);
            kani::cover!(*x2 == u64::MAX && *x1 < u64::MAX); // saturated
        }
        // the larger position can fail (overflow) where the smaller succeeds, never the other way round
        (Err(_), Ok(_)) => assert!(false, "C38: the smaller position failed where the larger succeeded"),
        _ => {}
    }
    kani::cover!(r1.is_ok() && r2.is_err());
    kani::cover!(r1.is_err() && dur < 0);
    std::mem::forget(r1);
    std::mem::forget(r2);
}
