//! C39 — the competition leaderboard is the top traders by volume; time extensions are bounded.
//!
//! Pattern P2 (one inductive step). The pre-state is an arbitrary `Competition` whose leaderboard
//! satisfies the representation invariant `Inv`:
//!   * at most `MAX_LEADERBOARD_LEN` (5) entries, pairwise distinct addresses, volumes non-increasing,
//!   * every entry shows the latest volume of its trader,
//!   * every participant that is not on the board has volume `<= last entry` when the board is
//!     full and volume `0` when it is not (participants are created with volume 0, a volume only
//!     changes in `OnExecuted::invoke`, which then always calls `update_leaderboard`, and a
//!     non-full board always admits the trader).
//! One real `update_leaderboard` runs for a trader whose cumulative volume did not decrease
//! (`saturating_add` in `invoke`); `Inv` and the property's post-conditions are asserted, with one
//! abstract *other* off-board participant standing for "everyone else".
use anchor_lang::prelude::*;
use gmsol_competition::states::{Competition, LeaderEntry, Participant, MAX_LEADERBOARD_LEN};
use gmsol_competition::OnExecuted;

const N: usize = MAX_LEADERBOARD_LEN as usize;

// Start of the leaderboard allocation, read by the bounded `memmove` model in `c/memmove16.c`
// (linked with `--c-lib`; see the comment there). Native replay uses the real memmove.
#[cfg(not(vh_native))]
extern "C" {
    static mut vh_memmove_base: *mut u8;
}
#[cfg(vh_native)]
#[allow(non_upper_case_globals)]
static mut vh_memmove_base: *mut u8 = std::ptr::null_mut();

/// Capacity of the harness-built leaderboard `Vec` (one spare slot: `insert` never reallocates).
const CAP: usize = N + 1;

/// Addresses are drawn from a 256-element universe: byte 0 symbolic, the rest zero.
pub(crate) fn addr(b: u8) -> Pubkey {
    let mut a = [0u8; 32];
    a[0] = b;
    Pubkey::new_from_array(a)
}

fn tag(p: &Pubkey) -> u8 {
    p.as_ref()[0]
}

pub(crate) fn any_competition(board: Vec<LeaderEntry>) -> Competition {
    Competition {
        bump: kani::any(),
        authority: addr(kani::any()),
        start_time: kani::any(),
        end_time: kani::any(),
        leaderboard: board,
        volume_threshold: kani::any(),
        extension_duration: kani::any(),
        extension_cap: kani::any(),
        extension_triggerer: if kani::any() { Some(addr(kani::any())) } else { None },
        only_count_increase: kani::any(),
        volume_merge_window: kani::any(),
    }
}

/// "Off the board" part of the invariant for a participant with cumulative volume `v`.
fn off_board_ok(board: &[LeaderEntry], v: u128) -> bool {
    if board.len() == N {
        v <= board[N - 1].volume
    } else {
        v == 0
    }
}

fn find(board: &[LeaderEntry], t: u8) -> Option<usize> {
    let mut i = 0;
    while i < N {
        if i < board.len() && tag(&board[i].address) == t {
            return Some(i);
        }
        i += 1;
    }
    None
}

/// One inductive step from an arbitrary board of exactly `len` entries (concrete `len`, so that the
/// `Vec` length is not symbolic; the six harnesses below cover 0..=5).
fn leaderboard_step(len: usize) {
    // ---- pre-state board satisfying Inv
    let tags: [u8; N] = kani::any();
    let vols: [u128; N] = kani::any();
    let mut board: Vec<LeaderEntry> = Vec::with_capacity(CAP);
    unsafe { vh_memmove_base = board.as_mut_ptr() as *mut u8 };
    let mut i = 0;
    while i < N {
        if i < len {
            board.push(LeaderEntry { address: addr(tags[i]), volume: vols[i] });
            if i > 0 {
                kani::assume(vols[i - 1] >= vols[i]);
            }
            let mut j = 0;
            while j < i {
                kani::assume(tags[j] != tags[i]);
                j += 1;
            }
        }
        i += 1;
    }

    // ---- the trader being updated
    let t: u8 = kani::any();
    let pre_pos = find(&board, t);
    let prev: u128 = match pre_pos {
        Some(p) => vols[p], // its entry shows its previous (latest) volume
        None => {
            let v: u128 = kani::any();
            kani::assume(off_board_ok(&board, v));
            v
        }
    };
    let new: u128 = kani::any();
    kani::assume(new >= prev);
    let part = Participant {
        bump: kani::any(),
        competition: addr(kani::any()),
        trader: addr(t),
        volume: new,
        last_updated_at: kani::any(),
        merged_volume: kani::any(),
    };

    // ---- everyone else who is off the board
    let o: u8 = kani::any();
    kani::assume(o != t && find(&board, o).is_none());
    let o_vol: u128 = kani::any();
    kani::assume(off_board_ok(&board, o_vol));

    let mut comp = any_competition(board);
    let (end0, start0, trig0) = (comp.end_time, comp.start_time, comp.extension_triggerer.is_some());

    OnExecuted::verif_update_leaderboard(&mut comp, &part);

    let post = &comp.leaderboard;
    let plen = post.len();
    // at most five entries, never fewer than before
    assert!(plen <= N, "C39: more than five entries");
    assert!(plen >= len, "C39: board shrank");
    // non-increasing volumes, distinct traders
    let mut i = 0;
    while i < N {
        if i < plen {
            if i > 0 {
                assert!(post[i - 1].volume >= post[i].volume, "C39: board not sorted by volume");
            }
            let mut j = 0;
            while j < i {
                assert!(tag(&post[j].address) != tag(&post[i].address), "C39: duplicate trader on the board");
                j += 1;
            }
            // every entry is the trader with its latest volume, or an untouched old entry
            let ti = tag(&post[i].address);
            if ti == t {
                assert!(post[i].volume == new, "C39: trader not shown with latest volume");
                assert!(post[i].address == part.trader, "C39: trader address altered");
            } else {
                match find_pre(&tags, len, ti) {
                    Some(p) => assert!(post[i].volume == vols[p], "C39: another trader's volume changed"),
                    None => assert!(false, "C39: unknown address appeared on the board"),
                }
            }
        }
        i += 1;
    }
    let post_pos = find(post, t);
    // the trader, if left off, has no more volume than the last entry of a full board
    if post_pos.is_none() {
        assert!(plen == N && new <= post[N - 1].volume, "C39: trader left off although it beats the last entry");
    }
    // every previous entry is still there, or was evicted from a full board with volume <= last
    let mut i = 0;
    while i < N {
        if i < len && tags[i] != t {
            if find(post, tags[i]).is_none() {
                assert!(plen == N && vols[i] <= post[N - 1].volume, "C39: evicted entry beats the last entry");
            }
        }
        i += 1;
    }
    // everyone else off the board stays off and still satisfies the invariant
    assert!(find(post, o).is_none());
    assert!(off_board_ok(post, o_vol), "C39: an off-board participant beats the last entry");
    // nothing else in the competition account moves
    assert!(comp.end_time == end0 && comp.start_time == start0 && comp.extension_triggerer.is_some() == trig0);

    // witnesses (phrased so that each is meaningful for the board lengths where it can occur and
    // trivially reachable otherwise: `len` is a constant in every harness)
    kani::cover!(pre_pos.is_none() && post_pos == Some(0) && (len == 0 || new > vols[0])); // newcomer takes the lead
    kani::cover!(len == N || (pre_pos.is_none() && plen == len + 1)); // non-full board always admits
    kani::cover!(len < N || (pre_pos.is_none() && post_pos == Some(0) && find(post, tags[N - 1]).is_none())); // last evicted
    kani::cover!(len < N || (pre_pos.is_none() && post_pos.is_none())); // newcomer too small for a full board
    kani::cover!(len < N || (pre_pos.is_none() && post_pos == Some(N - 1) && new == vols[N - 2])); // tie with the 4th
    kani::cover!(len < 2 || (pre_pos == Some(len - 1) && post_pos == Some(0))); // climbs from last to first
    kani::cover!(len < 1 || (pre_pos == Some(len - 1) && post_pos == pre_pos && new > prev)); // grows, stays in place
    std::mem::forget(comp);
}

//@ prop=C39 tier=quick kind=hold
//@ enc=OnExecuted::update_leaderboard (via verif_update_leaderboard), Vec::<LeaderEntry>::{remove, insert, truncate}, Iterator::{position, rposition}
//@ bound=one inductive step from any board of exactly 0 entries satisfying the invariant (the six harnesses cover 0..=5); all u128 volumes; addresses from a 256-element universe (byte 0 symbolic, bytes 1..32 zero); trader on or off the board, new volume >= previous volume; one abstract other off-board participant; unwind 34 (32-byte Pubkey compare)
//@ stubs=memmove (Vec::insert/remove tail shift) is the bounded one-element-shift model harness/periph/c/memmove16.c, preconditions asserted, validated against the memmove specification by c39_memmove_model_is_memmove; Vec built with capacity 6 (no reallocation)
//@ args=--default-unwind,34,-Z,c-ffi,--c-lib,c/memmove16.c
#[kani::proof]
#[kani::solver(minisat)]
fn c39_update_leaderboard_step_len0() {
    leaderboard_step(0);
}

//@ prop=C39 tier=quick kind=hold
//@ enc=OnExecuted::update_leaderboard (via verif_update_leaderboard), Vec::<LeaderEntry>::{remove, insert, truncate}, Iterator::{position, rposition}
//@ bound=one inductive step from any board of exactly 1 entries satisfying the invariant (the six harnesses cover 0..=5); all u128 volumes; addresses from a 256-element universe (byte 0 symbolic, bytes 1..32 zero); trader on or off the board, new volume >= previous volume; one abstract other off-board participant; unwind 34 (32-byte Pubkey compare)
//@ stubs=memmove (Vec::insert/remove tail shift) is the bounded one-element-shift model harness/periph/c/memmove16.c, preconditions asserted, validated against the memmove specification by c39_memmove_model_is_memmove; Vec built with capacity 6 (no reallocation)
//@ args=--default-unwind,34,-Z,c-ffi,--c-lib,c/memmove16.c
#[kani::proof]
#[kani::solver(minisat)]
fn c39_update_leaderboard_step_len1() {
    leaderboard_step(1);
}

//@ prop=C39 tier=quick kind=hold
//@ enc=OnExecuted::update_leaderboard (via verif_update_leaderboard), Vec::<LeaderEntry>::{remove, insert, truncate}, Iterator::{position, rposition}
//@ bound=one inductive step from any board of exactly 2 entries satisfying the invariant (the six harnesses cover 0..=5); all u128 volumes; addresses from a 256-element universe (byte 0 symbolic, bytes 1..32 zero); trader on or off the board, new volume >= previous volume; one abstract other off-board participant; unwind 34 (32-byte Pubkey compare)
//@ stubs=memmove (Vec::insert/remove tail shift) is the bounded one-element-shift model harness/periph/c/memmove16.c, preconditions asserted, validated against the memmove specification by c39_memmove_model_is_memmove; Vec built with capacity 6 (no reallocation)
//@ args=--default-unwind,34,-Z,c-ffi,--c-lib,c/memmove16.c
#[kani::proof]
#[kani::solver(minisat)]
fn c39_update_leaderboard_step_len2() {
    leaderboard_step(2);
}

//@ prop=C39 tier=quick kind=hold
//@ enc=OnExecuted::update_leaderboard (via verif_update_leaderboard), Vec::<LeaderEntry>::{remove, insert, truncate}, Iterator::{position, rposition}
//@ bound=one inductive step from any board of exactly 3 entries satisfying the invariant (the six harnesses cover 0..=5); all u128 volumes; addresses from a 256-element universe (byte 0 symbolic, bytes 1..32 zero); trader on or off the board, new volume >= previous volume; one abstract other off-board participant; unwind 34 (32-byte Pubkey compare)
//@ stubs=memmove (Vec::insert/remove tail shift) is the bounded one-element-shift model harness/periph/c/memmove16.c, preconditions asserted, validated against the memmove specification by c39_memmove_model_is_memmove; Vec built with capacity 6 (no reallocation)
//@ args=--default-unwind,34,-Z,c-ffi,--c-lib,c/memmove16.c
#[kani::proof]
#[kani::solver(minisat)]
fn c39_update_leaderboard_step_len3() {
    leaderboard_step(3);
}

//@ prop=C39 tier=quick kind=hold
//@ enc=OnExecuted::update_leaderboard (via verif_update_leaderboard), Vec::<LeaderEntry>::{remove, insert, truncate}, Iterator::{position, rposition}
//@ bound=one inductive step from any board of exactly 4 entries satisfying the invariant (the six harnesses cover 0..=5); all u128 volumes; addresses from a 256-element universe (byte 0 symbolic, bytes 1..32 zero); trader on or off the board, new volume >= previous volume; one abstract other off-board participant; unwind 34 (32-byte Pubkey compare)
//@ stubs=memmove (Vec::insert/remove tail shift) is the bounded one-element-shift model harness/periph/c/memmove16.c, preconditions asserted, validated against the memmove specification by c39_memmove_model_is_memmove; Vec built with capacity 6 (no reallocation)
//@ args=--default-unwind,34,-Z,c-ffi,--c-lib,c/memmove16.c
#[kani::proof]
#[kani::solver(minisat)]
fn c39_update_leaderboard_step_len4() {
    leaderboard_step(4);
}

//@ prop=C39 tier=quick kind=hold
//@ enc=OnExecuted::update_leaderboard (via verif_update_leaderboard), Vec::<LeaderEntry>::{remove, insert, truncate}, Iterator::{position, rposition}
//@ bound=one inductive step from any board of exactly 5 entries satisfying the invariant (the six harnesses cover 0..=5); all u128 volumes; addresses from a 256-element universe (byte 0 symbolic, bytes 1..32 zero); trader on or off the board, new volume >= previous volume; one abstract other off-board participant; unwind 34 (32-byte Pubkey compare)
//@ stubs=memmove (Vec::insert/remove tail shift) is the bounded one-element-shift model harness/periph/c/memmove16.c, preconditions asserted, validated against the memmove specification by c39_memmove_model_is_memmove; Vec built with capacity 6 (no reallocation)
//@ args=--default-unwind,34,-Z,c-ffi,--c-lib,c/memmove16.c
#[kani::proof]
#[kani::solver(minisat)]
fn c39_update_leaderboard_step_len5() {
    leaderboard_step(5);
}

//@ prop=C39 tier=quick kind=hold
//@ enc=(environment model check) c/memmove16.c memmove against the memmove specification, via core::ptr::copy
//@ bound=one-element (48-byte) shifts up and down of any tail of a 6-element buffer of 16-byte aligned 48-byte elements, any start element and element count inside the buffer, arbitrary contents; unwind 34
//@ stubs=this harness validates the memmove model used by the c39_update_leaderboard_step_* harnesses
//@ args=--default-unwind,34,-Z,c-ffi,--c-lib,c/memmove16.c
#[kani::proof]
fn c39_memmove_model_is_memmove() {
    let mut a: [[u128; 3]; CAP] = kani::any();
    let a0 = a;
    let from: usize = kani::any(); // first element of the source region
    let to: usize = kani::any(); // first element of the destination region
    let cnt: usize = kani::any(); // elements moved
    kani::assume(from < CAP && to < CAP && (to == from + 1 || from == to + 1));
    kani::assume(cnt <= CAP && from + cnt <= CAP && to + cnt <= CAP);
    unsafe {
        vh_memmove_base = a.as_mut_ptr() as *mut u8;
        let p = a.as_mut_ptr();
        std::ptr::copy(p.add(from) as *const [u128; 3], p.add(to), cnt);
    }
    let mut e = 0;
    while e < CAP {
        let want = if e >= to && e < to + cnt { a0[e + from - to] } else { a0[e] };
        assert!(a[e][0] == want[0] && a[e][1] == want[1] && a[e][2] == want[2], "memmove model differs from memmove");
        e += 1;
    }
    kani::cover!(to == from + 1 && cnt == CAP - 1);
    kani::cover!(from == to + 1 && cnt == CAP - 1);
    kani::cover!(cnt == 0);
    kani::cover!(to == 3 && from == 2 && cnt == 2);
}

fn find_pre(tags: &[u8; N], len: usize, t: u8) -> Option<usize> {
    let mut i = 0;
    while i < N {
        if i < len && tags[i] == t {
            return Some(i);
        }
        i += 1;
    }
    None
}

//@ prop=C39 tier=quick kind=hold
//@ enc=OnExecuted::extend_competition_time (via verif_extend_competition_time)
//@ bound=all i64 values of now, extension_duration, extension_cap; old end_time any i64 >= 0 (assumption: InitializeCompetition requires end > start > now, and the code computes `end_time - old_end_time` unchecked); any u128 volume; empty leaderboard
//@ stubs=Clock::get returns the arbitrary unix_timestamp drawn by the harness (stubs::set_clock; any slot); alloc::fmt::format and sol_log (msg!) do nothing
//@ args=--default-unwind,34
#[kani::proof]
#[kani::stub(<anchor_lang::prelude::Clock as anchor_lang::prelude::SolanaSysvar>::get, crate::stubs::clock_get)]
#[kani::stub(alloc::fmt::format, crate::stubs::fmt_format)]
#[kani::stub(anchor_lang::solana_program::log::sol_log, crate::stubs::sol_log)]
fn c39_extension_never_earlier_never_past_cap() {
    let now: i64 = kani::any();
    crate::stubs::set_clock(now, kani::any());
    let mut comp = any_competition(Vec::new());
    kani::assume(comp.end_time >= 0);
    let (end0, start0, dur, cap) = (comp.end_time, comp.start_time, comp.extension_duration, comp.extension_cap);
    let t: u8 = kani::any();
    let part = Participant {
        bump: kani::any(),
        competition: addr(kani::any()),
        trader: addr(t),
        volume: kani::any(),
        last_updated_at: kani::any(),
        merged_volume: kani::any(),
    };
    let r = OnExecuted::verif_extend_competition_time(&mut comp, &part, kani::any());
    assert!(r.is_ok(), "C39: extension failed");
    let end1 = comp.end_time;
    // never earlier
    assert!(end1 >= end0, "C39: end time moved earlier");
    // never past the later of the old end and trigger time + cap (saturating at the i64 range)
    let capped = (now as i128 + cap as i128).clamp(i64::MIN as i128, i64::MAX as i128);
    let limit = capped.max(end0 as i128);
    assert!((end1 as i128) <= limit, "C39: end time moved past max(old end, now + cap)");
    // the triggerer is recorded
    assert!(comp.extension_triggerer.is_some(), "C39: triggerer not recorded");
    assert!(comp.extension_triggerer.unwrap() == part.trader, "C39: wrong triggerer recorded");
    // configuration untouched
    assert!(comp.start_time == start0 && comp.extension_duration == dur && comp.extension_cap == cap);
    assert!(comp.leaderboard.len() == 0);

    kani::cover!(end1 > end0 && (end1 as i128) == capped); // capped by now + cap
    kani::cover!(end1 > end0 && (end1 as i128) == end0 as i128 + dur as i128); // full extension
    kani::cover!(end1 == end0 && dur > 0); // cap already behind the old end
    kani::cover!(end1 == i64::MAX && end0 < i64::MAX); // saturating
    std::mem::forget(r);
    std::mem::forget(comp);
}
