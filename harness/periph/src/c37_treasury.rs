//! C37 — treasury factors stay <= 100 % and the GT bank ledger never over-pays (state level).
//!
//! `Config` and `GtBank` are zero-copy `Pod` structs: pre-states are byte images. The `pub(crate)`
//! transitions are reached through the cfg(gmsol_verif) hooks. The proportional-claim formula
//! `floor(balance * gt / remaining)` is written inline in `CompleteGtExchange::execute` behind token
//! CPIs and is NOT executed here (see the claim text).
use anchor_lang::prelude::*;
use gmsol_treasury::states::{Config, GtBank};
use gmsol_treasury::verif_hooks as hooks;

const UNIT: u128 = gmsol_store::constants::MARKET_USD_UNIT;

// ------------------------------------------------------------------------------------------
// Config factors
// ------------------------------------------------------------------------------------------
const CSIZE: usize = std::mem::size_of::<Config>();
const CWORDS: usize = CSIZE / 8;
const OFF_GT_FACTOR: usize = 80;
const OFF_BUYBACK_FACTOR: usize = 96;

fn u128_at(img: &[u8], off: usize) -> u128 {
    let mut b = [0u8; 16];
    let mut i = 0;
    while i < 16 {
        b[i] = img[off + i];
        i += 1;
    }
    u128::from_le_bytes(b)
}

fn set_factor_keeps_factors_within_unit(buyback: bool) {
    assert!(CSIZE == 368 && UNIT == 100_000_000_000_000_000_000);
    let img0: [u8; CSIZE] = kani::any();
    let mut c: Config = bytemuck::pod_read_unaligned(&img0);
    let (gt0, bb0) = (u128_at(&img0, OFF_GT_FACTOR), u128_at(&img0, OFF_BUYBACK_FACTOR));
    assert!(c.gt_factor() == gt0 && c.buyback_factor() == bb0);
    // invariant: both factors are at most 100 %
    kani::assume(gt0 <= UNIT && bb0 <= UNIT);
    let old = if buyback { bb0 } else { gt0 };
    let f: u128 = kani::any();
    let r = if buyback { hooks::set_buyback_factor(&mut c, f) } else { hooks::set_gt_factor(&mut c, f) };
    let mut want = img0;
    match &r {
        Ok(prev) => {
            assert!(f <= UNIT, "C37: factor above 100% accepted");
            assert!(*prev == old, "C37: previous factor not returned");
            let b = f.to_le_bytes();
            let off = if buyback { OFF_BUYBACK_FACTOR } else { OFF_GT_FACTOR };
            let mut i = 0;
            while i < 16 {
                want[off + i] = b[i];
                i += 1;
            }
        }
        Err(_) => {
            // refused exactly when above 100 % or unchanged
            assert!(f > UNIT || f == old, "C37: valid new factor refused");
        }
    }
    assert!(c.gt_factor() <= UNIT && c.buyback_factor() <= UNIT, "C37: stored factor above 100%");
    assert!((if buyback { c.buyback_factor() } else { c.gt_factor() }) == if r.is_ok() { f } else { old });
    // nothing else moves (in particular the other factor)
    let a: [u64; CWORDS] = bytemuck::pod_read_unaligned(bytemuck::bytes_of(&c));
    let w: [u64; CWORDS] = bytemuck::pod_read_unaligned(&want);
    let mut i = 0;
    while i < CWORDS {
        assert!(a[i] == w[i], "C37: set factor touched another field");
        i += 1;
    }
    kani::cover!(r.is_ok() && f == UNIT);
    kani::cover!(r.is_ok() && f == 0);
    kani::cover!(r.is_err() && f == UNIT + 1);
    kani::cover!(r.is_err() && f == old);
    std::mem::forget(r);
}

//@ prop=C37 tier=quick kind=hold
//@ enc=Config::set_gt_factor (via verif_hooks), Config::{gt_factor, buyback_factor}
//@ bound=every 368-byte config image with both factors <= 10^20 (invariant), every u128 argument; unwind 48
//@ stubs=alloc::fmt::format, sol_log, CoreError::name, Display for CoreError and for u128 (require_*! error values) do nothing
//@ args=--default-unwind,48
#[kani::proof]
#[kani::stub(alloc::fmt::format, crate::stubs::fmt_format)]
#[kani::stub(anchor_lang::solana_program::log::sol_log, crate::stubs::sol_log)]
#[kani::stub(gmsol_store::CoreError::name, crate::stubs::core_error_name)]
#[kani::stub(<gmsol_store::CoreError as std::fmt::Display>::fmt, crate::stubs::fmt_core_error)]
#[kani::stub(<u128 as std::fmt::Display>::fmt, crate::stubs::fmt_u128)]
#[kani::stub(u128::_fmt, crate::stubs::u128_fmt)]
fn c37_set_gt_factor_at_most_unit() {
    set_factor_keeps_factors_within_unit(false);
}

//@ prop=C37 tier=quick kind=hold
//@ enc=Config::set_buyback_factor (via verif_hooks), Config::{gt_factor, buyback_factor}
//@ bound=every 368-byte config image with both factors <= 10^20 (invariant), every u128 argument; unwind 48
//@ stubs=alloc::fmt::format, sol_log, CoreError::name, Display for CoreError and for u128 (require_*! error values) do nothing
//@ args=--default-unwind,48
#[kani::proof]
#[kani::stub(alloc::fmt::format, crate::stubs::fmt_format)]
#[kani::stub(anchor_lang::solana_program::log::sol_log, crate::stubs::sol_log)]
#[kani::stub(gmsol_store::CoreError::name, crate::stubs::core_error_name)]
#[kani::stub(<gmsol_store::CoreError as std::fmt::Display>::fmt, crate::stubs::fmt_core_error)]
#[kani::stub(<u128 as std::fmt::Display>::fmt, crate::stubs::fmt_u128)]
#[kani::stub(u128::_fmt, crate::stubs::u128_fmt)]
fn c37_set_buyback_factor_at_most_unit() {
    set_factor_keeps_factors_within_unit(true);
}

// ------------------------------------------------------------------------------------------
// GT bank
// ------------------------------------------------------------------------------------------
const BSIZE: usize = std::mem::size_of::<GtBank>();
const OFF_FLAGS: usize = 2;
const OFF_REMAINING: usize = 80;
const OFF_BALANCES: usize = 344;
const ENTRY: usize = 104; // key [u8; 32] + TokenBalance { amount u64, receiver_vault_out u64, reserved [u8; 56] }
const OFF_COUNT: usize = OFF_BALANCES + 16 * ENTRY + 4;
/// Tokens in the harness-built bank.
const MAXN: usize = 2;

fn pk(b: u8) -> Pubkey {
    let mut k = [0u8; 32];
    k[0] = b;
    Pubkey::new_from_array(k)
}

/// Symbolic model of the part of the bank the harness controls.
#[derive(Clone, Copy)]
struct Model {
    n: usize,
    keys: [u8; MAXN],
    amounts: [u64; MAXN],
    outs: [u64; MAXN],
    remaining: u64,
    flags: u8,
}

impl Model {
    fn find(&self, k: u8) -> Option<usize> {
        let mut i = 0;
        while i < MAXN {
            if i < self.n && self.keys[i] == k {
                return Some(i);
            }
            i += 1;
        }
        None
    }
}

fn put(img: &mut [u8], off: usize, bytes: &[u8]) {
    let mut i = 0;
    while i < bytes.len() {
        img[off + i] = bytes[i];
        i += 1;
    }
}

/// A bank with exactly `n <= MAXN` tokens (`n` is a constant of the calling harness: the map's
/// binary search then runs a concrete number of rounds): keys from a 256-element universe (byte 0 symbolic) in strictly
/// ascending order (the fixed-map invariant), arbitrary u64 balances below `amount_bound`,
/// arbitrary remaining GT, arbitrary flag byte; everything else zero.
fn any_bank(n: usize, amount_bound: u64) -> (GtBank, Model) {
    any_bank_with_keys(n, amount_bound, kani::any())
}

/// Same, with the given token keys (byte 0 of each key).
fn any_bank_with_keys(n: usize, amount_bound: u64, keys: [u8; MAXN]) -> (GtBank, Model) {
    assert!(BSIZE == 2016 && n <= MAXN);
    let mut m = Model {
        n,
        keys,
        amounts: kani::any(),
        outs: kani::any(),
        remaining: kani::any(),
        flags: kani::any(),
    };
    let mut bank: GtBank = bytemuck::Zeroable::zeroed();
    {
        let img = bytemuck::bytes_of_mut(&mut bank);
        img[OFF_FLAGS] = m.flags;
        put(img, OFF_REMAINING, &m.remaining.to_le_bytes());
        put(img, OFF_COUNT, &(m.n as u32).to_le_bytes());
        let mut i = 0;
        while i < MAXN {
            if i < m.n {
                if i > 0 {
                    kani::assume(m.keys[i - 1] < m.keys[i]);
                }
                kani::assume(m.amounts[i] <= amount_bound);
                let off = OFF_BALANCES + i * ENTRY;
                img[off] = m.keys[i];
                put(img, off + 32, &m.amounts[i].to_le_bytes());
                put(img, off + 40, &m.outs[i].to_le_bytes());
            }
            i += 1;
        }
    }
    // the layout constants name the fields the accessors read
    assert!(bank.num_tokens() == m.n);
    assert!(hooks::remaining_confirmed_gt_amount(&bank) == m.remaining);
    assert!(bank.is_confirmed() == (m.flags & 2 != 0));
    (bank, m)
}

/// Balance of token `p`, read from the account image at the layout offsets (validated against the
/// real accessors by `c37_bank_layout_matches_accessors`). Up to `MAXN + 1` entries are inspected.
///
/// Tool limitation (Kani 0.68 / CBMC 6.11): a 32-byte key comparison through an element reference
/// with a *symbolic* index into `GtBank.balances.data` (an array nested at a non-zero offset of the
/// account struct) reads wrong bytes. `binary_search_by` dereferences such a reference as soon as
/// the map holds two entries, so every harness below that makes the real code *search* the map
/// uses banks with at most one token (all indices concrete); read-back never uses the map's search.
fn read_balance(bank: &GtBank, p: u8) -> Option<u64> {
    let img = bytemuck::bytes_of(bank);
    let count = bank.num_tokens();
    let mut out = None;
    let mut i = 0;
    while i < MAXN + 1 {
        if i < count {
            let off = OFF_BALANCES + i * ENTRY;
            let mut rest_zero = true;
            let mut j = 1;
            while j < 32 {
                rest_zero &= img[off + j] == 0;
                j += 1;
            }
            if img[off] == p && rest_zero {
                let mut a = [0u8; 8];
                let mut j = 0;
                while j < 8 {
                    a[j] = img[off + 32 + j];
                    j += 1;
                }
                out = Some(u64::from_le_bytes(a));
            }
        }
        i += 1;
    }
    out
}

//@ prop=C37 tier=quick kind=hold
//@ enc=(harness self-check) GtBank::{tokens, balances, num_tokens, get_balance, is_confirmed}, remaining_confirmed_gt_amount against the layout offsets used by the C37 harnesses
//@ bound=banks with exactly 2 tokens built by any_bank, arbitrary keys/balances/flags; unwind 34
//@ stubs=none
//@ args=--default-unwind,34
#[kani::proof]
fn c37_bank_layout_matches_accessors() {
    let (bank, m) = any_bank(2, u64::MAX);
    let mut it = bank.balances();
    let e0 = it.next();
    let e1 = it.next();
    let e2 = it.next();
    assert!(e0 == Some((pk(m.keys[0]), m.amounts[0])));
    assert!(e1 == Some((pk(m.keys[1]), m.amounts[1])));
    assert!(e2.is_none());
    assert!(read_balance(&bank, m.keys[0]) == Some(m.amounts[0]));
    assert!(read_balance(&bank, m.keys[1]) == Some(m.amounts[1]));
    // the first entry is also what the map's own search returns (concrete index path)
    let (bank1, m1) = any_bank(1, u64::MAX);
    assert!(bank1.get_balance(&pk(m1.keys[0])) == Some(m1.amounts[0]));
    kani::cover!(m.amounts[0] != m.amounts[1]);
}

/// The probe token `p` (arbitrary) reads as the model says; token count, remaining GT and the
/// confirmed flag are as expected.
fn check_bank(bank: &GtBank, want: &Model, p: u8) {
    assert!(bank.num_tokens() == want.n, "C37: token count differs");
    let got = read_balance(bank, p);
    match want.find(p) {
        Some(i) => assert!(got == Some(want.amounts[i]), "C37: token balance differs from the ledger model"),
        None => assert!(got.is_none(), "C37: unknown token has a balance"),
    }
    assert!(hooks::remaining_confirmed_gt_amount(bank) == want.remaining, "C37: remaining GT differs");
    assert!(bank.is_confirmed() == (want.flags & 2 != 0), "C37: confirmed flag differs");
}

//@ prop=C37 tier=quick kind=hold
//@ enc=GtBank::record_transferred_out (via verif_hooks), GtBank::balances, TokenBalances::{get_mut, binary_search}
//@ bound=banks with 0 or 1 token (key from a 256-element universe; see the tool limitation at read_balance), any u64 balance, any token argument (present or not), any u64 amount, arbitrary probe token; unwind 34
//@ stubs=alloc::fmt::format, sol_log, CoreError::name and Display for CoreError do nothing
//@ args=--default-unwind,34
#[kani::proof]
#[kani::stub(alloc::fmt::format, crate::stubs::fmt_format)]
#[kani::stub(anchor_lang::solana_program::log::sol_log, crate::stubs::sol_log)]
#[kani::stub(gmsol_store::CoreError::name, crate::stubs::core_error_name)]
#[kani::stub(<gmsol_store::CoreError as std::fmt::Display>::fmt, crate::stubs::fmt_core_error)]
fn c37_transfer_out_never_overdraws() {
    transfer_out_step(0);
    transfer_out_step(1);
}

fn transfer_out_step(n: usize) {
    let (mut bank, m) = any_bank(n, u64::MAX);
    let t: u8 = kani::any();
    let amount: u64 = kani::any();
    let p: u8 = kani::any();
    let r = hooks::record_transferred_out(&mut bank, &pk(t), amount);
    let mut want = m;
    let pos = m.find(t);
    if r.is_ok() {
        if amount > 0 {
            assert!(pos.is_some(), "C37: paid out a token the bank does not hold");
            let i = pos.unwrap();
            assert!(m.amounts[i] >= amount, "C37: paid out more than the bank holds");
            want.amounts[i] = m.amounts[i] - amount;
        }
    } else {
        // refused exactly when the bank does not hold enough; nothing changes
        assert!(amount > 0 && (pos.is_none() || m.amounts[pos.unwrap()] < amount), "C37: covered payout refused");
    }
    check_bank(&bank, &want, p);
    kani::cover!(r.is_ok() && amount > 0 && p == t && m.n == 1);
    kani::cover!(r.is_ok() && amount == 0 && pos.is_none());
    kani::cover!(r.is_err() && pos.is_some());
    kani::cover!(r.is_err() && pos.is_none());
    kani::cover!(r.is_ok() && pos.is_some() && m.amounts[pos.unwrap()] == amount && amount > 0); // drains
    std::mem::forget(r);
}

//@ prop=C37 tier=quick kind=hold
//@ enc=GtBank::record_transferred_in (via verif_hooks), TokenBalances::{get, get_mut, insert_with_options, binary_search}, GtBank::balances
//@ bound=(a) empty bank, any token (inserted) and (b) bank with 1 token (constant key) credited again; any u64 balance and amount, arbitrary probe token; a NEW token into a non-empty bank is not covered (tool limitation, see read_balance); unwind 34
//@ stubs=alloc::fmt::format, sol_log, CoreError::name / GeneralError::name and their Display do nothing
//@ args=--default-unwind,34
#[kani::proof]
#[kani::stub(alloc::fmt::format, crate::stubs::fmt_format)]
#[kani::stub(anchor_lang::solana_program::log::sol_log, crate::stubs::sol_log)]
#[kani::stub(gmsol_store::CoreError::name, crate::stubs::core_error_name)]
#[kani::stub(<gmsol_store::CoreError as std::fmt::Display>::fmt, crate::stubs::fmt_core_error)]
#[kani::stub(gmsol_utils::GeneralError::name, crate::stubs::general_error_name)]
#[kani::stub(<gmsol_utils::GeneralError as std::fmt::Display>::fmt, crate::stubs::fmt_general_error)]
fn c37_transfer_in_credits_exactly() {
    transfer_in_step(0);
    transfer_in_step(1);
}

fn transfer_in_step(n: usize) {
    // (b) uses a constant key: with a symbolic one the (infeasible) insert-and-shift path of the map
    // is explored with symbolic indices and exhausts memory
    let (mut bank, m) = if n == 0 { any_bank(0, u64::MAX) } else { any_bank_with_keys(1, u64::MAX, [7, 9]) };
    let t: u8 = if n == 0 { kani::any() } else { 7 };
    let amount: u64 = kani::any();
    let p: u8 = kani::any();
    let r = hooks::record_transferred_in(&mut bank, &pk(t), amount);
    let pos = m.find(t);
    let got = read_balance(&bank, p);
    let old_p = m.find(p).map(|i| m.amounts[i]);
    if r.is_ok() {
        let old_t = pos.map(|i| m.amounts[i]).unwrap_or(0);
        assert!(old_t as u128 + amount as u128 <= u64::MAX as u128, "C37: balance wrapped");
        if p == t {
            assert!(got == Some(old_t + amount), "C37: credited balance is not old + amount");
        } else {
            assert!(got == old_p, "C37: another token's balance changed");
        }
        assert!(bank.num_tokens() == if pos.is_some() { m.n } else { m.n + 1 });
    } else {
        assert!(pos.is_some() && m.amounts[pos.unwrap()] as u128 + amount as u128 > u64::MAX as u128, "C37: representable credit refused");
        assert!(got == old_p && bank.num_tokens() == m.n, "C37: failed credit changed the ledger");
    }
    assert!(hooks::remaining_confirmed_gt_amount(&bank) == m.remaining);
    kani::cover!(r.is_ok() && pos.is_none() && p == t && amount > 0); // inserted
    kani::cover!(r.is_ok() && pos.is_some() && amount > 0 && p == t); // credited
    kani::cover!(r.is_err());
    std::mem::forget(r);
}

//@ prop=C37 tier=quick kind=hold
//@ enc=GtBank::record_claimed, GtBank::confirm_unchecked, GtBank::remaining_confirmed_gt_amount (via verif_hooks), GtBank::is_confirmed
//@ bound=banks with 0 or 2 tokens (read back through the entry iterator), any u64 remaining GT, any flag byte, any u64 GT amount, arbitrary probe token; optional confirmation followed by one claim; unwind 34
//@ stubs=alloc::fmt::format, sol_log, CoreError::name and Display for CoreError / bool do nothing
//@ args=--default-unwind,34
#[kani::proof]
#[kani::stub(alloc::fmt::format, crate::stubs::fmt_format)]
#[kani::stub(anchor_lang::solana_program::log::sol_log, crate::stubs::sol_log)]
#[kani::stub(gmsol_store::CoreError::name, crate::stubs::core_error_name)]
#[kani::stub(<gmsol_store::CoreError as std::fmt::Display>::fmt, crate::stubs::fmt_core_error)]
fn c37_claims_never_exceed_remaining_confirmed_gt() {
    claims_step(0);
    claims_step(2);
}


fn claims_step(n: usize) {
    let (mut bank, m) = any_bank(n, u64::MAX);
    let p: u8 = kani::any();
    let mut want = m;
    if kani::any() {
        // confirmation: only once, records the confirmed total
        let total: u64 = kani::any();
        let r = hooks::confirm_unchecked(&mut bank, total);
        if r.is_ok() {
            assert!(m.flags & 2 == 0, "C37: bank confirmed twice");
            want.flags |= 2;
            want.remaining = total;
        } else {
            assert!(m.flags & 2 != 0, "C37: first confirmation refused");
        }
        kani::cover!(r.is_ok());
        kani::cover!(r.is_err());
        std::mem::forget(r);
        check_bank(&bank, &want, p);
    }
    let gt: u64 = kani::any();
    let before = want.remaining;
    let r = hooks::record_claimed(&mut bank, gt);
    if r.is_ok() {
        assert!(gt <= before, "C37: claimed more GT than remains confirmed");
        want.remaining = before - gt;
    } else {
        assert!(gt > before, "C37: covered claim refused");
    }
    check_bank(&bank, &want, p);
    kani::cover!(r.is_ok() && gt == before && gt > 0); // last claim drains the remaining GT
    kani::cover!(r.is_ok() && gt < before);
    kani::cover!(r.is_err());
    std::mem::forget(r);
}

/// `reserve_balances(n, d)` on a bank with exactly `tokens` tokens, all operands below `2^bits`.
fn reserve_step(bits: u32, tokens: usize) {
    let bound: u64 = (1u64 << bits) - 1;
    let (mut bank, m) = any_bank(tokens, bound);
    let n: u128 = kani::any();
    let d: u128 = kani::any();
    kani::assume(n <= bound as u128 && d <= bound as u128);
    let r = hooks::reserve_balances(&mut bank, &n, &d);
    let mut any_nonzero = false;
    let mut i = 0;
    while i < MAXN {
        any_nonzero |= i < m.n && m.amounts[i] != 0;
        i += 1;
    }
    if r.is_ok() {
        assert!(n <= d, "C37: reserve proportion above 1 accepted");
    } else {
        // refused: proportion above 1, or 0/0 with something to reserve
        assert!(n > d || (d == 0 && any_nonzero), "C37: valid reserve refused");
    }
    let mut i = 0;
    while i < MAXN {
        if i < m.n {
            let a = m.amounts[i];
            let got = read_balance(&bank, m.keys[i]);
            assert!(got.is_some(), "C37: reserve removed a token");
            let b = got.unwrap();
            if r.is_ok() {
                assert!(b <= a, "C37: reserve increased a balance");
                if a != 0 {
                    // b == floor(a * n / d): 0 <= a*n - b*d < d (all below 2^32: no wrap in u64)
                    let an = a * (n as u64);
                    let bd = b * (d as u64);
                    assert!(bd <= an && an - bd < d as u64, "C37: reserved balance is not floor(balance * n / d)");
                } else {
                    assert!(b == 0);
                }
                kani::cover!(b < a && b > 0);
                kani::cover!(b == 0 && a != 0 && n > 0); // rounds down to zero
                kani::cover!(n == d && b == a && a > 0);
            } else {
                assert!(b == a, "C37: failed reserve changed a balance");
            }
        }
        i += 1;
    }
    assert!(bank.num_tokens() == m.n && hooks::remaining_confirmed_gt_amount(&bank) == m.remaining);
    kani::cover!(r.is_err() && n > d);
    kani::cover!(r.is_err() && d == 0);
    std::mem::forget(r);
}

//@ prop=C37 tier=quick kind=hold
//@ enc=GtBank::reserve_balances (via verif_hooks), TokenBalances::entries_mut
//@ bound=banks with exactly 1 token(s), balances < 2^8, numerator and denominator < 2^8 (any order, incl. 0); every entry read back; unwind 34
//@ stubs=<u128 as MulDiv>::checked_mul_div (ruint U256; its division by a symbolic divisor does not finish in symbolic execution) is replaced by its specification floor(x*n/d) computed in u64 (defined for operands < 2^32; exactness of the real routine is C01); alloc::fmt::format, sol_log, CoreError::name, Display/to_string for CoreError / u64 / u128 do nothing
//@ args=--default-unwind,34
#[kani::proof]
#[kani::stub(alloc::fmt::format, crate::stubs::fmt_format)]
#[kani::stub(anchor_lang::solana_program::log::sol_log, crate::stubs::sol_log)]
#[kani::stub(gmsol_store::CoreError::name, crate::stubs::core_error_name)]
#[kani::stub(<gmsol_store::CoreError as std::fmt::Display>::fmt, crate::stubs::fmt_core_error)]
#[kani::stub(<u128 as std::fmt::Display>::fmt, crate::stubs::fmt_u128)]
#[kani::stub(u128::_fmt, crate::stubs::u128_fmt)]
#[kani::stub(<u64 as std::fmt::Display>::fmt, crate::stubs::fmt_u64)]
#[kani::stub(u64::_fmt, crate::stubs::u64_fmt)]
#[kani::stub(<u128 as gmsol_model::num::MulDiv>::checked_mul_div, crate::stubs::mul_div_spec)]
fn c37_reserve_never_increases_a_balance_1_token_w8() {
    reserve_step(8, 1);
}

//@ prop=C37 tier=quick kind=hold
//@ enc=GtBank::reserve_balances (via verif_hooks), TokenBalances::entries_mut
//@ bound=banks with exactly 2 token(s), balances < 2^8, numerator and denominator < 2^8 (any order, incl. 0); every entry read back; unwind 34
//@ stubs=<u128 as MulDiv>::checked_mul_div (ruint U256; its division by a symbolic divisor does not finish in symbolic execution) is replaced by its specification floor(x*n/d) computed in u64 (defined for operands < 2^32; exactness of the real routine is C01); alloc::fmt::format, sol_log, CoreError::name, Display/to_string for CoreError / u64 / u128 do nothing
//@ args=--default-unwind,34
#[kani::proof]
#[kani::stub(alloc::fmt::format, crate::stubs::fmt_format)]
#[kani::stub(anchor_lang::solana_program::log::sol_log, crate::stubs::sol_log)]
#[kani::stub(gmsol_store::CoreError::name, crate::stubs::core_error_name)]
#[kani::stub(<gmsol_store::CoreError as std::fmt::Display>::fmt, crate::stubs::fmt_core_error)]
#[kani::stub(<u128 as std::fmt::Display>::fmt, crate::stubs::fmt_u128)]
#[kani::stub(u128::_fmt, crate::stubs::u128_fmt)]
#[kani::stub(<u64 as std::fmt::Display>::fmt, crate::stubs::fmt_u64)]
#[kani::stub(u64::_fmt, crate::stubs::u64_fmt)]
#[kani::stub(<u128 as gmsol_model::num::MulDiv>::checked_mul_div, crate::stubs::mul_div_spec)]
fn c37_reserve_never_increases_a_balance_2_tokens_w8() {
    reserve_step(8, 2);
}

//@ prop=C37 tier=experimental kind=hold
//@ enc=GtBank::reserve_balances (via verif_hooks), TokenBalances::entries_mut
//@ bound=banks with exactly 1 token(s), balances < 2^16, numerator and denominator < 2^16 (any order, incl. 0); every entry read back; unwind 34. Does not finish (> 3000 s: 16-bit symbolic division against the reference products)
//@ stubs=<u128 as MulDiv>::checked_mul_div (ruint U256; its division by a symbolic divisor does not finish in symbolic execution) is replaced by its specification floor(x*n/d) computed in u64 (defined for operands < 2^32; exactness of the real routine is C01); alloc::fmt::format, sol_log, CoreError::name, Display/to_string for CoreError / u64 / u128 do nothing
//@ args=--default-unwind,34
#[kani::proof]
#[kani::stub(alloc::fmt::format, crate::stubs::fmt_format)]
#[kani::stub(anchor_lang::solana_program::log::sol_log, crate::stubs::sol_log)]
#[kani::stub(gmsol_store::CoreError::name, crate::stubs::core_error_name)]
#[kani::stub(<gmsol_store::CoreError as std::fmt::Display>::fmt, crate::stubs::fmt_core_error)]
#[kani::stub(<u128 as std::fmt::Display>::fmt, crate::stubs::fmt_u128)]
#[kani::stub(u128::_fmt, crate::stubs::u128_fmt)]
#[kani::stub(<u64 as std::fmt::Display>::fmt, crate::stubs::fmt_u64)]
#[kani::stub(u64::_fmt, crate::stubs::u64_fmt)]
#[kani::stub(<u128 as gmsol_model::num::MulDiv>::checked_mul_div, crate::stubs::mul_div_spec)]
fn c37_reserve_never_increases_a_balance_1_token_w16() {
    reserve_step(16, 1);
}

//@ prop=C37 tier=experimental kind=hold
//@ enc=GtBank::reserve_balances (via verif_hooks), TokenBalances::entries_mut
//@ bound=banks with exactly 2 token(s), balances < 2^16, numerator and denominator < 2^16 (any order, incl. 0); every entry read back; unwind 34. Does not finish (> 3000 s)
//@ stubs=<u128 as MulDiv>::checked_mul_div (ruint U256; its division by a symbolic divisor does not finish in symbolic execution) is replaced by its specification floor(x*n/d) computed in u64 (defined for operands < 2^32; exactness of the real routine is C01); alloc::fmt::format, sol_log, CoreError::name, Display/to_string for CoreError / u64 / u128 do nothing
//@ args=--default-unwind,34
#[kani::proof]
#[kani::stub(alloc::fmt::format, crate::stubs::fmt_format)]
#[kani::stub(anchor_lang::solana_program::log::sol_log, crate::stubs::sol_log)]
#[kani::stub(gmsol_store::CoreError::name, crate::stubs::core_error_name)]
#[kani::stub(<gmsol_store::CoreError as std::fmt::Display>::fmt, crate::stubs::fmt_core_error)]
#[kani::stub(<u128 as std::fmt::Display>::fmt, crate::stubs::fmt_u128)]
#[kani::stub(u128::_fmt, crate::stubs::u128_fmt)]
#[kani::stub(<u64 as std::fmt::Display>::fmt, crate::stubs::fmt_u64)]
#[kani::stub(u64::_fmt, crate::stubs::u64_fmt)]
#[kani::stub(<u128 as gmsol_model::num::MulDiv>::checked_mul_div, crate::stubs::mul_div_spec)]
fn c37_reserve_never_increases_a_balance_2_tokens_w16() {
    reserve_step(16, 2);
}
