//! Kani harnesses over the real peripheral programs: `gmsol-timelock` (C36), `gmsol-treasury` (C37),
//! `gmsol-liquidity-provider` (C38) and `gmsol-competition` (C39).
//! Harness metadata (`//@` lines) is documented in `/verif/harness/utils/src/lib.rs`.
#![allow(clippy::all)]
#![allow(unused)]

#[cfg(kani)]
mod stubs;
#[cfg(kani)]
mod c36_timelock;
#[cfg(kani)]
mod c37_treasury;
#[cfg(kani)]
mod c38_lp_rewards;
#[cfg(kani)]
mod c39_leaderboard;
