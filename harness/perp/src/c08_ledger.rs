//! C08 — market token accounting is conserved and funding payouts stay backed (component level).
//!
//!   (1) Every step of the real `CollateralProcessor` (run from arbitrary intermediate amounts
//!       through the `verif_process` hook) conserves each pool token exactly:
//!       d(liquidity) + d(claimable fees) + d(remaining collateral) + d(output) + d(secondary output)
//!       + d(claimable for holding) + d(claimable for user) + funding kept back == 0 per token.
//!       Funding fees paid from output/collateral are the only amount that leaves the tracked
//!       holdings (they back the claimable funding of the other side); a shortfall is reported
//!       through `on_insufficient_funding_fee_payment`.
//!   (2) Increase: deposit == d(collateral sum) + d(liquidity) + d(claimable fees) + funding paid
//!       (`IncreasePosition::process_collateral`).
//!   (3) Funding indices: for one funding value the amount charged to the whole paying side (index
//!       rounded up, unpacked rounding up) is at least the amount credited to the whole receiving
//!       side (index rounded down, unpacked rounding down).
//! Not decided: the global residual over many positions and funding periods.
use crate::vmarket::*;
use gmsol_model::{
    action::decrease_position::verif_hooks::{verif_process, VerifProcessResult, VerifStep},
    action::update_funding_state::{pack_to_funding_amount_per_size, unpack_to_funding_amount_delta},
    fixed::FixedPointOps,
    num::{Num, Unsigned},
    params::fee::{FundingFees, PositionFees},
    price::Prices,
};
use num_traits::{CheckedSub, Signed, Zero};

fn w<T: Into<u32>>(x: T) -> i32 {
    let v: u32 = x.into();
    v as i32
}

/// Which step is run.
#[derive(Clone, Copy, PartialEq, Eq)]
pub enum StepKind {
    AddPnl,
    AddImpact,
    Funding,
    PayPnl,
    Fees,
    PayImpact,
    Diff,
}

/// Holdings of one token that the processor accounts for.
fn holdings<T, const D: u8>(
    m: &VMarket<T, D>,
    r_collateral: T,
    r_output: T,
    r_secondary: T,
    holding_out: T,
    holding_sec: T,
    user_out: T,
    user_sec: T,
    out_long: bool,
    pnl_long: bool,
    token_long: bool,
) -> i32
where
    T: Unsigned + Copy + Into<u32>,
{
    let mut h = w(*m.liquidity.side(token_long)) + w(*m.claimable_fee.side(token_long));
    if out_long == token_long {
        h += w(r_collateral) + w(r_output) + w(holding_out) + w(user_out);
    }
    if pnl_long == token_long {
        h += w(r_secondary) + w(holding_sec) + w(user_sec);
    }
    h
}

/// Witnesses of one run; each harness places covers on the ones its step can reach.
#[derive(Clone, Copy, Default)]
pub struct StepObs {
    insolvent: bool,
    to_output: bool,
    to_secondary: bool,
    from_collateral: bool,
    from_secondary: bool,
    funding_full: bool,
    funding_shortfall_reported: bool,
    receiver_credited: bool,
    fees_cleared: bool,
    claim_out: bool,
    claim_sec: bool,
    fee_corner: bool,
}

/// How the fee step treats the rounding corner described at `fee_credit_rounding_region`.
#[derive(Clone, Copy, PartialEq, Eq)]
pub enum FeeCorner {
    /// assert exact conservation outside the corner and the bound on the excess credit inside it
    Exclude,
    /// assert exact conservation everywhere (steps that cannot reach the corner)
    Strict,
    /// known-finding witness: assume the corner and assert the strict clause (exact conservation) in it
    StrictInside,
}

fn processor_step_conserves<T, const D: u8>(kind: StepKind, corner: FeeCorner) -> StepObs
where
    T: FixedPointOps<D> + CheckedSub + Copy + kani::Arbitrary + Into<u32> + num_traits::Bounded,
    T::Signed: Num + Copy + kani::Arbitrary + Into<i32>,
{
    let mut m = VMarket::<T, D>::zero();
    m.liquidity = VPool::any();
    m.claimable_fee = VPool::any();
    m.position_impact = VPool { long: kani::any(), short: T::zero() };
    let before = m;
    let out_long: bool = kani::any();
    let pnl_long: bool = kani::any();
    let same = out_long == pnl_long;
    let prices: Prices<T> = any_prices(true);
    let collateral: T = kani::any();
    let output: T = kani::any();
    let secondary: T = kani::any();
    let insolvent_ok: bool = kani::any();

    let signed: T::Signed = kani::any();
    let unsigned: T = kani::any();
    let funding = FundingFees::builder()
        .amount(unsigned)
        .claimable_long_token_amount(T::zero())
        .claimable_short_token_amount(T::zero())
        .build();
    // fees: order fees only, split pool/receiver through the real fee calculation
    let mut fees: PositionFees<T> = PositionFees::default();
    if kind == StepKind::Fees {
        let mut fm = VMarket::<T, D>::zero();
        fm.order_fee_params.negative_impact_fee_factor = kani::any();
        fm.order_fee_params.fee_receiver_factor = kani::any();
        use gmsol_model::PerpMarket;
        let f = fm.order_fee_params().unwrap().base_position_fees(
            prices.collateral_token_price(out_long),
            &unsigned,
            gmsol_model::pool::delta::BalanceChange::Worsened,
        );
        let Ok(f) = f else {
            core::mem::forget(f);
            return StepObs::default();
        };
        fees = f;
    }
    let fees_before = fees;

    let step = match kind {
        StepKind::AddPnl => VerifStep::AddPnlIfPositive(&signed),
        StepKind::AddImpact => VerifStep::AddPriceImpactIfPositive(&signed),
        StepKind::Funding => VerifStep::PayForFundingFees(&funding),
        StepKind::PayPnl => VerifStep::PayForPnlIfNegative(&signed),
        StepKind::Fees => VerifStep::PayForFeesExcludingFunding(&mut fees),
        StepKind::PayImpact => VerifStep::PayForPriceImpactIfNegative(&signed),
        StepKind::Diff => VerifStep::PayForPriceImpactDiff(&unsigned),
    };
    let r = verif_process::<_, D>(
        &mut m, out_long, pnl_long, same, &prices, collateral, output, secondary, insolvent_ok, step,
    );
    let Ok(res) = &r else {
        core::mem::forget(r);
        return StepObs::default();
    };
    let mut obs = StepObs::default();
    obs.insolvent = res.insolvent_close_step.is_some();
    obs.to_output = w(res.output_amount) > w(output);
    obs.to_secondary = w(res.secondary_output_amount) > w(secondary);
    obs.from_collateral = w(res.remaining_collateral_amount) < w(collateral);
    obs.from_secondary = w(res.secondary_output_amount) < w(secondary);
    obs.claim_out = w(*res.for_user.output_token_amount()) > 0;
    obs.claim_sec = w(*res.for_user.secondary_output_token_amount()) > 0;

    // Fee step, rounding corner (inherited from GMX `payForCost`): output + collateral do not cover the
    // fee, the unpaid rest converts to ZERO whole secondary tokens (floor at the price ratio), the cost
    // is then treated as settled and pool + fee receiver are credited with the NOMINAL fee although
    // less was paid. `fee_credit_rounding_region` is exactly that situation.
    let paid_in_collateral_token =
        (w(output) - w(res.output_amount)) + (w(collateral) - w(res.remaining_collateral_amount));
    let nominal_fee = w(*fees_before.order_fees().fee_amounts().fee_amount_for_pool())
        + w(*fees_before.order_fees().fee_amounts().fee_amount_for_receiver());
    let out_min = w(prices.collateral_token_price(out_long).min);
    let pnl_min = w(prices.collateral_token_price(pnl_long).min);
    let fee_credit_rounding_region = kind == StepKind::Fees
        && res.insolvent_close_step.is_none()
        && res.secondary_output_amount == secondary
        && paid_in_collateral_token < nominal_fee
        && w(*m.claimable_fee.side(out_long)) - w(*before.claimable_fee.side(out_long))
            == w(*fees_before.order_fees().fee_amounts().fee_amount_for_receiver())
        && w(*m.liquidity.side(out_long)) - w(*before.liquidity.side(out_long))
            == w(*fees_before.order_fees().fee_amounts().fee_amount_for_pool());
    obs.fee_corner = fee_credit_rounding_region;
    if corner == FeeCorner::StrictInside {
        // everything outside the keyed region is the hold harness's business
        kani::assume(fee_credit_rounding_region);
    }

    let z = T::zero();
    let mut token_long = true;
    let mut k = 0;
    let mut kept_back_total = 0i32;
    while k < 2 {
        let h0 = holdings(&before, collateral, output, secondary, z, z, z, z, out_long, pnl_long, token_long);
        let h1 = holdings(
            &m,
            res.remaining_collateral_amount,
            res.output_amount,
            res.secondary_output_amount,
            *res.for_holding.output_token_amount(),
            *res.for_holding.secondary_output_token_amount(),
            *res.for_user.output_token_amount(),
            *res.for_user.secondary_output_token_amount(),
            out_long,
            pnl_long,
            token_long,
        );
        if kind == StepKind::Funding && out_long == token_long {
            // the only amount that leaves the tracked holdings: funding kept back in the vault
            let kept = h0 - h1;
            assert!(kept >= 0);
            kept_back_total = kept;
        } else if fee_credit_rounding_region && corner == FeeCorner::Exclude {
            if out_long == token_long {
                // holdings of the collateral token grow by the unpaid rest, which is worth less than
                // one whole secondary token and was only reachable with output and collateral exhausted
                let excess = h1 - h0;
                assert!(excess == nominal_fee - paid_in_collateral_token);
                assert!(excess > 0 && excess * out_min < pnl_min);
                assert!(res.output_amount.is_zero() && res.remaining_collateral_amount.is_zero());
            } else {
                assert!(h1 == h0);
            }
        } else {
            assert!(h1 == h0);
        }
        token_long = false;
        k += 1;
    }

    // the index-token impact pool only moves in the impact steps
    if kind != StepKind::AddImpact && kind != StepKind::PayImpact {
        assert!(m.position_impact == before.position_impact);
    }
    // nothing else of the market is written
    let mut expect = before;
    expect.liquidity = m.liquidity;
    expect.claimable_fee = m.claimable_fee;
    expect.position_impact = m.position_impact;
    expect.insufficient_funding_reports = m.insufficient_funding_reports;
    expect.last_insufficient_cost = m.last_insufficient_cost;
    expect.last_insufficient_paid_collateral = m.last_insufficient_paid_collateral;
    expect.last_insufficient_paid_secondary = m.last_insufficient_paid_secondary;
    assert!(m == expect);

    if kind == StepKind::Funding {
        // backed unless reported: without a report the full funding amount was kept back in the
        // collateral token; with a report the shortfall is exactly what the callback was told
        if m.insufficient_funding_reports == 0 {
            assert!(kept_back_total == w(unsigned));
        } else {
            assert!(kept_back_total < w(unsigned));
            assert!(w(m.last_insufficient_cost) == w(unsigned));
            assert!(w(m.last_insufficient_paid_collateral) == kept_back_total);
        }
        obs.funding_full = m.insufficient_funding_reports == 0 && !unsigned.is_zero();
        obs.funding_shortfall_reported = m.insufficient_funding_reports > 0 && res.insolvent_close_step.is_none();
    } else {
        assert!(m.insufficient_funding_reports == 0);
    }
    if kind == StepKind::Fees {
        // fully paid in the collateral token: pool and receiver get exactly their shares
        let cf = w(*m.claimable_fee.side(out_long)) - w(*before.claimable_fee.side(out_long));
        let kept_split = w(*fees.order_fees().fee_amounts().fee_amount_for_receiver())
            == w(*fees_before.order_fees().fee_amounts().fee_amount_for_receiver())
            && w(*fees.order_fees().fee_amounts().fee_amount_for_pool())
                == w(*fees_before.order_fees().fee_amounts().fee_amount_for_pool());
        assert!(cf >= 0);
        if cf > 0 {
            assert!(kept_split);
            assert!(cf == w(*fees_before.order_fees().fee_amounts().fee_amount_for_receiver()));
        }
        obs.receiver_credited = cf > 0;
        obs.fees_cleared = cf == 0 && !kept_split;
    } else {
        assert!(m.claimable_fee == before.claimable_fee);
    }
    core::mem::forget(r);
    obs
}

//@ prop=C08 tier=quick kind=hold
//@ enc=CollateralProcessor::process, Context::add_pnl_if_positive, BaseMarketMutExt::apply_delta
//@ bound=T=u8/i8, DECIMALS=1: every liquidity / fee / impact pool value, intermediate output, secondary output and collateral amount, pnl value, ordered prices, token roles and the insolvent-close switch; one processor step
//@ stubs=none; hook: decrease_position::verif_hooks::verif_process (runs the named step of the real processor from given intermediate amounts)
#[kani::proof]
fn c08_processor_add_pnl_conserves_u8() {
    let o = processor_step_conserves::<u8, 1>(StepKind::AddPnl, FeeCorner::Strict);
    kani::cover!(o.to_output, "profit paid in the collateral token");
    kani::cover!(o.to_secondary, "profit paid in the pnl token");
}

//@ prop=C08 tier=quick kind=hold
//@ enc=CollateralProcessor::process, Context::add_price_impact_if_positive, PositionImpactMarketMutExt::apply_delta_to_position_impact_pool
//@ bound=T=u8/i8, DECIMALS=1: as c08_processor_add_pnl_conserves_u8 with a symbolic positive price impact value
//@ stubs=none; hook: verif_process
#[kani::proof]
fn c08_processor_add_impact_conserves_u8() {
    let o = processor_step_conserves::<u8, 1>(StepKind::AddImpact, FeeCorner::Strict);
    kani::cover!(o.to_output, "impact paid in the collateral token");
    kani::cover!(o.to_secondary, "impact paid in the pnl token");
}

//@ prop=C08 tier=quick kind=hold
//@ enc=CollateralProcessor::process, Context::pay_for_funding_fees, CollateralProcessor::pay_for_cost, State::do_pay_for_cost, PerpMarketMut::on_insufficient_funding_fee_payment
//@ bound=T=u8, DECIMALS=1: as c08_processor_add_pnl_conserves_u8 with a symbolic funding fee amount
//@ stubs=none; hook: verif_process; the market records on_insufficient_funding_fee_payment calls
#[kani::proof]
fn c08_processor_funding_conserves_u8() {
    let o = processor_step_conserves::<u8, 1>(StepKind::Funding, FeeCorner::Strict);
    kani::cover!(o.funding_full, "funding fully collected");
    kani::cover!(o.funding_shortfall_reported, "shortfall covered by the secondary token and reported");
    kani::cover!(o.insolvent, "insolvent close at the funding step");
}

//@ prop=C08 tier=quick kind=hold
//@ enc=CollateralProcessor::process, Context::pay_for_pnl_if_negative, State::do_pay_for_cost, CollateralProcessor::pay_to_primary_pool
//@ bound=T=u8/i8, DECIMALS=1: as c08_processor_add_pnl_conserves_u8 with a symbolic negative pnl value
//@ stubs=none; hook: verif_process
#[kani::proof]
fn c08_processor_pay_pnl_conserves_u8() {
    let o = processor_step_conserves::<u8, 1>(StepKind::PayPnl, FeeCorner::Strict);
    kani::cover!(o.from_collateral, "loss taken from collateral");
    kani::cover!(o.from_secondary, "loss taken from the secondary output");
    kani::cover!(o.insolvent, "insolvent close");
}

//@ prop=C08 tier=quick kind=hold
//@ enc=CollateralProcessor::process, Context::pay_for_fees_excluding_funding, State::do_pay_for_cost, FeeParams::base_position_fees, PositionFees::{for_pool,for_receiver,total_cost_excluding_funding,clear_fees_excluding_funding}
//@ bound=T=u8, DECIMALS=1: as c08_processor_add_pnl_conserves_u8 with order fees computed by the real fee code from a symbolic size, fee factor and receiver factor (no borrowing / liquidation fees). Excluded from exact conservation (and bounded instead): the rounding corner where output and collateral are exhausted, the unpaid rest is worth less than one secondary token and the nominal fee is credited anyway (excess < secondary_price/collateral_price tokens)
//@ stubs=none; hook: verif_process
#[kani::proof]
fn c08_processor_fees_conserves_u8() {
    let o = processor_step_conserves::<u8, 1>(StepKind::Fees, FeeCorner::Exclude);
    kani::cover!(o.receiver_credited, "receiver share credited");
    kani::cover!(o.fees_cleared, "fees cleared: everything to the pool");
    kani::cover!(o.fee_corner, "rounding corner: nominal fee credited although less was paid");
}

//@ prop=C08 tier=quick kind=finding:fee_credit_rounding
//@ enc=CollateralProcessor::process, Context::pay_for_fees_excluding_funding, State::do_pay_for_cost
//@ bound=T=u8, DECIMALS=1: as c08_processor_fees_conserves_u8, restricted to the keyed region `fee_credit_rounding_region`
//@ stubs=none; known-finding witness: assumes the rounding corner and asserts the strict clause (exact per-token conservation) inside it; expected to FAIL while the inherited GMX rounding is in place (pool and fee receiver are credited with the nominal fee although less was paid). Native replay: harness/perp/tests/c08_fee_credit_rounding.rs
#[kani::proof]
fn c08_processor_fees_conserves_strict_u8() {
    let _ = processor_step_conserves::<u8, 1>(StepKind::Fees, FeeCorner::StrictInside);
}

//@ prop=C08 tier=quick kind=hold
//@ enc=CollateralProcessor::process, Context::pay_for_price_impact_if_negative, State::do_pay_for_cost
//@ bound=T=u8/i8, DECIMALS=1: as c08_processor_add_pnl_conserves_u8 with a symbolic negative price impact value
//@ stubs=none; hook: verif_process
#[kani::proof]
fn c08_processor_pay_impact_conserves_u8() {
    let o = processor_step_conserves::<u8, 1>(StepKind::PayImpact, FeeCorner::Strict);
    kani::cover!(o.from_collateral, "impact taken from collateral");
    kani::cover!(o.from_secondary, "impact taken from the secondary output");
}

//@ prop=C08 tier=quick kind=hold
//@ enc=CollateralProcessor::process, Context::pay_for_price_impact_diff, State::do_pay_for_cost, ClaimableCollateral::try_add_amount
//@ bound=T=u8, DECIMALS=1: as c08_processor_add_pnl_conserves_u8 with a symbolic price impact difference
//@ stubs=none; hook: verif_process
#[kani::proof]
fn c08_processor_impact_diff_conserves_u8() {
    let o = processor_step_conserves::<u8, 1>(StepKind::Diff, FeeCorner::Strict);
    kani::cover!(o.claim_out, "impact diff claimable in the collateral token");
    kani::cover!(o.claim_sec, "impact diff claimable in the pnl token");
}

// ------------------------------------------------------------------------------------------------
// (3) funding indices

fn funding_pack_unpack_backed<T, const D: u8>(adjustment: T)
where
    T: FixedPointOps<D> + CheckedSub + Copy + kani::Arbitrary + Into<u32> + num_traits::Bounded,
    T::Signed: Num + Copy + kani::Arbitrary,
{
    let funding_value: T = kani::any();
    let payer_oi: T = kani::any();
    let receiver_oi: T = kani::any();
    let price: T = kani::any();
    kani::assume(!price.is_zero());
    // the funding value of a collateral token is a share of floor(payer_oi * factor / UNIT): it is zero
    // when nobody pays (next_funding_amount_per_size); pack() itself returns 0 for an empty payer side
    kani::assume(!payer_oi.is_zero());
    // indices start anywhere; deltas are added to them
    let payer_index0: T = kani::any();
    let receiver_index0: T = kani::any();

    let payer_delta = pack_to_funding_amount_per_size(&adjustment, &funding_value, &payer_oi, &price, true);
    let receiver_delta = pack_to_funding_amount_per_size(&adjustment, &funding_value, &receiver_oi, &price, false);
    let (Some(pd), Some(rd)) = (payer_delta, receiver_delta) else { return };
    let (Some(pi1), Some(ri1)) = (payer_index0.checked_add(&pd), receiver_index0.checked_add(&rd)) else { return };

    // the whole paying side pays (rounded up), the whole receiving side claims (rounded down)
    let paid = unpack_to_funding_amount_delta(&adjustment, &pi1, &payer_index0, &payer_oi, true);
    let claimed = unpack_to_funding_amount_delta(&adjustment, &ri1, &receiver_index0, &receiver_oi, false);
    let (Some(paid), Some(claimed)) = (paid, claimed) else { return };

    assert!(w(claimed) <= w(paid));
    // both bracket the funding value converted at the price: claimed <= value/price <= paid
    assert!(w(paid) * w(price) >= w(funding_value));
    assert!(w(claimed) * w(price) <= w(funding_value));
    kani::cover!(w(claimed) > 0 && w(claimed) < w(paid), "rounding residual stays in the vault");
    kani::cover!(w(claimed) > 0 && w(claimed) == w(paid), "exactly backed");
}

//@ prop=C08 tier=quick kind=hold
//@ enc=pack_to_funding_amount_per_size, unpack_to_funding_amount_delta
//@ bound=T=u8, DECIMALS=1: every funding value, payer / receiver open interest, price and starting index; packing adjustment 1 (a deployment constant); one funding period, the whole paying side against the whole receiving side (for several positions per side the per-position ceil / floor only widen the gap)
//@ stubs=none
#[kani::proof]
fn c08_funding_pack_unpack_backed_adj1_u8() {
    funding_pack_unpack_backed::<u8, 1>(1);
}

//@ prop=C08 tier=quick kind=hold
//@ enc=pack_to_funding_amount_per_size, unpack_to_funding_amount_delta
//@ bound=T=u8, DECIMALS=1: as c08_funding_pack_unpack_backed_adj1_u8 with packing adjustment 2
//@ stubs=none
#[kani::proof]
fn c08_funding_pack_unpack_backed_adj2_u8() {
    funding_pack_unpack_backed::<u8, 1>(2);
}

// ------------------------------------------------------------------------------------------------
// (2) increase: the deposit is split exactly

//@ prop=C08 tier=quick kind=hold
//@ enc=IncreasePosition::try_new, IncreasePosition::process_collateral, PositionExt::position_fees, FeeParams::base_position_fees, PositionFees::{total_cost_amount,for_pool,for_receiver}, BaseMarketMutExt::{apply_delta,apply_delta_to_claimable_fee_pool}
//@ bound=T=u8, DECIMALS=1: every collateral-sum / liquidity / claimable-fee pool value, order-fee factors incl. discount, pending borrowing and funding fees (factors, per-size indices, adjustment), position, deposit and size delta, any flat index and collateral price, every balance-change kind
//@ stubs=none; hooks: IncreasePosition::verif_process_collateral, verif_with_position. Asserts deposit == d(collateral sum) + d(liquidity) + d(claimable fees) + funding paid for the collateral token and that nothing else moves (same helper as c07_increase_collateral_sum_exact_all_fees_u8)
//@ timeout=1500
#[kani::proof]
fn c08_increase_deposit_split_exact_u8() {
    crate::c07_open_interest::increase_collateral_sum_exact::<u8, 1>(2);
}
