//! C07 — open interest and collateral totals always match the open positions.
//!
//! One operation on one explicit position must change the open-interest pool, the
//! open-interest-in-tokens pool and the collateral-sum pool of the position's side / collateral token
//! by exactly the position's own deltas; every pool being "this position + the rest", the
//! sum-over-positions invariant then holds after any interleaving (pattern P2).
//!
//! Quick tier (components that establish each obligation):
//!   (1) `PositionMutExt::update_open_interest` with symbolic deltas (incl. the max-open-interest
//!       check and the virtual inventory for positions).
//!   (2) `DecreasePosition::is_remaining_size_too_small`, `check_partial_close`, `check_close`:
//!       a decrease that stays partial leaves both sizes strictly positive; otherwise it is promoted
//!       to a full close.
//!   (3) `IncreasePosition::process_collateral`: the collateral-sum pool moves by exactly the
//!       returned collateral delta (the same value `execute` adds to the position).
//! Thorough tier: whole `IncreasePosition::execute` / `DecreasePosition::execute` with partly
//! concrete market parameters (see c07_whole.rs).
use crate::vmarket::*;
use gmsol_model::{
    action::decrease_position::{DecreasePosition, DecreasePositionFlags},
    fixed::FixedPointOps,
    num::{Num, Unsigned},
    price::Prices,
    PositionMutExt,
};
use num_traits::{CheckedSub, Signed, Zero};

fn w<T: Into<u32>>(x: T) -> u32 {
    x.into()
}
fn ws<S: Into<i32>>(x: S) -> i32 {
    x.into()
}

/// `cur + d` if it stays in `0..=max`.
fn exact_add(cur: u32, d: i32, max: u32) -> Option<u32> {
    let v = cur as i32 + d;
    if v >= 0 && v as u32 <= max { Some(v as u32) } else { None }
}

/// Witnesses observed by one run (covers are placed by the harnesses, each on the ones it can reach).
#[derive(Clone, Copy, Default)]
struct OiObs {
    vi_flipped_to_long: bool,
    cap_exceeded: bool,
    token_underflow: bool,
}

fn update_open_interest_exact<T, const D: u8>(with_virtual_inventory: bool) -> OiObs
where
    T: FixedPointOps<D> + CheckedSub + Copy + kani::Arbitrary + Into<u32> + num_traits::Bounded,
    T::Signed: Num + Copy + kani::Arbitrary + Into<i32> + num_traits::Bounded,
{
    let max = w(T::max_value());
    let smax: i32 = <T::Signed as num_traits::Bounded>::max_value().into();
    let mut m = VMarket::<T, D>::zero();
    m.open_interest = Side2 { long: VPool::any(), short: VPool::any() };
    m.open_interest_in_tokens = Side2 { long: VPool::any(), short: VPool::any() };
    m.max_open_interest = Side2::any();
    if with_virtual_inventory {
        m.vi_positions = Some(VPool::any());
    }
    let is_long: bool = kani::any();
    let coll_long: bool = kani::any();
    let mut p = VPosition::<T, D>::zero(m, is_long, coll_long);
    p.size_in_usd = kani::any();
    p.size_in_tokens = kani::any();
    p.collateral_amount = kani::any();
    let before = p;
    let d_usd: T::Signed = kani::any();
    let d_tok: T::Signed = kani::any();

    let r = p.update_open_interest(&d_usd, &d_tok);
    let mut obs = OiObs::default();

    let cur_usd = w(*before.market.open_interest.get(is_long).side(coll_long));
    let cur_tok = w(*before.market.open_interest_in_tokens.get(is_long).side(coll_long));
    let other_usd = w(*before.market.open_interest.get(is_long).side(!coll_long));
    let next_usd = exact_add(cur_usd, ws(d_usd), max);
    let next_tok = exact_add(cur_tok, ws(d_tok), max);
    let max_oi = w(*before.market.max_open_interest.get(is_long));

    if r.is_ok() {
        if d_usd.is_zero() {
            // nothing at all is written (callers pass a zero token delta with a zero usd delta)
            assert!(p == before);
            kani::cover!(!d_tok.is_zero(), "zero usd delta ignores the token delta");
        } else {
            let (Some(nu), Some(nt)) = (next_usd, next_tok) else {
                panic!("succeeded although a pool would leave its range");
            };
            let mut expect = before;
            {
                let oi = expect.market.open_interest.get_mut(is_long);
                let slot = if coll_long { &mut oi.long } else { &mut oi.short };
                *slot = T::from_u32(nu).unwrap();
                let oit = expect.market.open_interest_in_tokens.get_mut(is_long);
                let slot = if coll_long { &mut oit.long } else { &mut oit.short };
                *slot = T::from_u32(nt).unwrap();
            }
            if d_usd.is_positive() {
                // the cap is enforced on the side total after the change
                assert!(nu + other_usd <= max_oi);
            }
            if let Some(vi) = before.market.vi_positions {
                // virtual inventory tracks the users' net open interest: longs opening / shorts
                // closing add to its long side, the converse to its short side; then it is netted
                let abs = ws(d_usd).unsigned_abs();
                let to_long = is_long == d_usd.is_positive();
                let (l, s) = if to_long { (w(vi.long) + abs, w(vi.short)) } else { (w(vi.long), w(vi.short) + abs) };
                let c = if l < s { l } else { s };
                let after = p.market.vi_positions.unwrap();
                assert!(w(after.long) == l - c && w(after.short) == s - c);
                expect.market.vi_positions = p.market.vi_positions;
                obs.vi_flipped_to_long = w(after.long) > 0 && w(vi.short) > 0;
            }
            // exactly these pools move, by exactly the given deltas; the position is not touched
            assert!(p == expect);
            kani::cover!(d_usd.is_positive() && coll_long, "increase, long collateral");
            kani::cover!(d_usd.is_negative() && !coll_long, "decrease, short collateral");
            kani::cover!(d_usd.is_positive() && nu + other_usd == max_oi, "exactly at the cap");
            kani::cover!(d_usd.is_negative() && nu == 0 && nt == 0, "side emptied");
        }
    } else if !with_virtual_inventory {
        // without a virtual inventory the only reasons to fail are range and cap violations
        let reason = next_usd.is_none()
            || next_tok.is_none()
            || (d_usd.is_positive() && (next_usd.unwrap() + other_usd > max_oi || next_usd.unwrap() + other_usd > max));
        assert!(!d_usd.is_zero() && reason);
        obs.cap_exceeded = next_usd.is_some() && next_tok.is_some();
        obs.token_underflow = next_usd.is_some() && next_tok.is_none();
    }
    core::mem::forget(r);
    let _ = smax;
    obs
}

//@ prop=C07 tier=quick kind=hold
//@ enc=PositionMutExt::update_open_interest, PerpMarketMutExt::apply_delta_to_open_interest, Pool::apply_delta_to_long_amount, Pool::apply_delta_to_short_amount
//@ bound=T=u8/i8, DECIMALS=1: every open-interest and open-interest-in-tokens pool value, every max-open-interest value, both sides, both collateral tokens, every signed usd and token delta; no virtual inventory
//@ stubs=none; market/position = plain-struct VMarket/VPosition (pools are checked add/sub pools)
#[kani::proof]
fn c07_update_open_interest_exact_u8() {
    let obs = update_open_interest_exact::<u8, 1>(false);
    kani::cover!(obs.cap_exceeded, "rejected: cap exceeded");
    kani::cover!(obs.token_underflow, "rejected: token pool underflow");
}

//@ prop=C07 tier=quick kind=hold
//@ enc=PositionMutExt::update_open_interest, PerpMarketMutExt::apply_delta_to_open_interest, Pool::checked_cancel_amounts
//@ bound=T=u8/i8, DECIMALS=1: as c07_update_open_interest_exact_u8 plus every value of a present virtual inventory for positions
//@ stubs=none; market/position = plain-struct VMarket/VPosition
#[kani::proof]
fn c07_update_open_interest_exact_virtual_inventory_u8() {
    let obs = update_open_interest_exact::<u8, 1>(true);
    kani::cover!(obs.vi_flipped_to_long, "netting flips the virtual inventory to long");
}

//@ prop=C07 tier=quick kind=hold
//@ enc=PositionMutExt::update_open_interest, PerpMarketMutExt::apply_delta_to_open_interest
//@ bound=T=u16/i16, DECIMALS=2: every pool value, cap, side, collateral token and signed delta; no virtual inventory
//@ stubs=none; market/position = plain-struct VMarket/VPosition
#[kani::proof]
fn c07_update_open_interest_exact_u16() {
    let obs = update_open_interest_exact::<u16, 2>(false);
    kani::cover!(obs.cap_exceeded, "rejected: cap exceeded");
    kani::cover!(obs.token_underflow, "rejected: token pool underflow");
}

// ------------------------------------------------------------------------------------------------

/// Exact size delta in tokens of a decrease by `delta` (long rounds up, short rounds down).
pub fn size_delta_in_tokens_ref(is_long: bool, size: u32, tokens: u32, delta: u32) -> Option<u32> {
    if size == delta {
        Some(tokens)
    } else if size == 0 {
        None
    } else if is_long {
        Some((tokens * delta + size - 1) / size)
    } else {
        Some(tokens * delta / size)
    }
}

fn symbolic_flags() -> DecreasePositionFlags {
    DecreasePositionFlags {
        is_insolvent_close_allowed: kani::any(),
        is_liquidation_order: kani::any(),
        is_cap_size_delta_usd_allowed: kani::any(),
    }
}

fn remaining_size_too_small<T, const D: u8>()
where
    T: FixedPointOps<D> + CheckedSub + Copy + kani::Arbitrary + Into<u32> + num_traits::Bounded,
    T::Signed: Num + Copy + kani::Arbitrary,
{
    let max = w(T::max_value());
    let m = VMarket::<T, D>::zero();
    let mut p = VPosition::<T, D>::zero(m, kani::any(), kani::any());
    p.size_in_usd = kani::any();
    p.size_in_tokens = kani::any();
    p.collateral_amount = kani::any();
    let prices = flat_prices(T::one(), T::one(), T::one());
    let delta: T = kani::any();
    let min: T = kani::any();
    let (mut pos0, mut pos) = (p, p);
    let a = DecreasePosition::try_new(&mut pos0, prices, delta, None, T::zero(), symbolic_flags());
    let Ok(a) = a else {
        core::mem::forget(a);
        return;
    };
    // re-seat on a fresh handle (a handle read back from the `Result` payload is imprecise for CBMC)
    let a = a.verif_with_position(&mut pos);
    let d = w(*a.verif_size_delta_usd());
    let size = w(p.size_in_usd);
    let tokens = w(p.size_in_tokens);
    // try_new caps or rejects
    assert!(d <= size && (d == w(delta) || (w(delta) > size && d == size)));
    let r = a.verif_is_remaining_size_too_small(&min);
    let sdt = size_delta_in_tokens_ref(p.is_long, size, tokens, d);
    match (&r, sdt) {
        (Ok(too_small), Some(sdt)) if sdt <= max => {
            assert!(*too_small == (size - d < w(min) || tokens <= sdt));
            kani::cover!(*too_small && size - d >= w(min) && d < size, "tokens would be zeroed");
            kani::cover!(!*too_small && d > 0 && d < size, "genuinely partial");
            kani::cover!(*too_small && size - d >= w(min) && d < size && tokens == sdt && p.is_long, "long rounds up to all tokens");
        }
        (Ok(too_small), _) => {
            // the token delta is not computable: only the usd criterion can have answered
            assert!(*too_small && size - d < w(min));
        }
        (Err(_), Some(sdt)) => {
            assert!(sdt > max && size - d >= w(min));
        }
        (Err(_), None) => {}
    }
    core::mem::forget(r);
}

//@ prop=C07 tier=quick kind=hold
//@ enc=DecreasePosition::try_new, DecreasePositionFlags::init, DecreasePosition::is_remaining_size_too_small, PositionExt::size_delta_in_tokens
//@ bound=T=u8, DECIMALS=1: every position size (usd, tokens), collateral, side, size delta, flag combination and min position size
//@ stubs=none; hook: DecreasePosition::verif_is_remaining_size_too_small (thin wrapper)
#[kani::proof]
fn c07_remaining_size_too_small_u8() {
    remaining_size_too_small::<u8, 1>();
}

//@ prop=C07 tier=experimental kind=hold
//@ timeout=3600 mem=20
//@ enc=DecreasePosition::try_new, DecreasePositionFlags::init, DecreasePosition::is_remaining_size_too_small, PositionExt::size_delta_in_tokens
//@ bound=T=u16, DECIMALS=2: every position size (usd, tokens), collateral, side, size delta, flag combination and min position size
//@ stubs=none; hook: DecreasePosition::verif_is_remaining_size_too_small (thin wrapper). Not validated: timed out at 900 s (16-bit ceil mul_div against the 32-bit reference); a longer run was not completed in this round
#[kani::proof]
fn c07_remaining_size_too_small_u16() {
    remaining_size_too_small::<u16, 2>();
}

// ------------------------------------------------------------------------------------------------

/// Market for the partial-close check: what `pnl_value` and `will_collateral_be_sufficient` read.
fn partial_close_market<T, const D: u8>(full: bool, is_long: bool, coll_long: bool) -> (VMarket<T, D>, Prices<T>)
where
    T: FixedPointOps<D> + CheckedSub + Copy + kani::Arbitrary + Into<u32>,
    T::Signed: Num + Copy + kani::Arbitrary,
{
    let mut m = VMarket::<T, D>::zero();
    m.position_params.min_position_size_usd = kani::any();
    m.position_params.min_collateral_value = kani::any();
    m.position_params.min_collateral_factor = kani::any();
    if full {
        m.open_interest = Side2 { long: VPool::any(), short: VPool::any() };
        m.open_interest_in_tokens = Side2 { long: VPool::any(), short: VPool::any() };
        m.liquidity = VPool::any();
        m.pnl_factor.trader = Side2::any();
        m.min_collateral_factor_for_oi_multiplier = Side2::any();
        (m, any_prices(false))
    } else {
        // pnl cap never binds (pool value large, factor 100%), OI multiplier 0; prices symbolic but flat;
        // only the position's own open-interest slots are non-zero (position + symbolic rest)
        let n = |v: u8| T::from_u8(v).unwrap();
        let oi: T = kani::any();
        let oit: T = kani::any();
        let pool = m.open_interest.get_mut(is_long);
        if coll_long { pool.long = oi } else { pool.short = oi }
        let pool = m.open_interest_in_tokens.get_mut(is_long);
        if coll_long { pool.long = oit } else { pool.short = oit }
        m.liquidity = VPool { long: n(100), short: n(100) };
        m.pnl_factor.trader = Side2::both(T::UNIT);
        let i: T = kani::any();
        let c: T = kani::any();
        kani::assume(!i.is_zero() && !c.is_zero());
        (m, flat_prices(i, c, c))
    }
}

/// Returns whether the run was promoted to a full close *because the tokens would be zeroed* (only
/// reachable for longs: the long token delta rounds up; a short's rounds down and reaches all tokens
/// only on a full close).
fn partial_close_promotes<T, const D: u8>(full: bool, side: Option<bool>) -> bool
where
    T: FixedPointOps<D> + CheckedSub + Copy + kani::Arbitrary + Into<u32> + num_traits::Bounded,
    T::Signed: Num + Copy + kani::Arbitrary,
{
    let max = w(T::max_value());
    let is_long: bool = match side {
        Some(l) => l,
        None => kani::any(),
    };
    let coll_long: bool = kani::any();
    let (m, prices) = partial_close_market::<T, D>(full, is_long, coll_long);
    let mut p = VPosition::<T, D>::zero(m, is_long, coll_long);
    p.size_in_usd = kani::any();
    p.size_in_tokens = kani::any();
    p.collateral_amount = kani::any();
    // the pools contain the position (C07 invariant)
    kani::assume(*m.open_interest.get(is_long).side(coll_long) >= p.size_in_usd);
    kani::assume(*m.open_interest_in_tokens.get(is_long).side(coll_long) >= p.size_in_tokens);
    let delta: T = kani::any();
    let withdraw: T = kani::any();
    let (mut pos0, mut pos) = (p, p);
    let a = DecreasePosition::try_new(&mut pos0, prices, delta, None, withdraw, symbolic_flags());
    let Ok(a) = a else {
        core::mem::forget(a);
        return false;
    };
    // re-seat on a fresh handle (a handle read back from the `Result` payload is imprecise for CBMC)
    let mut a = a.verif_with_position(&mut pos);
    let d0 = w(*a.verif_size_delta_usd());
    let w0 = w(*a.verif_withdrawable_collateral_amount());
    let size = w(p.size_in_usd);
    let tokens = w(p.size_in_tokens);
    assert!(w0 <= w(p.collateral_amount) && w0 <= w(withdraw));

    let r1 = a.verif_check_partial_close();
    if r1.is_err() {
        core::mem::forget(r1);
        return false;
    }
    let mut promoted_for_tokens = false;
    let r2 = a.verif_check_close();
    assert!(r2.is_ok());

    let d1 = w(*a.verif_size_delta_usd());
    let w1 = w(*a.verif_withdrawable_collateral_amount());
    // the checks never touch the position or the market
    assert!(**a.verif_position() == p);
    // the delta is only ever promoted to the full size
    assert!(d1 == d0 || d1 == size);
    assert!(d1 <= size);
    // collateral withdrawal never grows
    assert!(w1 <= w0);
    if d1 < size {
        // still partial: the remaining position keeps a positive usd size >= the minimum and at
        // least one token, i.e. `should_remove` cannot be reached by this decrease
        assert!(size - d1 >= w(m.position_params.min_position_size_usd));
        let sdt = size_delta_in_tokens_ref(p.is_long, size, tokens, d1);
        let Some(sdt) = sdt else { panic!("partial decrease of a zero-size position") };
        assert!(sdt < tokens);
        kani::cover!(d1 > 0 && w1 > 0, "partial decrease with withdrawal");
        kani::cover!(d1 == 0 && w1 > 0, "collateral withdrawal only");
    } else {
        // full close: no separate collateral withdrawal (all collateral is returned anyway)
        assert!(w1 == 0);
        kani::cover!(d0 < size && d0 > 0, "promoted to a full close");
        promoted_for_tokens = d0 < size
            && size - d0 >= w(m.position_params.min_position_size_usd)
            && size_delta_in_tokens_ref(p.is_long, size, tokens, d0).map(|s| s >= tokens).unwrap_or(false);
        kani::cover!(d0 == size && w0 > 0, "withdrawal dropped on full close");
    }
    core::mem::forget(r1);
    core::mem::forget(r2);
    let _ = max;
    promoted_for_tokens
}

//@ prop=C07 tier=thorough kind=hold
//@ enc=DecreasePosition::try_new, DecreasePosition::check_partial_close, DecreasePosition::is_remaining_size_too_small, DecreasePosition::check_close, PositionExt::pnl_value, PositionExt::size_delta_in_tokens, PositionExt::will_collateral_be_sufficient
//@ bound=T=u8, DECIMALS=1: long position; every size in usd / tokens, collateral, collateral token, size delta, withdrawal amount, flag combination, min position size / min collateral value / min collateral factor, any flat index price and flat collateral price; the position's own open-interest slots = position + symbolic rest, the other slots 0; pnl cap factor 100% on a 100/100 pool, open-interest collateral multiplier 0
//@ stubs=none; hooks: DecreasePosition::verif_check_partial_close / verif_check_close / verif_with_position / accessors (thin wrappers)
#[kani::proof]
fn c07_partial_close_promotes_long_u8() {
    let promoted_for_tokens = partial_close_promotes::<u8, 1>(false, Some(true));
    kani::cover!(promoted_for_tokens, "promoted because the tokens would be zeroed");
}

//@ prop=C07 tier=thorough kind=hold
//@ enc=DecreasePosition::try_new, DecreasePosition::check_partial_close, DecreasePosition::is_remaining_size_too_small, DecreasePosition::check_close, PositionExt::pnl_value, PositionExt::size_delta_in_tokens, PositionExt::will_collateral_be_sufficient
//@ bound=T=u8, DECIMALS=1: short position; every size in usd / tokens, collateral, collateral token, size delta, withdrawal amount, flag combination, min position size / min collateral value / min collateral factor, any flat index price and flat collateral price; the position's own open-interest slots = position + symbolic rest, the other slots 0; pnl cap factor 100% on a 100/100 pool, open-interest collateral multiplier 0
//@ stubs=none; hooks: DecreasePosition::verif_check_partial_close / verif_check_close / verif_with_position / accessors (thin wrappers)
#[kani::proof]
fn c07_partial_close_promotes_short_u8() {
    let _ = partial_close_promotes::<u8, 1>(false, Some(false));
}

//@ prop=C07 tier=quick kind=hold
//@ enc=DecreasePosition::try_new, DecreasePosition::check_partial_close, DecreasePosition::is_remaining_size_too_small, DecreasePosition::check_close, PositionExt::pnl_value, MarketUtils::cap_pnl, PositionExt::will_collateral_be_sufficient, PerpMarketExt::min_collateral_factor_for_open_interest
//@ bound=T=u8, DECIMALS=1: every position (sizes, collateral, side, collateral token), size delta, withdrawal amount, flag combination, min position size / min collateral value / min collateral factor, every price (min/max, only what Prices::is_valid guarantees), every open-interest and liquidity pool slot, trader pnl factor and open-interest collateral multiplier
//@ stubs=none; hooks: DecreasePosition::verif_check_partial_close / verif_check_close / verif_with_position / accessors (thin wrappers); assumed: the position's pool slots contain the position
//@ timeout=1500
#[kani::proof]
fn c07_partial_close_promotes_all_u8() {
    let promoted_for_tokens = partial_close_promotes::<u8, 1>(true, None);
    kani::cover!(promoted_for_tokens, "promoted because the tokens would be zeroed");
}

// ------------------------------------------------------------------------------------------------

use gmsol_model::{action::increase_position::IncreasePosition, pool::delta::{BalanceChange, PriceImpact}};

/// Market/position for the fee pipeline of an increase. `level`: 0 = order fees only (borrowing and
/// funding settled: position indices equal the market's), 1 = + borrowing fees, 2 = + funding fees.
pub fn fee_state<T, const D: u8>(level: u8) -> VPosition<T, D>
where
    T: FixedPointOps<D> + CheckedSub + Copy + kani::Arbitrary + Into<u32>,
    T::Signed: Num + Copy + kani::Arbitrary,
{
    let mut m = VMarket::<T, D>::zero();
    m.collateral_sum = Side2 { long: VPool::any(), short: VPool::any() };
    m.liquidity = VPool::any();
    m.claimable_fee = VPool::any();
    m.order_fee_params = VFee {
        positive_impact_fee_factor: kani::any(),
        negative_impact_fee_factor: kani::any(),
        fee_receiver_factor: kani::any(),
        discount_factor: kani::any(),
    };
    m.funding_amount_per_size_adjustment = T::one();
    let mut p = VPosition::<T, D>::zero(m, kani::any(), kani::any());
    p.size_in_usd = kani::any();
    p.size_in_tokens = kani::any();
    p.collateral_amount = kani::any();
    if level >= 1 {
        p.market.borrowing.receiver_factor = kani::any();
        p.market.borrowing_factor = VPool::any();
        p.borrowing_factor = kani::any();
    }
    if level >= 2 {
        p.market.funding_amount_per_size_adjustment = kani::any();
        p.market.funding_amount_per_size = Side2 { long: VPool::any(), short: VPool::any() };
        p.market.claimable_funding_amount_per_size = Side2 { long: VPool::any(), short: VPool::any() };
        p.funding_fee_amount_per_size = kani::any();
        p.claimable_funding_fee_amount_per_size = Side2::any();
    }
    p
}

fn any_balance_change() -> BalanceChange {
    let k: u8 = kani::any();
    match k % 3 {
        0 => BalanceChange::Improved,
        1 => BalanceChange::Worsened,
        _ => BalanceChange::Unchanged,
    }
}

pub(crate) fn increase_collateral_sum_exact<T, const D: u8>(level: u8)
where
    T: FixedPointOps<D> + CheckedSub + Copy + kani::Arbitrary + Into<u32> + num_traits::Bounded,
    T::Signed: Num + Copy + kani::Arbitrary + Into<i32>,
{
    let max = w(T::max_value());
    let mut p = fee_state::<T, D>(level);
    let before = p;
    let i: T = kani::any();
    let c: T = kani::any();
    kani::assume(!i.is_zero() && !c.is_zero());
    let prices = flat_prices(i, c, c);
    let increment: T = kani::any();
    let size_delta: T = kani::any();
    let mut pos0 = p;
    let a = IncreasePosition::try_new(&mut pos0, prices, increment, size_delta, None);
    let Ok(a) = a else {
        core::mem::forget(a);
        return;
    };
    let mut a = a.verif_with_position(&mut p);
    let impact = PriceImpact { value: T::Signed::zero(), balance_change: any_balance_change() };
    let r = a.verif_process_collateral(&impact);
    let Ok((delta, fees)) = &r else {
        core::mem::forget(r);
        return;
    };
    let is_long = before.is_long;
    let cl = before.is_collateral_token_long;
    let d = ws(*delta);

    // C07: the collateral-sum pool of (side, collateral token) moves by exactly the returned delta ...
    let cs0 = w(*before.market.collateral_sum.get(is_long).side(cl)) as i32;
    let cs1 = w(*p.market.collateral_sum.get(is_long).side(cl)) as i32;
    assert!(cs1 - cs0 == d);
    // ... which is the deposit minus every fee
    let total_cost = w(fees.total_cost_amount().unwrap()) as i32;
    assert!(d == w(increment) as i32 - total_cost);

    // C08 (token ledger of the collateral token): deposit = d(collateral) + d(pool) + d(claimable fees) + funding paid
    let liq = w(*p.market.liquidity.side(cl)) as i32 - w(*before.market.liquidity.side(cl)) as i32;
    let cf = w(*p.market.claimable_fee.side(cl)) as i32 - w(*before.market.claimable_fee.side(cl)) as i32;
    let funding = w(*fees.funding_fees().amount()) as i32;
    assert!(liq >= 0 && cf >= 0);
    assert!(w(increment) as i32 == d + liq + cf + funding);

    // nothing else moves (the position itself is updated by `execute`, not here)
    let mut expect = before;
    *expect.market.collateral_sum.get_mut(is_long) = *p.market.collateral_sum.get(is_long);
    expect.market.liquidity = p.market.liquidity;
    expect.market.claimable_fee = p.market.claimable_fee;
    assert!(p == expect);
    assert!(*p.market.collateral_sum.get(is_long).side(!cl) == *before.market.collateral_sum.get(is_long).side(!cl));
    assert!(*p.market.liquidity.side(!cl) == *before.market.liquidity.side(!cl));
    assert!(*p.market.claimable_fee.side(!cl) == *before.market.claimable_fee.side(!cl));

    kani::cover!(d > 0 && liq > 0 && cf > 0, "deposit with pool and receiver fees");
    kani::cover!(d < 0, "fees exceed the deposit (collateral is reduced)");
    core::mem::forget(r);
    let _ = max;
}

//@ prop=C07 tier=thorough kind=hold
//@ enc=IncreasePosition::try_new, IncreasePosition::process_collateral, PositionExt::position_fees, FeeParams::base_position_fees, PositionFees::{total_cost_amount,for_pool,for_receiver}, BaseMarketMutExt::{apply_delta,apply_delta_to_claimable_fee_pool}
//@ bound=T=u8, DECIMALS=1: every collateral-sum / liquidity / claimable-fee pool value, order-fee factors incl. discount, position, deposit and size delta, any flat index and collateral price, every balance-change kind; borrowing and funding already settled (level 0)
//@ stubs=none; hook: IncreasePosition::verif_process_collateral (thin wrapper)
#[kani::proof]
fn c07_increase_collateral_sum_exact_u8() {
    increase_collateral_sum_exact::<u8, 1>(0);
}

//@ prop=C07 tier=quick kind=hold
//@ enc=IncreasePosition::try_new, IncreasePosition::process_collateral, PositionExt::position_fees, FeeParams::base_position_fees, PositionExt::pending_borrowing_fee_value, PositionExt::pending_funding_fees, unpack_to_funding_amount_delta, PositionFees::{set_borrowing_fees,total_cost_amount,for_pool,for_receiver}, BaseMarketMutExt::{apply_delta,apply_delta_to_claimable_fee_pool}
//@ bound=T=u8, DECIMALS=1: every collateral-sum / liquidity / claimable-fee pool value, order-fee factors incl. discount, borrowing receiver factor, cumulative borrowing factor and position factor, funding / claimable-funding per-size indices of market and position, packing adjustment, position, deposit and size delta, any flat index and collateral price, every balance-change kind
//@ stubs=none; hooks: IncreasePosition::verif_process_collateral, verif_with_position (thin wrappers)
//@ timeout=1500
#[kani::proof]
fn c07_increase_collateral_sum_exact_all_fees_u8() {
    increase_collateral_sum_exact::<u8, 1>(2);
}

