//! Plain-struct market and position used as the *environment* of the perp harnesses.
//!
//! `VMarket<T, D>` implements every market trait of `gmsol-model` up to `PerpMarketMut`; every pool,
//! parameter and clock reading is a plain field so a harness can make it symbolic (`any_market`) or
//! keep it concrete (`zero_market` + assignments). `VPosition<T, D>` owns its market by value and
//! implements `PositionState/Position/PositionMut/PositionStateMut`.
//!
//! Nothing here is the subject of a check: the subject is the generic model code of
//! `/repo/crates/model` that is instantiated over these types. The pool implementation below is
//! the obvious checked add/sub pool (same contract as the repo's `TestPool`).
use gmsol_model::{
    action::{decrease_position::DecreasePositionSwapType, swap::SwapReport},
    fixed::FixedPointOps,
    num::{Num, Unsigned, UnsignedAbs},
    params::{
        fee::{
            BorrowingFeeKinkModelParams, BorrowingFeeKinkModelParamsForOneSide, BorrowingFeeParams,
            FundingFeeParams, LiquidationFeeParams,
        },
        position::PositionImpactDistributionParams,
        FeeParams, PositionParams, PriceImpactParams,
    },
    price::{Price, Prices},
    Balance, BaseMarket, BaseMarketMut, BorrowingFeeMarket, BorrowingFeeMarketMut, Delta,
    LiquidityMarket, LiquidityMarketMut, PerpMarket, PerpMarketMut, PnlFactorKind, Pool, Position,
    PositionImpactMarket, PositionImpactMarketMut, PositionMut, PositionState, PositionStateMut,
    SwapMarket, SwapMarketMut,
};
use num_traits::{CheckedAdd, CheckedSub, Signed, Zero};
use std::ops::{Deref, DerefMut};

// --------------------------------------------------------------------------------------------
// Pool
// --------------------------------------------------------------------------------------------
#[derive(Debug, Clone, Copy, PartialEq, Eq)]
pub struct VPool<T> {
    pub long: T,
    pub short: T,
}

impl<T: Zero> VPool<T> {
    pub fn zero() -> Self {
        Self { long: T::zero(), short: T::zero() }
    }
}

impl<T: kani::Arbitrary> VPool<T> {
    pub fn any() -> Self {
        Self { long: kani::any(), short: kani::any() }
    }
}

impl<T> VPool<T> {
    pub fn side(&self, is_long: bool) -> &T {
        if is_long { &self.long } else { &self.short }
    }
}

impl<T> Balance for VPool<T>
where
    T: Num + Unsigned + CheckedSub,
{
    type Num = T;
    type Signed = T::Signed;

    fn long_amount(&self) -> gmsol_model::Result<T> {
        Ok(self.long.clone())
    }
    fn short_amount(&self) -> gmsol_model::Result<T> {
        Ok(self.short.clone())
    }
}

fn apply<T>(cur: &T, delta: &T::Signed) -> gmsol_model::Result<T>
where
    T: Num + Unsigned + CheckedSub,
{
    if delta.is_positive() {
        cur.checked_add(&delta.unsigned_abs()).ok_or(gmsol_model::Error::Overflow)
    } else {
        cur.checked_sub(&delta.unsigned_abs())
            .ok_or(gmsol_model::Error::Computation("decreasing pool amount"))
    }
}

impl<T> Pool for VPool<T>
where
    T: Num + Unsigned + CheckedSub,
{
    fn checked_apply_delta(&self, delta: Delta<&Self::Signed>) -> gmsol_model::Result<Self> {
        let mut ans = self.clone();
        if let Some(amount) = delta.long() {
            ans.long = apply(&ans.long, amount)?;
        }
        if let Some(amount) = delta.short() {
            ans.short = apply(&ans.short, amount)?;
        }
        Ok(ans)
    }
}

// --------------------------------------------------------------------------------------------
// Market
// --------------------------------------------------------------------------------------------
#[derive(Debug, Clone, Copy, PartialEq, Eq)]
pub struct VImpact<T> {
    pub exponent: T,
    pub positive_factor: T,
    pub negative_factor: T,
}

#[derive(Debug, Clone, Copy, PartialEq, Eq)]
pub struct VFee<T> {
    pub positive_impact_fee_factor: T,
    pub negative_impact_fee_factor: T,
    pub fee_receiver_factor: T,
    pub discount_factor: Option<T>,
}

#[derive(Debug, Clone, Copy, PartialEq, Eq)]
pub struct VPositionParams<T> {
    pub min_position_size_usd: T,
    pub min_collateral_value: T,
    pub min_collateral_factor: T,
    pub min_collateral_factor_for_liquidation: Option<T>,
    pub max_positive_position_impact_factor: T,
    pub max_negative_position_impact_factor: T,
    pub max_position_impact_factor_for_liquidations: T,
}

#[derive(Debug, Clone, Copy, PartialEq, Eq)]
pub struct VBorrowing<T> {
    pub receiver_factor: T,
    pub exponent: Side2<T>,
    pub factor: Side2<T>,
    pub skip_borrowing_fee_for_smaller_side: bool,
    /// kink model, `[long, short]`
    pub optimal_usage_factor: Side2<T>,
    pub base_borrowing_factor: Side2<T>,
    pub above_optimal_usage_borrowing_factor: Side2<T>,
}

#[derive(Debug, Clone, Copy, PartialEq, Eq)]
pub struct VFunding<T> {
    pub exponent: T,
    pub funding_factor: T,
    pub increase_factor_per_second: T,
    pub decrease_factor_per_second: T,
    pub max_factor_per_second: T,
    pub min_factor_per_second: T,
    pub threshold_for_stable_funding: T,
    pub threshold_for_decrease_funding: T,
}

/// A `[long, short]` pair (plain struct: array `==` on integers compiles to a `memcmp` loop).
#[derive(Debug, Clone, Copy, PartialEq, Eq)]
pub struct Side2<T> {
    pub long: T,
    pub short: T,
}

impl<T> Side2<T> {
    #[inline]
    pub fn get(&self, is_long: bool) -> &T {
        if is_long { &self.long } else { &self.short }
    }
    #[inline]
    pub fn get_mut(&mut self, is_long: bool) -> &mut T {
        if is_long { &mut self.long } else { &mut self.short }
    }
}

impl<T: Copy> Side2<T> {
    pub fn both(v: T) -> Self {
        Self { long: v, short: v }
    }
}

impl<T: kani::Arbitrary> Side2<T> {
    pub fn any() -> Self {
        Self { long: kani::any(), short: kani::any() }
    }
}

/// Max/min pnl factors by kind, each `[long, short]`.
#[derive(Debug, Clone, Copy, PartialEq, Eq)]
pub struct VPnlFactors<T> {
    pub deposit: Side2<T>,
    pub withdrawal: Side2<T>,
    pub trader: Side2<T>,
    pub adl: Side2<T>,
    pub min_after_adl: Side2<T>,
}

/// The market over number type `T` (signed companion `T::Signed`) with `D` decimals.
pub type VMarket<T, const D: u8> = VMarketG<T, <T as Unsigned>::Signed, D>;
/// The position over number type `T` with `D` decimals (owns its market).
pub type VPosition<T, const D: u8> = VPositionG<T, <T as Unsigned>::Signed, D>;


#[derive(Debug, Clone, Copy, PartialEq, Eq)]
pub struct VMarketG<T, S, const D: u8> {
    // pools
    pub liquidity: VPool<T>,
    pub claimable_fee: VPool<T>,
    pub swap_impact: VPool<T>,
    pub open_interest: Side2<VPool<T>>,
    pub open_interest_in_tokens: Side2<VPool<T>>,
    pub collateral_sum: Side2<VPool<T>>,
    pub position_impact: VPool<T>,
    pub borrowing_factor: VPool<T>,
    pub total_borrowing: VPool<T>,
    pub funding_amount_per_size: Side2<VPool<T>>,
    pub claimable_funding_amount_per_size: Side2<VPool<T>>,
    pub vi_swaps: Option<VPool<T>>,
    pub vi_positions: Option<VPool<T>>,
    // scalars
    pub total_supply: T,
    pub usd_to_amount_divisor: T,
    pub funding_amount_per_size_adjustment: T,
    pub funding_factor_per_second: S,
    // params
    pub max_pool_amount: Side2<T>,
    pub max_pool_value_for_deposit: Side2<T>,
    pub pnl_factor: VPnlFactors<T>,
    pub reserve_factor: T,
    pub open_interest_reserve_factor: T,
    pub max_open_interest: Side2<T>,
    pub ignore_open_interest_for_usage_factor: bool,
    pub swap_impact_params: VImpact<T>,
    pub swap_fee_params: VFee<T>,
    pub position_impact_params: VImpact<T>,
    pub order_fee_params: VFee<T>,
    pub distribute_factor: T,
    pub min_position_impact_pool_amount: T,
    pub position_params: VPositionParams<T>,
    pub borrowing: VBorrowing<T>,
    pub funding: VFunding<T>,
    pub min_collateral_factor_for_oi_multiplier: Side2<T>,
    pub liquidation_fee_factor: T,
    pub liquidation_fee_receiver_factor: T,
    // clocks: seconds since the last update of each kind
    pub passed_borrowing: u64,
    pub passed_funding: u64,
    pub passed_distribution: u64,
    // callbacks
    pub insufficient_funding_reports: u8,
    pub last_insufficient_cost: T,
    pub last_insufficient_paid_collateral: T,
    pub last_insufficient_paid_secondary: T,
}

impl<T: Unsigned + Zero + Copy, const D: u8> VMarket<T, D>
where
    T::Signed: Zero + Copy,
{
    /// All-zero market (every parameter 0, no virtual inventories, clocks 0).
    pub fn zero() -> Self {
        let z = T::zero();
        let p = VPool { long: z, short: z };
        let imp = VImpact { exponent: z, positive_factor: z, negative_factor: z };
        let fee = VFee {
            positive_impact_fee_factor: z,
            negative_impact_fee_factor: z,
            fee_receiver_factor: z,
            discount_factor: None,
        };
        Self {
            liquidity: p,
            claimable_fee: p,
            swap_impact: p,
            open_interest: Side2::both(p),
            open_interest_in_tokens: Side2::both(p),
            collateral_sum: Side2::both(p),
            position_impact: p,
            borrowing_factor: p,
            total_borrowing: p,
            funding_amount_per_size: Side2::both(p),
            claimable_funding_amount_per_size: Side2::both(p),
            vi_swaps: None,
            vi_positions: None,
            total_supply: z,
            usd_to_amount_divisor: z,
            funding_amount_per_size_adjustment: z,
            funding_factor_per_second: <T::Signed as Zero>::zero(),
            max_pool_amount: Side2::both(z),
            max_pool_value_for_deposit: Side2::both(z),
            pnl_factor: VPnlFactors { deposit: Side2::both(z), withdrawal: Side2::both(z), trader: Side2::both(z), adl: Side2::both(z), min_after_adl: Side2::both(z) },
            reserve_factor: z,
            open_interest_reserve_factor: z,
            max_open_interest: Side2::both(z),
            ignore_open_interest_for_usage_factor: false,
            swap_impact_params: imp,
            swap_fee_params: fee,
            position_impact_params: imp,
            order_fee_params: fee,
            distribute_factor: z,
            min_position_impact_pool_amount: z,
            position_params: VPositionParams {
                min_position_size_usd: z,
                min_collateral_value: z,
                min_collateral_factor: z,
                min_collateral_factor_for_liquidation: None,
                max_positive_position_impact_factor: z,
                max_negative_position_impact_factor: z,
                max_position_impact_factor_for_liquidations: z,
            },
            borrowing: VBorrowing {
                receiver_factor: z,
                exponent: Side2::both(z),
                factor: Side2::both(z),
                skip_borrowing_fee_for_smaller_side: false,
                optimal_usage_factor: Side2::both(z),
                base_borrowing_factor: Side2::both(z),
                above_optimal_usage_borrowing_factor: Side2::both(z),
            },
            funding: VFunding {
                exponent: z,
                funding_factor: z,
                increase_factor_per_second: z,
                decrease_factor_per_second: z,
                max_factor_per_second: z,
                min_factor_per_second: z,
                threshold_for_stable_funding: z,
                threshold_for_decrease_funding: z,
            },
            min_collateral_factor_for_oi_multiplier: Side2::both(z),
            liquidation_fee_factor: z,
            liquidation_fee_receiver_factor: z,
            passed_borrowing: 0,
            passed_funding: 0,
            passed_distribution: 0,
            insufficient_funding_reports: 0,
            last_insufficient_cost: z,
            last_insufficient_paid_collateral: z,
            last_insufficient_paid_secondary: z,
        }
    }
}

fn any_impact<T: kani::Arbitrary>() -> VImpact<T> {
    VImpact { exponent: kani::any(), positive_factor: kani::any(), negative_factor: kani::any() }
}
fn any_fee<T: kani::Arbitrary>() -> VFee<T> {
    VFee {
        positive_impact_fee_factor: kani::any(),
        negative_impact_fee_factor: kani::any(),
        fee_receiver_factor: kani::any(),
        discount_factor: kani::any(),
    }
}

impl<T: Unsigned + kani::Arbitrary + Copy + Zero, const D: u8> VMarket<T, D>
where
    T::Signed: kani::Arbitrary + Zero + Copy,
{
    /// Every pool, parameter and clock reading symbolic (virtual inventories present or absent).
    pub fn any() -> Self {
        let mut m = Self::zero();
        m.liquidity = VPool::any();
        m.claimable_fee = VPool::any();
        m.swap_impact = VPool::any();
        m.open_interest = Side2 { long: VPool::any(), short: VPool::any() };
        m.open_interest_in_tokens = Side2 { long: VPool::any(), short: VPool::any() };
        m.collateral_sum = Side2 { long: VPool::any(), short: VPool::any() };
        m.position_impact = VPool::any();
        m.borrowing_factor = VPool::any();
        m.total_borrowing = VPool::any();
        m.funding_amount_per_size = Side2 { long: VPool::any(), short: VPool::any() };
        m.claimable_funding_amount_per_size = Side2 { long: VPool::any(), short: VPool::any() };
        m.vi_swaps = if kani::any() { Some(VPool::any()) } else { None };
        m.vi_positions = if kani::any() { Some(VPool::any()) } else { None };
        m.total_supply = kani::any();
        m.usd_to_amount_divisor = kani::any();
        m.funding_amount_per_size_adjustment = kani::any();
        m.funding_factor_per_second = kani::any();
        m.max_pool_amount = Side2::any();
        m.max_pool_value_for_deposit = Side2::any();
        m.pnl_factor = VPnlFactors { deposit: Side2::any(), withdrawal: Side2::any(), trader: Side2::any(), adl: Side2::any(), min_after_adl: Side2::any() };
        m.reserve_factor = kani::any();
        m.open_interest_reserve_factor = kani::any();
        m.max_open_interest = Side2::any();
        m.ignore_open_interest_for_usage_factor = kani::any();
        m.swap_impact_params = any_impact();
        m.swap_fee_params = any_fee();
        m.position_impact_params = any_impact();
        m.order_fee_params = any_fee();
        m.distribute_factor = kani::any();
        m.min_position_impact_pool_amount = kani::any();
        m.position_params = VPositionParams {
            min_position_size_usd: kani::any(),
            min_collateral_value: kani::any(),
            min_collateral_factor: kani::any(),
            min_collateral_factor_for_liquidation: kani::any(),
            max_positive_position_impact_factor: kani::any(),
            max_negative_position_impact_factor: kani::any(),
            max_position_impact_factor_for_liquidations: kani::any(),
        };
        m.borrowing = VBorrowing {
            receiver_factor: kani::any(),
            exponent: Side2::any(),
            factor: Side2::any(),
            skip_borrowing_fee_for_smaller_side: kani::any(),
            optimal_usage_factor: Side2::any(),
            base_borrowing_factor: Side2::any(),
            above_optimal_usage_borrowing_factor: Side2::any(),
        };
        m.funding = VFunding {
            exponent: kani::any(),
            funding_factor: kani::any(),
            increase_factor_per_second: kani::any(),
            decrease_factor_per_second: kani::any(),
            max_factor_per_second: kani::any(),
            min_factor_per_second: kani::any(),
            threshold_for_stable_funding: kani::any(),
            threshold_for_decrease_funding: kani::any(),
        };
        m.min_collateral_factor_for_oi_multiplier = Side2::any();
        m.liquidation_fee_factor = kani::any();
        m.liquidation_fee_receiver_factor = kani::any();
        m.passed_borrowing = kani::any();
        m.passed_funding = kani::any();
        m.passed_distribution = kani::any();
        m
    }
}

impl<T, const D: u8> BaseMarket<D> for VMarket<T, D>
where
    T: FixedPointOps<D> + CheckedSub + Copy,
    T::Signed: Num + Copy,
{
    type Num = T;
    type Signed = T::Signed;
    type Pool = VPool<T>;

    fn liquidity_pool(&self) -> gmsol_model::Result<&Self::Pool> {
        Ok(&self.liquidity)
    }
    fn claimable_fee_pool(&self) -> gmsol_model::Result<&Self::Pool> {
        Ok(&self.claimable_fee)
    }
    fn swap_impact_pool(&self) -> gmsol_model::Result<&Self::Pool> {
        Ok(&self.swap_impact)
    }
    fn open_interest_pool(&self, is_long: bool) -> gmsol_model::Result<&Self::Pool> {
        Ok(self.open_interest.get(is_long))
    }
    fn open_interest_in_tokens_pool(&self, is_long: bool) -> gmsol_model::Result<&Self::Pool> {
        Ok(self.open_interest_in_tokens.get(is_long))
    }
    fn collateral_sum_pool(&self, is_long: bool) -> gmsol_model::Result<&Self::Pool> {
        Ok(self.collateral_sum.get(is_long))
    }
    fn virtual_inventory_for_swaps_pool(
        &self,
    ) -> gmsol_model::Result<Option<impl Deref<Target = Self::Pool>>> {
        Ok(self.vi_swaps.as_ref())
    }
    fn virtual_inventory_for_positions_pool(
        &self,
    ) -> gmsol_model::Result<Option<impl Deref<Target = Self::Pool>>> {
        Ok(self.vi_positions.as_ref())
    }
    fn usd_to_amount_divisor(&self) -> Self::Num {
        self.usd_to_amount_divisor
    }
    fn max_pool_amount(&self, is_long_token: bool) -> gmsol_model::Result<Self::Num> {
        Ok(*self.max_pool_amount.get(is_long_token))
    }
    fn pnl_factor_config(&self, kind: PnlFactorKind, is_long: bool) -> gmsol_model::Result<Self::Num> {
        let k = match kind {
            PnlFactorKind::MaxAfterDeposit => &self.pnl_factor.deposit,
            PnlFactorKind::MaxAfterWithdrawal => &self.pnl_factor.withdrawal,
            PnlFactorKind::MaxForTrader => &self.pnl_factor.trader,
            PnlFactorKind::ForAdl => &self.pnl_factor.adl,
            PnlFactorKind::MinAfterAdl => &self.pnl_factor.min_after_adl,
            _ => return Err(gmsol_model::Error::Unimplemented),
        };
        Ok(*k.get(is_long))
    }
    fn reserve_factor(&self) -> gmsol_model::Result<Self::Num> {
        Ok(self.reserve_factor)
    }
    fn open_interest_reserve_factor(&self) -> gmsol_model::Result<Self::Num> {
        Ok(self.open_interest_reserve_factor)
    }
    fn max_open_interest(&self, is_long: bool) -> gmsol_model::Result<Self::Num> {
        Ok(*self.max_open_interest.get(is_long))
    }
    fn ignore_open_interest_for_usage_factor(&self) -> gmsol_model::Result<bool> {
        Ok(self.ignore_open_interest_for_usage_factor)
    }
}

impl<T, const D: u8> BaseMarketMut<D> for VMarket<T, D>
where
    T: FixedPointOps<D> + CheckedSub + Copy,
    T::Signed: Num + Copy,
{
    fn liquidity_pool_mut(&mut self) -> gmsol_model::Result<&mut Self::Pool> {
        Ok(&mut self.liquidity)
    }
    fn claimable_fee_pool_mut(&mut self) -> gmsol_model::Result<&mut Self::Pool> {
        Ok(&mut self.claimable_fee)
    }
    fn virtual_inventory_for_swaps_pool_mut(
        &mut self,
    ) -> gmsol_model::Result<Option<impl DerefMut<Target = Self::Pool>>> {
        Ok(self.vi_swaps.as_mut())
    }
}

fn impact<T: Copy>(p: &VImpact<T>) -> PriceImpactParams<T> {
    PriceImpactParams::builder()
        .exponent(p.exponent)
        .positive_factor(p.positive_factor)
        .negative_factor(p.negative_factor)
        .build()
}

fn fee<T: Copy>(p: &VFee<T>) -> FeeParams<T> {
    let f = FeeParams::builder()
        .fee_receiver_factor(p.fee_receiver_factor)
        .positive_impact_fee_factor(p.positive_impact_fee_factor)
        .negative_impact_fee_factor(p.negative_impact_fee_factor)
        .build();
    match p.discount_factor {
        Some(d) => f.with_discount_factor(d),
        None => f,
    }
}

impl<T, const D: u8> SwapMarket<D> for VMarket<T, D>
where
    T: FixedPointOps<D> + CheckedSub + Copy,
    T::Signed: Num + Copy,
{
    fn swap_impact_params(&self) -> gmsol_model::Result<PriceImpactParams<Self::Num>> {
        Ok(impact(&self.swap_impact_params))
    }
    fn swap_fee_params(&self) -> gmsol_model::Result<FeeParams<Self::Num>> {
        Ok(fee(&self.swap_fee_params))
    }
}

impl<T, const D: u8> SwapMarketMut<D> for VMarket<T, D>
where
    T: FixedPointOps<D> + CheckedSub + Copy,
    T::Signed: Num + Copy,
{
    fn swap_impact_pool_mut(&mut self) -> gmsol_model::Result<&mut Self::Pool> {
        Ok(&mut self.swap_impact)
    }
}

impl<T, const D: u8> LiquidityMarket<D> for VMarket<T, D>
where
    T: FixedPointOps<D> + CheckedSub + Copy,
    T::Signed: Num + Copy,
{
    fn total_supply(&self) -> Self::Num {
        self.total_supply
    }
    fn max_pool_value_for_deposit(&self, is_long_token: bool) -> gmsol_model::Result<Self::Num> {
        Ok(*self.max_pool_value_for_deposit.get(is_long_token))
    }
}

impl<T, const D: u8> LiquidityMarketMut<D> for VMarket<T, D>
where
    T: FixedPointOps<D> + CheckedSub + Copy,
    T::Signed: Num + Copy,
{
    fn mint(&mut self, amount: &Self::Num) -> Result<(), gmsol_model::Error> {
        self.total_supply = self.total_supply.checked_add(amount).ok_or(gmsol_model::Error::Overflow)?;
        Ok(())
    }
    fn burn(&mut self, amount: &Self::Num) -> gmsol_model::Result<()> {
        self.total_supply = self
            .total_supply
            .checked_sub(amount)
            .ok_or(gmsol_model::Error::Computation("burning market tokens"))?;
        Ok(())
    }
}

impl<T, const D: u8> PositionImpactMarket<D> for VMarket<T, D>
where
    T: FixedPointOps<D> + CheckedSub + Copy,
    T::Signed: Num + Copy,
{
    fn position_impact_pool(&self) -> gmsol_model::Result<&Self::Pool> {
        Ok(&self.position_impact)
    }
    fn position_impact_params(&self) -> gmsol_model::Result<PriceImpactParams<Self::Num>> {
        Ok(impact(&self.position_impact_params))
    }
    fn position_impact_distribution_params(
        &self,
    ) -> gmsol_model::Result<PositionImpactDistributionParams<Self::Num>> {
        Ok(PositionImpactDistributionParams::builder()
            .distribute_factor(self.distribute_factor)
            .min_position_impact_pool_amount(self.min_position_impact_pool_amount)
            .build())
    }
    fn passed_in_seconds_for_position_impact_distribution(&self) -> gmsol_model::Result<u64> {
        Ok(self.passed_distribution)
    }
}

impl<T, const D: u8> PositionImpactMarketMut<D> for VMarket<T, D>
where
    T: FixedPointOps<D> + CheckedSub + Copy,
    T::Signed: Num + Copy,
{
    fn position_impact_pool_mut(&mut self) -> gmsol_model::Result<&mut Self::Pool> {
        Ok(&mut self.position_impact)
    }
    fn just_passed_in_seconds_for_position_impact_distribution(&mut self) -> gmsol_model::Result<u64> {
        let d = self.passed_distribution;
        self.passed_distribution = 0;
        Ok(d)
    }
}

impl<T, const D: u8> BorrowingFeeMarket<D> for VMarket<T, D>
where
    T: FixedPointOps<D> + CheckedSub + Copy,
    T::Signed: Num + Copy,
{
    fn borrowing_factor_pool(&self) -> gmsol_model::Result<&Self::Pool> {
        Ok(&self.borrowing_factor)
    }
    fn total_borrowing_pool(&self) -> gmsol_model::Result<&Self::Pool> {
        Ok(&self.total_borrowing)
    }
    fn borrowing_fee_params(&self) -> gmsol_model::Result<BorrowingFeeParams<Self::Num>> {
        let b = &self.borrowing;
        Ok(BorrowingFeeParams::builder()
            .receiver_factor(b.receiver_factor)
            .factor_for_long(b.factor.long)
            .factor_for_short(b.factor.short)
            .exponent_for_long(b.exponent.long)
            .exponent_for_short(b.exponent.short)
            .skip_borrowing_fee_for_smaller_side(b.skip_borrowing_fee_for_smaller_side)
            .build())
    }
    fn passed_in_seconds_for_borrowing(&self) -> gmsol_model::Result<u64> {
        Ok(self.passed_borrowing)
    }
    fn borrowing_fee_kink_model_params(
        &self,
    ) -> gmsol_model::Result<BorrowingFeeKinkModelParams<Self::Num>> {
        let b = &self.borrowing;
        let side = |l: bool| {
            BorrowingFeeKinkModelParamsForOneSide::builder()
                .optimal_usage_factor(*b.optimal_usage_factor.get(l))
                .base_borrowing_factor(*b.base_borrowing_factor.get(l))
                .above_optimal_usage_borrowing_factor(*b.above_optimal_usage_borrowing_factor.get(l))
                .build()
        };
        Ok(BorrowingFeeKinkModelParams::builder().long(side(true)).short(side(false)).build())
    }
}

impl<T, const D: u8> BorrowingFeeMarketMut<D> for VMarket<T, D>
where
    T: FixedPointOps<D> + CheckedSub + Copy,
    T::Signed: Num + Copy,
{
    fn just_passed_in_seconds_for_borrowing(&mut self) -> gmsol_model::Result<u64> {
        let d = self.passed_borrowing;
        self.passed_borrowing = 0;
        Ok(d)
    }
    fn borrowing_factor_pool_mut(&mut self) -> gmsol_model::Result<&mut Self::Pool> {
        Ok(&mut self.borrowing_factor)
    }
}

impl<T, const D: u8> PerpMarket<D> for VMarket<T, D>
where
    T: FixedPointOps<D> + CheckedSub + Copy,
    T::Signed: Num + Copy,
{
    fn funding_factor_per_second(&self) -> &Self::Signed {
        &self.funding_factor_per_second
    }
    fn funding_amount_per_size_pool(&self, is_long: bool) -> gmsol_model::Result<&Self::Pool> {
        Ok(self.funding_amount_per_size.get(is_long))
    }
    fn claimable_funding_amount_per_size_pool(&self, is_long: bool) -> gmsol_model::Result<&Self::Pool> {
        Ok(self.claimable_funding_amount_per_size.get(is_long))
    }
    fn funding_amount_per_size_adjustment(&self) -> Self::Num {
        self.funding_amount_per_size_adjustment
    }
    fn funding_fee_params(&self) -> gmsol_model::Result<FundingFeeParams<Self::Num>> {
        let f = &self.funding;
        Ok(FundingFeeParams::builder()
            .exponent(f.exponent)
            .funding_factor(f.funding_factor)
            .max_factor_per_second(f.max_factor_per_second)
            .min_factor_per_second(f.min_factor_per_second)
            .increase_factor_per_second(f.increase_factor_per_second)
            .decrease_factor_per_second(f.decrease_factor_per_second)
            .threshold_for_stable_funding(f.threshold_for_stable_funding)
            .threshold_for_decrease_funding(f.threshold_for_decrease_funding)
            .build())
    }
    fn position_params(&self) -> gmsol_model::Result<PositionParams<Self::Num>> {
        let p = &self.position_params;
        Ok(PositionParams::builder()
            .min_position_size_usd(p.min_position_size_usd)
            .min_collateral_value(p.min_collateral_value)
            .min_collateral_factor(p.min_collateral_factor)
            .min_collateral_factor_for_liquidation(p.min_collateral_factor_for_liquidation)
            .max_positive_position_impact_factor(p.max_positive_position_impact_factor)
            .max_negative_position_impact_factor(p.max_negative_position_impact_factor)
            .max_position_impact_factor_for_liquidations(p.max_position_impact_factor_for_liquidations)
            .build())
    }
    fn order_fee_params(&self) -> gmsol_model::Result<FeeParams<Self::Num>> {
        Ok(fee(&self.order_fee_params))
    }
    fn min_collateral_factor_for_open_interest_multiplier(
        &self,
        is_long: bool,
    ) -> gmsol_model::Result<Self::Num> {
        Ok(*self.min_collateral_factor_for_oi_multiplier.get(is_long))
    }
    fn liquidation_fee_params(&self) -> gmsol_model::Result<LiquidationFeeParams<Self::Num>> {
        Ok(LiquidationFeeParams::builder()
            .factor(self.liquidation_fee_factor)
            .receiver_factor(self.liquidation_fee_receiver_factor)
            .build())
    }
}

impl<T, const D: u8> PerpMarketMut<D> for VMarket<T, D>
where
    T: FixedPointOps<D> + CheckedSub + Copy,
    T::Signed: Num + Copy,
{
    fn just_passed_in_seconds_for_funding(&mut self) -> gmsol_model::Result<u64> {
        let d = self.passed_funding;
        self.passed_funding = 0;
        Ok(d)
    }
    fn funding_factor_per_second_mut(&mut self) -> &mut Self::Signed {
        &mut self.funding_factor_per_second
    }
    fn open_interest_pool_mut(&mut self, is_long: bool) -> gmsol_model::Result<&mut Self::Pool> {
        Ok(self.open_interest.get_mut(is_long))
    }
    fn open_interest_in_tokens_pool_mut(&mut self, is_long: bool) -> gmsol_model::Result<&mut Self::Pool> {
        Ok(self.open_interest_in_tokens.get_mut(is_long))
    }
    fn funding_amount_per_size_pool_mut(&mut self, is_long: bool) -> gmsol_model::Result<&mut Self::Pool> {
        Ok(self.funding_amount_per_size.get_mut(is_long))
    }
    fn claimable_funding_amount_per_size_pool_mut(
        &mut self,
        is_long: bool,
    ) -> gmsol_model::Result<&mut Self::Pool> {
        Ok(self.claimable_funding_amount_per_size.get_mut(is_long))
    }
    fn collateral_sum_pool_mut(&mut self, is_long: bool) -> gmsol_model::Result<&mut Self::Pool> {
        Ok(self.collateral_sum.get_mut(is_long))
    }
    fn total_borrowing_pool_mut(&mut self) -> gmsol_model::Result<&mut Self::Pool> {
        Ok(&mut self.total_borrowing)
    }
    fn virtual_inventory_for_positions_pool_mut(
        &mut self,
    ) -> gmsol_model::Result<Option<impl DerefMut<Target = Self::Pool>>> {
        Ok(self.vi_positions.as_mut())
    }
    fn on_insufficient_funding_fee_payment(
        &mut self,
        cost_amount: &Self::Num,
        paid_in_collateral_amount: &Self::Num,
        paid_in_secondary_output_amount: &Self::Num,
        _is_collateral_token_long: bool,
    ) -> gmsol_model::Result<()> {
        self.insufficient_funding_reports = self.insufficient_funding_reports.saturating_add(1);
        self.last_insufficient_cost = *cost_amount;
        self.last_insufficient_paid_collateral = *paid_in_collateral_amount;
        self.last_insufficient_paid_secondary = *paid_in_secondary_output_amount;
        Ok(())
    }
}

// --------------------------------------------------------------------------------------------
// Position
// --------------------------------------------------------------------------------------------
#[derive(Debug, Clone, Copy, PartialEq, Eq)]
pub struct VPositionG<T, S, const D: u8> {
    pub market: VMarketG<T, S, D>,
    pub is_long: bool,
    pub is_collateral_token_long: bool,
    pub collateral_amount: T,
    pub size_in_usd: T,
    pub size_in_tokens: T,
    pub borrowing_factor: T,
    pub funding_fee_amount_per_size: T,
    pub claimable_funding_fee_amount_per_size: Side2<T>,
    // callback counters
    pub increased: u8,
    pub decreased: u8,
    pub swapped: u8,
    pub swap_errors: u8,
}

impl<T: Unsigned + Zero + Copy, const D: u8> VPosition<T, D>
where
    T::Signed: Zero + Copy,
{
    pub fn zero(market: VMarket<T, D>, is_long: bool, is_collateral_token_long: bool) -> Self {
        let z = T::zero();
        Self {
            market,
            is_long,
            is_collateral_token_long,
            collateral_amount: z,
            size_in_usd: z,
            size_in_tokens: z,
            borrowing_factor: z,
            funding_fee_amount_per_size: z,
            claimable_funding_fee_amount_per_size: Side2::both(z),
            increased: 0,
            decreased: 0,
            swapped: 0,
            swap_errors: 0,
        }
    }
}

impl<T: Unsigned + kani::Arbitrary + Zero + Copy, const D: u8> VPosition<T, D>
where
    T::Signed: kani::Arbitrary + Zero + Copy,
{
    /// Position with every field symbolic over the given market.
    pub fn any(market: VMarket<T, D>) -> Self {
        let mut p = Self::zero(market, kani::any(), kani::any());
        p.collateral_amount = kani::any();
        p.size_in_usd = kani::any();
        p.size_in_tokens = kani::any();
        p.borrowing_factor = kani::any();
        p.funding_fee_amount_per_size = kani::any();
        p.claimable_funding_fee_amount_per_size = Side2::any();
        p
    }
}

impl<T, const D: u8> PositionState<D> for VPosition<T, D>
where
    T: FixedPointOps<D> + CheckedSub + Copy,
    T::Signed: Num + Copy,
{
    type Num = T;
    type Signed = T::Signed;

    fn collateral_amount(&self) -> &Self::Num {
        &self.collateral_amount
    }
    fn size_in_usd(&self) -> &Self::Num {
        &self.size_in_usd
    }
    fn size_in_tokens(&self) -> &Self::Num {
        &self.size_in_tokens
    }
    fn borrowing_factor(&self) -> &Self::Num {
        &self.borrowing_factor
    }
    fn funding_fee_amount_per_size(&self) -> &Self::Num {
        &self.funding_fee_amount_per_size
    }
    fn claimable_funding_fee_amount_per_size(&self, is_long_collateral: bool) -> &Self::Num {
        self.claimable_funding_fee_amount_per_size.get(is_long_collateral)
    }
}

impl<T, const D: u8> PositionStateMut<D> for VPosition<T, D>
where
    T: FixedPointOps<D> + CheckedSub + Copy,
    T::Signed: Num + Copy,
{
    fn collateral_amount_mut(&mut self) -> &mut Self::Num {
        &mut self.collateral_amount
    }
    fn size_in_usd_mut(&mut self) -> &mut Self::Num {
        &mut self.size_in_usd
    }
    fn size_in_tokens_mut(&mut self) -> &mut Self::Num {
        &mut self.size_in_tokens
    }
    fn borrowing_factor_mut(&mut self) -> &mut Self::Num {
        &mut self.borrowing_factor
    }
    fn funding_fee_amount_per_size_mut(&mut self) -> &mut Self::Num {
        &mut self.funding_fee_amount_per_size
    }
    fn claimable_funding_fee_amount_per_size_mut(&mut self, is_long_collateral: bool) -> &mut Self::Num {
        self.claimable_funding_fee_amount_per_size.get_mut(is_long_collateral)
    }
}

impl<T, const D: u8> Position<D> for VPosition<T, D>
where
    T: FixedPointOps<D> + CheckedSub + Copy,
    T::Signed: Num + Copy,
{
    type Market = VMarket<T, D>;

    fn market(&self) -> &Self::Market {
        &self.market
    }
    fn is_long(&self) -> bool {
        self.is_long
    }
    fn is_collateral_token_long(&self) -> bool {
        self.is_collateral_token_long
    }
    fn are_pnl_and_collateral_tokens_the_same(&self) -> bool {
        self.is_long == self.is_collateral_token_long
    }
    fn on_validate(&self) -> gmsol_model::Result<()> {
        Ok(())
    }
}

impl<T, const D: u8> PositionMut<D> for VPosition<T, D>
where
    T: FixedPointOps<D> + CheckedSub + Copy,
    T::Signed: Num + Copy,
{
    fn market_mut(&mut self) -> &mut Self::Market {
        &mut self.market
    }
    fn on_increased(&mut self) -> gmsol_model::Result<()> {
        self.increased = self.increased.saturating_add(1);
        Ok(())
    }
    fn on_decreased(&mut self) -> gmsol_model::Result<()> {
        self.decreased = self.decreased.saturating_add(1);
        Ok(())
    }
    fn on_swapped(
        &mut self,
        _ty: DecreasePositionSwapType,
        _report: &SwapReport<Self::Num, <Self::Num as Unsigned>::Signed>,
    ) -> gmsol_model::Result<()> {
        self.swapped = self.swapped.saturating_add(1);
        Ok(())
    }
    fn on_swap_error(&mut self, _ty: DecreasePositionSwapType, error: gmsol_model::Error) -> gmsol_model::Result<()> {
        self.swap_errors = self.swap_errors.saturating_add(1);
        core::mem::forget(error);
        Ok(())
    }
}

// --------------------------------------------------------------------------------------------
// prices
// --------------------------------------------------------------------------------------------
pub fn any_price<T: kani::Arbitrary>() -> Price<T> {
    Price { min: kani::any(), max: kani::any() }
}

/// Arbitrary prices; `ordered` additionally assumes `0 < min <= max` for each token (what the oracle
/// layer guarantees, C24); without it only what `Prices::is_valid` checks is guaranteed by the code.
pub fn any_prices<T: kani::Arbitrary + Ord + Zero>(ordered: bool) -> Prices<T> {
    let p: Prices<T> = Prices {
        index_token_price: any_price(),
        long_token_price: any_price(),
        short_token_price: any_price(),
    };
    if ordered {
        kani::assume(!p.index_token_price.min.is_zero() && p.index_token_price.min <= p.index_token_price.max);
        kani::assume(!p.long_token_price.min.is_zero() && p.long_token_price.min <= p.long_token_price.max);
        kani::assume(!p.short_token_price.min.is_zero() && p.short_token_price.min <= p.short_token_price.max);
    }
    p
}

pub fn flat_prices<T: Copy>(index: T, long: T, short: T) -> Prices<T> {
    Prices {
        index_token_price: Price { min: index, max: index },
        long_token_price: Price { min: long, max: long },
        short_token_price: Price { min: short, max: short },
    }
}
