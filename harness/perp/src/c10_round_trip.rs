//! C10 — opening and immediately closing a position is never profitable (component level).
//!
//!   (1) `PositionExt::size_delta_in_tokens` (close): long rounds the closed tokens up, short rounds
//!       down, a full close returns all tokens — exact reference.
//!   (2) `IncreasePosition::get_execution_params` (open): long gets `floor(size/max_price)` tokens,
//!       short owes `ceil(size/min_price)` tokens; positive impact is converted rounding down (at the
//!       max price), negative impact rounding its magnitude up (at the min price) — exact reference.
//!   (3) `PerpMarketExt::cap_positive_position_price_impact` / `cap_negative_position_price_impact`:
//!       exact reference for both caps and the returned difference.
//!   (4) composition of (2) and `PositionExt::pnl_value` with zero price impact: a position opened
//!       from empty and valued for a full close at the same prices has pnl <= 0.
use crate::vmarket::*;
use gmsol_model::{
    action::increase_position::IncreasePosition,
    fixed::FixedPointOps,
    num::{Num, Unsigned},
    price::{Price, Prices},
    PerpMarketExt, PositionExt,
};
use num_traits::{CheckedSub, Signed, Zero};

fn w<T: Into<u32>>(x: T) -> i32 {
    let v: u32 = x.into();
    v as i32
}
fn ws<S: Into<i32>>(x: S) -> i32 {
    x.into()
}
fn ceil_div(a: i32, b: i32) -> i32 {
    (a + b - 1) / b
}

// ------------------------------------------------------------------------------------------------
// (1)

fn size_delta_in_tokens_rounding<T, const D: u8>()
where
    T: FixedPointOps<D> + CheckedSub + Copy + kani::Arbitrary + Into<u32> + num_traits::Bounded,
    T::Signed: Num + Copy + kani::Arbitrary,
{
    let max = w(T::max_value());
    let m = VMarket::<T, D>::zero();
    let mut p = VPosition::<T, D>::zero(m, kani::any(), kani::any());
    p.size_in_usd = kani::any();
    p.size_in_tokens = kani::any();
    let delta: T = kani::any();
    let r = p.size_delta_in_tokens(&delta);
    let (size, tokens, d) = (w(p.size_in_usd), w(p.size_in_tokens), w(delta));
    match &r {
        Ok(v) => {
            if d == size {
                assert!(w(*v) == tokens);
            } else if p.is_long {
                // rounds up: the closed share of tokens is never less than proportional
                assert!(w(*v) == ceil_div(tokens * d, size));
            } else {
                assert!(w(*v) == tokens * d / size);
            }
            kani::cover!(p.is_long && d < size && (tokens * d) % size != 0, "long rounds up");
            kani::cover!(!p.is_long && d < size && (tokens * d) % size != 0, "short rounds down");
            kani::cover!(d == size && tokens > 0, "full close");
        }
        Err(_) => {
            assert!(d != size);
            let exact = if size == 0 { None } else if p.is_long { Some(ceil_div(tokens * d, size)) } else { Some(tokens * d / size) };
            assert!(exact.map(|v| v > max).unwrap_or(true));
        }
    }
    core::mem::forget(r);
}

//@ prop=C10 tier=quick kind=hold
//@ enc=PositionExt::size_delta_in_tokens, MulDiv::checked_mul_div, MulDiv::checked_mul_div_ceil
//@ bound=T=u8, DECIMALS=1: every size in usd, size in tokens, size delta and side
//@ stubs=none
#[kani::proof]
fn c10_size_delta_in_tokens_rounding_u8() {
    size_delta_in_tokens_rounding::<u8, 1>();
}

// ------------------------------------------------------------------------------------------------
// (2)

/// Market for the open path; impact parameters symbolic iff `impact`.
fn open_market<T, const D: u8>(impact: bool) -> VMarket<T, D>
where
    T: FixedPointOps<D> + CheckedSub + Copy + kani::Arbitrary + Into<u32>,
    T::Signed: Num + Copy + kani::Arbitrary,
{
    let mut m = VMarket::<T, D>::zero();
    m.position_impact_params.exponent = T::UNIT;
    m.open_interest = Side2 { long: VPool::any(), short: VPool::any() };
    if impact {
        m.position_impact_params.positive_factor = kani::any();
        m.position_impact_params.negative_factor = kani::any();
        m.position_params.max_positive_position_impact_factor = kani::any();
        m.position_impact = VPool { long: kani::any(), short: T::zero() };
    }
    m
}

fn open_rounding<T, const D: u8>(impact: bool)
where
    T: FixedPointOps<D> + CheckedSub + Copy + kani::Arbitrary + Into<u32> + num_traits::Bounded,
    T::Signed: Num + Copy + kani::Arbitrary + Into<i32>,
{
    let m = open_market::<T, D>(impact);
    let mut p = VPosition::<T, D>::zero(m, kani::any(), kani::any());
    let prices: Prices<T> = any_prices(true);
    let size_delta: T = kani::any();
    let mut pos0 = p;
    let a = IncreasePosition::try_new(&mut pos0, prices, T::zero(), size_delta, None);
    let Ok(a) = a else {
        core::mem::forget(a);
        return;
    };
    let a = a.verif_with_position(&mut p);
    let is_long = a.verif_position().is_long;
    let r = a.verif_get_execution_params();
    if let Ok((e, pi)) = &r {
        let sd = w(size_delta);
        let (pmin, pmax) = (w(prices.index_token_price.min), w(prices.index_token_price.max));
        let v = ws(*e.price_impact_value());
        let amt = ws(*e.price_impact_amount());
        assert!(v == ws(pi.value));
        if sd == 0 {
            assert!(w(*e.size_delta_in_tokens()) == 0 && v == 0 && amt == 0);
        } else {
            if !impact {
                assert!(v == 0 && amt == 0);
            }
            // impact value -> index tokens: gains rounded down at the max price, losses rounded up at the min price
            if v > 0 {
                assert!(amt == v / pmax);
            } else {
                assert!(amt == -ceil_div(-v, pmin));
            }
            // base tokens: long buys at the max price rounding down, short sells at the min price rounding up
            let base = if is_long { sd / pmax } else { ceil_div(sd, pmin) };
            let tokens = if is_long { base + amt } else { base - amt };
            assert!(w(*e.size_delta_in_tokens()) == tokens);
            if amt == 0 {
                // against the trader: a long never holds more tokens than paid for, a short never owes fewer
                if is_long {
                    assert!(tokens * pmax <= sd);
                } else {
                    assert!(tokens * pmin >= sd);
                }
            }
            kani::cover!(is_long && sd % pmax != 0, "long rounds down");
            kani::cover!(!is_long && sd % pmin != 0, "short rounds up");
        }
    }
    core::mem::forget(r);
}

//@ prop=C10 tier=quick kind=hold
//@ enc=IncreasePosition::try_new, IncreasePosition::get_execution_params, PositionExt::capped_positive_position_price_impact, PositionExt::position_price_impact, get_execution_price_for_increase, Unsigned::checked_round_up_div
//@ bound=T=u8, DECIMALS=1: every size delta, ordered index price (0 < min <= max), side and open-interest pool; position-impact factors zero (no price impact)
//@ stubs=none; hook: IncreasePosition::verif_get_execution_params (thin wrapper)
#[kani::proof]
#[kani::unwind(4)]
fn c10_open_rounding_no_impact_u8() {
    open_rounding::<u8, 1>(false);
}

//@ prop=C10 tier=quick kind=hold
//@ enc=IncreasePosition::get_execution_params, PositionExt::capped_positive_position_price_impact, PositionExt::position_price_impact, PoolDelta::price_impact, PerpMarketExt::cap_positive_position_price_impact, Unsigned::as_divisor_to_round_up_magnitude_div
//@ bound=T=u8, DECIMALS=1: as c10_open_rounding_no_impact_u8 with symbolic impact factors (exponent 1*UNIT), impact pool and max positive impact factor
//@ stubs=none; hook as above
#[kani::proof]
#[kani::unwind(4)]
fn c10_open_rounding_with_impact_u8() {
    open_rounding::<u8, 1>(true);
}

// ------------------------------------------------------------------------------------------------
// (3)

fn impact_caps_exact<T, const D: u8>()
where
    T: FixedPointOps<D> + CheckedSub + Copy + kani::Arbitrary + Into<u32> + num_traits::Bounded,
    T::Signed: Num + Copy + kani::Arbitrary + Into<i32> + num_traits::Bounded,
{
    let unit = w(T::UNIT);
    let mut m = VMarket::<T, D>::zero();
    m.position_impact = VPool { long: kani::any(), short: T::zero() };
    m.position_params.max_positive_position_impact_factor = kani::any();
    m.position_params.max_negative_position_impact_factor = kani::any();
    m.position_params.max_position_impact_factor_for_liquidations = kani::any();
    let price: Price<T> = any_price();
    let size_delta: T::Signed = kani::any();
    let impact0: T::Signed = kani::any();
    let abs_sd = ws(size_delta).abs();

    // positive cap
    let mut impact = impact0;
    let r = m.cap_positive_position_price_impact(&price, &size_delta, &mut impact);
    if r.is_ok() {
        let i0 = ws(impact0);
        if i0 < 0 {
            assert!(ws(impact) == i0);
        } else {
            let by_pool = w(m.position_impact.long) * w(price.min);
            let by_factor = abs_sd * w(m.position_params.max_positive_position_impact_factor) / unit;
            let want = i0.min(by_pool).min(by_factor);
            assert!(ws(impact) == want);
            kani::cover!(want == by_pool && by_pool < i0 && by_pool < by_factor, "capped by the impact pool");
            kani::cover!(want == by_factor && by_factor < i0 && by_factor < by_pool, "capped by the max factor");
            kani::cover!(want == i0 && i0 > 0, "not capped");
        }
    }
    core::mem::forget(r);

    // negative cap
    let for_liquidations: bool = kani::any();
    let mut impact = impact0;
    let r = m.cap_negative_position_price_impact(&size_delta, for_liquidations, &mut impact);
    if let Ok(diff) = &r {
        let i0 = ws(impact0);
        if i0 >= 0 {
            assert!(ws(impact) == i0 && w(*diff) == 0);
        } else {
            let f = if for_liquidations {
                w(m.position_params.max_position_impact_factor_for_liquidations)
            } else {
                w(m.position_params.max_negative_position_impact_factor)
            };
            let floor = -(abs_sd * f / unit);
            let want = i0.max(floor);
            assert!(ws(impact) == want);
            assert!(w(*diff) == want - i0);
            kani::cover!(want > i0 && for_liquidations, "negative impact capped (liquidation factor)");
            kani::cover!(want > i0 && !for_liquidations, "negative impact capped (regular factor)");
            kani::cover!(want == i0, "negative impact within the cap");
        }
    }
    core::mem::forget(r);
}

//@ prop=C10 tier=quick kind=hold
//@ enc=PerpMarketExt::cap_positive_position_price_impact, PerpMarketExt::cap_negative_position_price_impact, utils::apply_factor
//@ bound=T=u8/i8, DECIMALS=1: every impact value, size delta, impact-pool amount, price, cap factor and the liquidation switch
//@ stubs=none
#[kani::proof]
fn c10_impact_caps_exact_u8() {
    impact_caps_exact::<u8, 1>();
}

// ------------------------------------------------------------------------------------------------
// (4)

fn open_then_value_not_positive<T, const D: u8>(is_long: bool) -> bool
where
    T: FixedPointOps<D> + CheckedSub + Copy + kani::Arbitrary + Into<u32> + num_traits::Bounded,
    T::Signed: Num + Copy + kani::Arbitrary + Into<i32>,
{
    // empty market side except for symbolic "other" open interest; no price impact
    let mut m = open_market::<T, D>(false);
    m.open_interest_in_tokens = Side2 { long: VPool::any(), short: VPool::any() };
    m.liquidity = VPool::any();
    m.pnl_factor.trader = Side2::any();
    let mut p = VPosition::<T, D>::zero(m, is_long, kani::any());
    let prices: Prices<T> = any_prices(true);
    let size_delta: T = kani::any();
    kani::assume(!size_delta.is_zero());
    let tokens = {
        let mut pos0 = p;
        let a = IncreasePosition::try_new(&mut pos0, prices, T::zero(), size_delta, None);
        let Ok(a) = a else {
            core::mem::forget(a);
            return false;
        };
        let a = a.verif_with_position(&mut p);
        let r = a.verif_get_execution_params();
        let Ok((e, _)) = &r else {
            core::mem::forget(r);
            return false;
        };
        let t = *e.size_delta_in_tokens();
        core::mem::forget(r);
        t
    };
    // the position as `IncreasePosition::execute` leaves it (sizes), pools containing it
    p.size_in_usd = size_delta;
    p.size_in_tokens = tokens;
    let il = p.is_long;
    let cl = p.is_collateral_token_long;
    kani::assume(*p.market.open_interest.get(il).side(cl) >= size_delta);
    kani::assume(*p.market.open_interest_in_tokens.get(il).side(cl) >= tokens);

    let r = p.pnl_value(&prices, &size_delta);
    let mut even = false;
    if let Ok((pnl, uncapped, sdt)) = &r {
        assert!(*sdt == tokens);
        assert!(ws(*uncapped) <= 0);
        assert!(ws(*pnl) <= 0);
        kani::cover!(ws(*pnl) < 0, "strict loss from rounding or spread");
        even = ws(*pnl) == 0;
    }
    core::mem::forget(r);
    even
}

//@ prop=C10 tier=quick kind=hold
//@ enc=IncreasePosition::get_execution_params, PositionExt::pnl_value, PositionExt::size_delta_in_tokens, BaseMarketExt::pnl, MarketUtils::cap_pnl
//@ bound=T=u8, DECIMALS=1: long position; every size delta, ordered index/long/short prices, collateral token, open-interest / liquidity pool and trader pnl factor; position-impact factors zero; the position is opened from empty and valued for a full close at the same prices
//@ stubs=none; hooks: IncreasePosition::verif_get_execution_params, verif_with_position
#[kani::proof]
#[kani::unwind(4)]
fn c10_open_then_value_not_positive_long_u8() {
    let even = open_then_value_not_positive::<u8, 1>(true);
    kani::cover!(even, "breaks even");
}

//@ prop=C10 tier=quick kind=hold
//@ enc=IncreasePosition::get_execution_params, PositionExt::pnl_value, PositionExt::size_delta_in_tokens, BaseMarketExt::pnl, MarketUtils::cap_pnl
//@ bound=T=u8, DECIMALS=1: short position; every size delta, ordered index/long/short prices, collateral token, open-interest / liquidity pool and trader pnl factor; position-impact factors zero; the position is opened from empty and valued for a full close at the same prices
//@ stubs=none; hooks: IncreasePosition::verif_get_execution_params, verif_with_position
#[kani::proof]
#[kani::unwind(4)]
fn c10_open_then_value_not_positive_short_u8() {
    let even = open_then_value_not_positive::<u8, 1>(false);
    kani::cover!(even, "breaks even");
}

