//! C09 (model part) — positions are left healthy, and only unhealthy ones can be liquidated.
//!
//! Component level:
//!   (1) `PositionExt::will_collateral_be_sufficient` against an exact reference of the leverage rule.
//!   (2) `PositionExt::check_liquidatable` against an exact reference of the remaining-collateral
//!       rule (pnl with the trader cap, both threshold sets), with fees and price impact configured
//!       to zero in the quick tier.
//!   (3) `DecreasePosition::check_liquidation`: a liquidation order passes the gate iff
//!       `check_liquidatable(prices, true, true)` is `Some`; other orders always pass.
//!   (4) `PositionExt::validate`: `Ok` implies sizes non-zero, size >= minimum (when asked) and
//!       `check_liquidatable(prices, validate_min_collateral, false)` is `None`.
//! The ADL clause and the `size_delta >= size` requirement for liquidations live in
//! `programs/store/src/ops/order.rs` and are outside this check.
use crate::vmarket::*;
use gmsol_model::{
    action::decrease_position::{DecreasePosition, DecreasePositionFlags},
    fixed::FixedPointOps,
    num::{Num, Unsigned},
    position::{CollateralDelta, LiquidatableReason, WillCollateralBeSufficient},
    price::Prices,
    PositionExt,
};
use num_traits::{CheckedSub, Signed, Zero};

fn w<T: Into<u32>>(x: T) -> i32 {
    let v: u32 = x.into();
    v as i32
}
fn ws<S: Into<i32>>(x: S) -> i32 {
    x.into()
}

// ------------------------------------------------------------------------------------------------
// (1) will_collateral_be_sufficient

fn will_collateral_be_sufficient_exact<T, const D: u8>()
where
    T: FixedPointOps<D> + CheckedSub + Copy + kani::Arbitrary + Into<u32> + num_traits::Bounded,
    T::Signed: Num + Copy + kani::Arbitrary + Into<i32> + num_traits::Bounded,
{
    let unit = w(T::UNIT);
    let max = w(T::max_value());
    let smax = ws(<T::Signed as num_traits::Bounded>::max_value());
    let mut m = VMarket::<T, D>::zero();
    m.open_interest = Side2 { long: VPool::any(), short: VPool::any() };
    m.position_params.min_collateral_factor = kani::any();
    m.min_collateral_factor_for_oi_multiplier = Side2::any();
    let p = VPosition::<T, D>::zero(m, kani::any(), kani::any());
    let prices: Prices<T> = any_prices(false);
    let next_size: T = kani::any();
    let next_collateral: T = kani::any();
    let realized_pnl: T::Signed = kani::any();
    let oi_delta: T::Signed = kani::any();
    let delta = CollateralDelta::new(next_size, next_collateral, realized_pnl, oi_delta);

    let r = p.will_collateral_be_sufficient(&prices, &delta);

    let cp = w(if p.is_collateral_token_long { prices.long_token_price.min } else { prices.short_token_price.min });
    let value = w(next_collateral) * cp;
    let mut remaining = value;
    if ws(realized_pnl) < 0 {
        remaining += ws(realized_pnl);
    }
    let pool = m.open_interest.get(p.is_long);
    let next_oi = w(pool.long) + w(pool.short) + ws(oi_delta);
    let oi_factor = next_oi * w(*m.min_collateral_factor_for_oi_multiplier.get(p.is_long)) / unit;
    let factor = if oi_factor > w(m.position_params.min_collateral_factor) { oi_factor } else { w(m.position_params.min_collateral_factor) };
    let required = w(next_size) * factor / unit;

    match &r {
        Ok(WillCollateralBeSufficient::Sufficient(v)) => {
            assert!(ws(*v) == remaining);
            assert!(remaining >= 0 && remaining >= required);
            kani::cover!(remaining == required && required > 0, "exactly at the leverage bound");
            kani::cover!(oi_factor > w(m.position_params.min_collateral_factor), "open-interest factor binds");
        }
        Ok(WillCollateralBeSufficient::Insufficient(v)) => {
            assert!(ws(*v) == remaining);
            assert!(remaining < 0 || remaining < required);
            kani::cover!(remaining < 0, "negative after realized loss");
            kani::cover!(remaining >= 0 && remaining + 1 == required, "one below the leverage bound");
        }
        Err(_) => {
            // only representability problems
            let fits = value <= max && value <= smax && remaining >= -smax - 1
                && w(pool.long) + w(pool.short) <= max && next_oi >= 0 && next_oi <= max
                && oi_factor <= max && required <= max;
            assert!(!fits || remaining < 0);
            // a negative remaining value is reported as Insufficient before any factor is computed
            assert!(!(value <= max && value <= smax && remaining >= -smax - 1 && remaining < 0));
        }
    }
    core::mem::forget(r);
}

//@ prop=C09 tier=quick kind=hold
//@ enc=PositionExt::will_collateral_be_sufficient, PerpMarketExt::min_collateral_factor_for_open_interest, position::check_collateral, utils::apply_factor
//@ bound=T=u8/i8, DECIMALS=1: every next size/collateral, realized pnl, open-interest delta, open-interest pool, min collateral factor, open-interest multiplier, side, collateral token and price
//@ stubs=none; market/position = plain-struct VMarket/VPosition
#[kani::proof]
fn c09_will_collateral_be_sufficient_exact_u8() {
    will_collateral_be_sufficient_exact::<u8, 1>();
}

// ------------------------------------------------------------------------------------------------
// (2) check_liquidatable

/// Market/position for the liquidation rule.
///
/// `level 0` (quick): position size in usd pinned to 100 inside a usd open interest of 120 on its
/// own slot; size in tokens, collateral, the own open-interest-in-tokens slot, its side of the
/// liquidity pool, thresholds and prices (flat collateral price, index price with spread) symbolic; no fees, no price impact, borrowing and funding settled (their code still runs, on
/// zeros). `level 1`: every pool slot and every price (min <= max) symbolic, still zero fees/impact
/// (the exact reference below applies). `level 2`: additionally symbolic order/borrowing fees and
/// position-impact factors (reference = the real `check_liquidatable` on the same state).
pub fn liq_state<T, const D: u8>(level: u8) -> (VPosition<T, D>, Prices<T>)
where
    T: FixedPointOps<D> + CheckedSub + Copy + kani::Arbitrary + Into<u32> + num_traits::Bounded,
    T::Signed: Num + Copy + kani::Arbitrary,
{
    liq_state_for::<T, D>(level, kani::any(), kani::any())
}

/// As [`liq_state`] for a given side / collateral token (concrete flags let the symbolic execution
/// fold the parts that only depend on concrete pools).
pub fn liq_state_for<T, const D: u8>(level: u8, is_long: bool, cl: bool) -> (VPosition<T, D>, Prices<T>)
where
    T: FixedPointOps<D> + CheckedSub + Copy + kani::Arbitrary + Into<u32> + num_traits::Bounded,
    T::Signed: Num + Copy + kani::Arbitrary,
{
    let mut m = VMarket::<T, D>::zero();
    if level == 0 {
        let (oit, liq): (T, T) = (kani::any(), kani::any());
        // usd open interest of the own slot: the position (100) plus a rest of 20
        let oi = T::from_u8(120).unwrap();
        let pool = m.open_interest.get_mut(is_long);
        if cl { pool.long = oi } else { pool.short = oi }
        let pool = m.open_interest_in_tokens.get_mut(is_long);
        if cl { pool.long = oit } else { pool.short = oit }
        if is_long { m.liquidity.long = liq } else { m.liquidity.short = liq }
    } else {
        m.open_interest = Side2 { long: VPool::any(), short: VPool::any() };
        m.open_interest_in_tokens = Side2 { long: VPool::any(), short: VPool::any() };
        m.liquidity = VPool::any();
    }
    m.pnl_factor.trader = Side2::any();
    m.position_params.min_position_size_usd = kani::any();
    m.position_params.min_collateral_value = kani::any();
    m.position_params.min_collateral_factor = kani::any();
    m.position_params.min_collateral_factor_for_liquidation = kani::any();
    m.position_impact_params.exponent = T::UNIT;
    m.funding_amount_per_size_adjustment = T::one();
    if level >= 2 {
        m.position_impact_params.positive_factor = kani::any();
        m.position_impact_params.negative_factor = kani::any();
        m.position_params.max_position_impact_factor_for_liquidations = kani::any();
        m.order_fee_params.positive_impact_fee_factor = kani::any();
        m.order_fee_params.negative_impact_fee_factor = kani::any();
        m.order_fee_params.fee_receiver_factor = kani::any();
        m.borrowing.receiver_factor = kani::any();
        m.borrowing_factor = VPool::any();
    }
    let mut p = VPosition::<T, D>::zero(m, is_long, cl);
    // level 0 pins the usd size (fees and price impact, which only depend on it and on the usd open
    // interest, then run on concrete values); tokens, collateral, prices and thresholds stay symbolic
    p.size_in_usd = if level == 0 { T::from_u8(100).unwrap() } else { kani::any() };
    p.size_in_tokens = kani::any();
    p.collateral_amount = kani::any();
    if level >= 2 {
        p.borrowing_factor = kani::any();
        kani::assume(p.borrowing_factor <= *m.borrowing_factor.side(is_long));
    }
    // the pools contain the position
    kani::assume(*m.open_interest.get(is_long).side(cl) >= p.size_in_usd);
    kani::assume(*m.open_interest_in_tokens.get(is_long).side(cl) >= p.size_in_tokens);
    let prices = if level == 0 {
        let index: gmsol_model::price::Price<T> = any_price();
        let (c_long, c_short): (T, T) = (kani::any(), kani::any());
        kani::assume(!index.min.is_zero() && index.min <= index.max && !c_long.is_zero() && !c_short.is_zero());
        Prices {
            index_token_price: index,
            long_token_price: gmsol_model::price::Price { min: c_long, max: c_long },
            short_token_price: gmsol_model::price::Price { min: c_short, max: c_short },
        }
    } else {
        any_prices(true)
    };
    (p, prices)
}

/// Exact pnl of the whole position (capped for the trader), `None` when the code cannot compute it.
fn pnl_ref<T, const D: u8>(p: &VPosition<T, D>, prices: &Prices<T>) -> Option<i32>
where
    T: FixedPointOps<D> + CheckedSub + Copy + Into<u32> + num_traits::Bounded,
    T::Signed: Num + Copy,
{
    let unit = w(T::UNIT);
    let max = w(T::max_value());
    let m = &p.market;
    let il = p.is_long;
    let price = w(if il { prices.index_token_price.min } else { prices.index_token_price.max });
    let value = w(p.size_in_tokens) * price;
    if value > max {
        return None;
    }
    let mut total = if il { value - w(p.size_in_usd) } else { w(p.size_in_usd) - value };
    if total > 0 {
        let liq = w(*m.liquidity.side(il));
        let cprice = w(if il { prices.long_token_price.min } else { prices.short_token_price.min });
        let pool_value = liq * cprice;
        if pool_value > max {
            return None;
        }
        let oi = w(m.open_interest.get(il).long) + w(m.open_interest.get(il).short);
        let oit = w(m.open_interest_in_tokens.get(il).long) + w(m.open_interest_in_tokens.get(il).short);
        if oi > max || oit > max {
            return None;
        }
        // pool pnl is maximised: longs at the max price, shorts at the min price
        let pp = w(if il { prices.index_token_price.max } else { prices.index_token_price.min });
        let oiv = oit * pp;
        if oiv > max {
            return None;
        }
        let pool_pnl = if il { oiv - oi } else { oi - oiv };
        let mut capped = pool_pnl;
        if pool_pnl > 0 {
            let max_pnl = pool_value * w(*m.pnl_factor.trader.get(il)) / unit;
            if max_pnl > max {
                return None;
            }
            if pool_pnl > max_pnl {
                capped = max_pnl;
            }
        }
        if capped != pool_pnl && capped >= 0 && pool_pnl > 0 {
            total = capped * total / pool_pnl;
        }
    }
    if p.size_in_tokens.is_zero() {
        return None;
    }
    Some(total)
}

#[derive(Clone, Copy, PartialEq, Eq)]
enum Verdict {
    Healthy,
    MinCollateral,
    NotPositive,
    Leverage,
}

fn verdict_of(r: &Option<LiquidatableReason>) -> Verdict {
    match r {
        None => Verdict::Healthy,
        Some(LiquidatableReason::MinCollateral) => Verdict::MinCollateral,
        Some(LiquidatableReason::NotPositive) => Verdict::NotPositive,
        Some(LiquidatableReason::MinCollateralForLeverage) => Verdict::Leverage,
    }
}

/// Reference verdict with zero fees and zero price impact.
fn liquidatable_ref<T, const D: u8>(
    p: &VPosition<T, D>,
    prices: &Prices<T>,
    validate_min: bool,
    for_liquidation: bool,
) -> Option<Verdict>
where
    T: FixedPointOps<D> + CheckedSub + Copy + Into<u32> + num_traits::Bounded,
    T::Signed: Num + Copy,
{
    let unit = w(T::UNIT);
    let pnl = pnl_ref(p, prices)?;
    let cp = w(if p.is_collateral_token_long { prices.long_token_price.min } else { prices.short_token_price.min });
    let remaining = w(p.collateral_amount) * cp + pnl;
    let pp = &p.market.position_params;
    let factor = if for_liquidation {
        match pp.min_collateral_factor_for_liquidation {
            Some(f) => w(f),
            None => w(pp.min_collateral_factor),
        }
    } else {
        w(pp.min_collateral_factor)
    };
    Some(if remaining < 0 {
        if validate_min { Verdict::MinCollateral } else { Verdict::NotPositive }
    } else if validate_min && remaining < w(pp.min_collateral_value) {
        Verdict::MinCollateral
    } else if remaining == 0 {
        Verdict::NotPositive
    } else if remaining < w(p.size_in_usd) * factor / unit {
        Verdict::Leverage
    } else {
        Verdict::Healthy
    })
}

fn check_liquidatable_exact<T, const D: u8>(level: u8, side: Option<(bool, bool)>)
where
    T: FixedPointOps<D> + CheckedSub + Copy + kani::Arbitrary + Into<u32> + num_traits::Bounded,
    T::Signed: Num + Copy + kani::Arbitrary,
{
    let (p, prices) = match side {
        Some((is_long, cl)) => liq_state_for::<T, D>(level, is_long, cl),
        None => liq_state::<T, D>(level),
    };
    let validate_min: bool = kani::any();
    let for_liquidation: bool = kani::any();
    let r = p.check_liquidatable(&prices, validate_min, for_liquidation);
    if let Ok(got) = &r {
        let want = liquidatable_ref(&p, &prices, validate_min, for_liquidation);
        let Some(want) = want else { panic!("verdict although the pnl is not computable") };
        let got = verdict_of(got);
        assert!(got == want);
        kani::cover!(got == Verdict::Healthy, "healthy");
        kani::cover!(got == Verdict::MinCollateral && validate_min, "below min collateral value");
        kani::cover!(got == Verdict::NotPositive, "not positive");
        kani::cover!(got == Verdict::Leverage && for_liquidation, "leverage (liquidation factor)");
        kani::cover!(got == Verdict::Leverage && !for_liquidation, "leverage (regular factor)");
    }
    core::mem::forget(r);
}

//@ prop=C09 tier=thorough kind=hold
//@ enc=PositionExt::check_liquidatable, PositionExt::pnl_value, MarketUtils::cap_pnl, BaseMarketExt::pnl, PositionExt::collateral_value, PositionExt::position_price_impact, PerpMarketExt::cap_negative_position_price_impact, PositionExt::position_fees, position::check_collateral
//@ bound=T=u8, DECIMALS=1: every position (sizes, collateral, side, collateral token), every open-interest / liquidity pool slot, trader pnl factor, position thresholds (incl. the optional liquidation factor), ordered prices (0 < min <= max) and both flags; order/borrowing/funding/liquidation fees and position-impact factors are zero (their code runs on zeros)
//@ stubs=none; assumed: the position's pool slots contain the position
//@ timeout=3600 mem=30
#[kani::proof]
#[kani::unwind(4)]
fn c09_check_liquidatable_exact_u8() {
    check_liquidatable_exact::<u8, 1>(1, None);
}

//@ prop=C09 tier=thorough kind=hold
//@ enc=PositionExt::check_liquidatable, PositionExt::pnl_value, MarketUtils::cap_pnl, BaseMarketExt::pnl, PositionExt::collateral_value, PositionExt::position_price_impact, PositionExt::position_fees, position::check_collateral
//@ bound=T=u8, DECIMALS=1: long position with long-token collateral, size in usd = 100 (own usd open-interest slot 120, other slots 0); every size in tokens, collateral, own open-interest-in-tokens slot, own side of the liquidity pool, trader pnl factor, position thresholds (incl. the optional liquidation factor), index price with spread, flat long/short token prices, both flags; fees and position-impact factors zero
//@ stubs=none; assumed: the position's pool slots contain the position
#[kani::proof]
#[kani::unwind(4)]
fn c09_check_liquidatable_exact_long_lc_u8() {
    check_liquidatable_exact::<u8, 1>(0, Some((true, true)));
}

//@ prop=C09 tier=quick kind=hold
//@ enc=PositionExt::check_liquidatable, PositionExt::pnl_value, MarketUtils::cap_pnl, BaseMarketExt::pnl, PositionExt::collateral_value, PositionExt::position_price_impact, PositionExt::position_fees, position::check_collateral
//@ bound=T=u8, DECIMALS=1: long position with short-token collateral, size in usd = 100 (own usd open-interest slot 120, other slots 0); every size in tokens, collateral, own open-interest-in-tokens slot, own side of the liquidity pool, trader pnl factor, position thresholds (incl. the optional liquidation factor), index price with spread, flat long/short token prices, both flags; fees and position-impact factors zero
//@ stubs=none; assumed: the position's pool slots contain the position
#[kani::proof]
#[kani::unwind(4)]
fn c09_check_liquidatable_exact_long_sc_u8() {
    check_liquidatable_exact::<u8, 1>(0, Some((true, false)));
}

//@ prop=C09 tier=quick kind=hold
//@ enc=PositionExt::check_liquidatable, PositionExt::pnl_value, MarketUtils::cap_pnl, BaseMarketExt::pnl, PositionExt::collateral_value, PositionExt::position_price_impact, PositionExt::position_fees, position::check_collateral
//@ bound=T=u8, DECIMALS=1: short position with long-token collateral, size in usd = 100 (own usd open-interest slot 120, other slots 0); every size in tokens, collateral, own open-interest-in-tokens slot, own side of the liquidity pool, trader pnl factor, position thresholds (incl. the optional liquidation factor), index price with spread, flat long/short token prices, both flags; fees and position-impact factors zero
//@ stubs=none; assumed: the position's pool slots contain the position
#[kani::proof]
#[kani::unwind(4)]
fn c09_check_liquidatable_exact_short_lc_u8() {
    check_liquidatable_exact::<u8, 1>(0, Some((false, true)));
}

//@ prop=C09 tier=thorough kind=hold
//@ enc=PositionExt::check_liquidatable, PositionExt::pnl_value, MarketUtils::cap_pnl, BaseMarketExt::pnl, PositionExt::collateral_value, PositionExt::position_price_impact, PositionExt::position_fees, position::check_collateral
//@ bound=T=u8, DECIMALS=1: short position with short-token collateral, size in usd = 100 (own usd open-interest slot 120, other slots 0); every size in tokens, collateral, own open-interest-in-tokens slot, own side of the liquidity pool, trader pnl factor, position thresholds (incl. the optional liquidation factor), index price with spread, flat long/short token prices, both flags; fees and position-impact factors zero
//@ stubs=none; assumed: the position's pool slots contain the position
#[kani::proof]
#[kani::unwind(4)]
fn c09_check_liquidatable_exact_short_sc_u8() {
    check_liquidatable_exact::<u8, 1>(0, Some((false, false)));
}

// ------------------------------------------------------------------------------------------------
// (3) the liquidation gate, (4) validate

/// Reference verdict for the state: the exact rule (levels 0/1) or the real function (level 2).
/// `Err(())` when it is not computable.
fn health_ref<T, const D: u8>(
    self_oracle: bool,
    p: &VPosition<T, D>,
    prices: &Prices<T>,
    validate_min: bool,
    for_liquidation: bool,
) -> Result<Verdict, ()>
where
    T: FixedPointOps<D> + CheckedSub + Copy + Into<u32> + num_traits::Bounded,
    T::Signed: Num + Copy,
{
    if !self_oracle {
        liquidatable_ref(p, prices, validate_min, for_liquidation).ok_or(())
    } else {
        let r = p.check_liquidatable(prices, validate_min, for_liquidation);
        let v = match &r {
            Ok(v) => Ok(verdict_of(v)),
            Err(_) => Err(()),
        };
        core::mem::forget(r);
        v
    }
}

fn liquidation_gate<T, const D: u8>(level: u8, self_oracle: bool, side: Option<(bool, bool)>)
where
    T: FixedPointOps<D> + CheckedSub + Copy + kani::Arbitrary + Into<u32> + num_traits::Bounded,
    T::Signed: Num + Copy + kani::Arbitrary,
{
    let (p, prices) = match side {
        Some((is_long, cl)) => liq_state_for::<T, D>(level, is_long, cl),
        None => liq_state::<T, D>(level),
    };
    let flags = DecreasePositionFlags {
        is_insolvent_close_allowed: kani::any(),
        is_liquidation_order: kani::any(),
        is_cap_size_delta_usd_allowed: kani::any(),
    };
    let delta: T = kani::any();
    // the action borrows the position: a by-value position inside `Result<DecreasePosition<_>, Error>`
    // is moved through an enum payload, which CBMC handles byte-wise (very slow)
    let mut pos = p;
    let mut pos0 = p;
    let a = DecreasePosition::try_new(&mut pos0, prices, delta, None, T::zero(), flags);
    let Ok(a) = a else {
        core::mem::forget(a);
        return;
    };
    // re-seat on a fresh handle (the handle read back from the `Result` payload is imprecise for CBMC)
    let a = a.verif_with_position(&mut pos);
    // reference: health under the liquidation thresholds, min collateral value included
    let health = health_ref(self_oracle, &p, &prices, true, true);
    let gate = a.verif_check_liquidation();
    if !flags.is_liquidation_order {
        assert!(gate.is_ok());
    } else {
        match &gate {
            Ok(()) => {
                // a liquidation order is admitted only for a liquidatable position
                assert!(matches!(health, Ok(v) if v != Verdict::Healthy));
                kani::cover!(matches!(health, Ok(Verdict::MinCollateral)), "admitted: below min collateral value");
                kani::cover!(matches!(health, Ok(Verdict::Leverage)), "admitted: leverage");
                kani::cover!(matches!(health, Ok(Verdict::NotPositive)), "admitted: nothing left");
            }
            Err(gmsol_model::Error::NotLiquidatable) => {
                assert!(matches!(health, Ok(Verdict::Healthy)));
                kani::cover!(true, "liquidation of a healthy position rejected");
            }
            Err(_) => {
                // the health is not computable (overflow at this width)
                assert!(!self_oracle || health.is_err());
            }
        }
    }
    core::mem::forget(gate);
}

//@ prop=C09 tier=quick kind=hold
//@ enc=DecreasePosition::try_new, DecreasePosition::check_liquidation, PositionExt::check_liquidatable (pnl_value, cap_pnl, collateral_value, position_price_impact, position_fees, check_collateral)
//@ bound=T=u8, DECIMALS=1: state space of c09_check_liquidatable_exact_long_sc_u8, every size delta and flag combination
//@ stubs=none; reference = exact remaining-collateral rule in wider integers (pnl with trader cap, liquidation thresholds, min collateral value); hooks: DecreasePosition::verif_check_liquidation, verif_with_position
#[kani::proof]
#[kani::unwind(4)]
fn c09_liquidation_gate_long_sc_u8() {
    liquidation_gate::<u8, 1>(0, false, Some((true, false)));
}

//@ prop=C09 tier=quick kind=hold
//@ enc=DecreasePosition::try_new, DecreasePosition::check_liquidation, PositionExt::check_liquidatable (pnl_value, cap_pnl, collateral_value, position_price_impact, position_fees, check_collateral)
//@ bound=T=u8, DECIMALS=1: state space of c09_check_liquidatable_exact_short_lc_u8, every size delta and flag combination
//@ stubs=none; reference = exact remaining-collateral rule in wider integers (pnl with trader cap, liquidation thresholds, min collateral value); hooks: DecreasePosition::verif_check_liquidation, verif_with_position
#[kani::proof]
#[kani::unwind(4)]
fn c09_liquidation_gate_short_lc_u8() {
    liquidation_gate::<u8, 1>(0, false, Some((false, true)));
}

//@ prop=C09 tier=thorough kind=hold
//@ enc=DecreasePosition::try_new, DecreasePosition::check_liquidation, PositionExt::check_liquidatable
//@ bound=T=u8, DECIMALS=1: state space of c09_check_liquidatable_exact_u8 (all pool slots, all prices), every size delta and flag combination
//@ stubs=none; reference = exact rule; hook as above
//@ timeout=3600 mem=30
#[kani::proof]
#[kani::unwind(4)]
fn c09_liquidation_gate_all_pools_u8() {
    liquidation_gate::<u8, 1>(1, false, None);
}

//@ prop=C09 tier=thorough kind=hold
//@ enc=DecreasePosition::try_new, DecreasePosition::check_liquidation, PositionExt::check_liquidatable
//@ bound=T=u8, DECIMALS=1: as c09_liquidation_gate_all_pools_u8 plus symbolic order/borrowing fees and position-impact factors (exponent 1*UNIT)
//@ stubs=none; reference = the real check_liquidatable(prices, true, true) on the same state
//@ timeout=3600 mem=30
#[kani::proof]
#[kani::unwind(4)]
fn c09_liquidation_gate_with_fees_u8() {
    liquidation_gate::<u8, 1>(2, true, None);
}

fn validate_implies_healthy<T, const D: u8>(level: u8, self_oracle: bool, side: Option<(bool, bool)>)
where
    T: FixedPointOps<D> + CheckedSub + Copy + kani::Arbitrary + Into<u32> + num_traits::Bounded,
    T::Signed: Num + Copy + kani::Arbitrary,
{
    let (p, prices) = match side {
        Some((is_long, cl)) => liq_state_for::<T, D>(level, is_long, cl),
        None => liq_state::<T, D>(level),
    };
    let check_size: bool = kani::any();
    let check_min_collateral: bool = kani::any();
    let health = health_ref(self_oracle, &p, &prices, check_min_collateral, false);
    let v = p.validate(&prices, check_size, check_min_collateral);
    let too_small = check_size && p.size_in_usd < p.market.position_params.min_position_size_usd;
    let zero = p.size_in_usd.is_zero() || p.size_in_tokens.is_zero();
    match &v {
        Ok(()) => {
            assert!(!zero && !too_small);
            // a validated position is not liquidatable at these prices (regular thresholds)
            assert!(matches!(health, Ok(Verdict::Healthy)));
            kani::cover!(check_size && check_min_collateral, "validated with both options");
            kani::cover!(!check_size && !check_min_collateral, "validated with neither option");
        }
        Err(gmsol_model::Error::Liquidatable(_)) => {
            assert!(!zero && !too_small);
            assert!(matches!(health, Ok(h) if h != Verdict::Healthy));
            kani::cover!(true, "rejected as liquidatable");
        }
        Err(gmsol_model::Error::InvalidPosition(_)) => {
            assert!(zero || too_small);
            kani::cover!(!zero && too_small, "rejected as too small");
        }
        Err(_) => {
            assert!(!zero && !too_small);
        }
    }
    core::mem::forget(v);
}

//@ prop=C09 tier=quick kind=hold
//@ enc=PositionExt::validate, PositionExt::check_liquidatable (pnl_value, cap_pnl, collateral_value, position_price_impact, position_fees, check_collateral)
//@ bound=T=u8, DECIMALS=1: state space of c09_check_liquidatable_exact_long_lc_u8, both validation options
//@ stubs=none; reference = exact remaining-collateral rule in wider integers (regular thresholds)
#[kani::proof]
#[kani::unwind(4)]
fn c09_validate_implies_healthy_long_lc_u8() {
    validate_implies_healthy::<u8, 1>(0, false, Some((true, true)));
}

//@ prop=C09 tier=quick kind=hold
//@ enc=PositionExt::validate, PositionExt::check_liquidatable (pnl_value, cap_pnl, collateral_value, position_price_impact, position_fees, check_collateral)
//@ bound=T=u8, DECIMALS=1: state space of c09_check_liquidatable_exact_short_sc_u8, both validation options
//@ stubs=none; reference = exact remaining-collateral rule in wider integers (regular thresholds)
#[kani::proof]
#[kani::unwind(4)]
fn c09_validate_implies_healthy_short_sc_u8() {
    validate_implies_healthy::<u8, 1>(0, false, Some((false, false)));
}

//@ prop=C09 tier=thorough kind=hold
//@ enc=PositionExt::validate, PositionExt::check_liquidatable
//@ bound=T=u8, DECIMALS=1: as c09_liquidation_gate_with_fees_u8, both validation options
//@ stubs=none; reference = the real check_liquidatable(prices, validate_min_collateral, false) on the same state
//@ timeout=3600 mem=30
#[kani::proof]
#[kani::unwind(4)]
fn c09_validate_implies_healthy_with_fees_u8() {
    validate_implies_healthy::<u8, 1>(2, true, None);
}


