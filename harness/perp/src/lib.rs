//! Kani harnesses over the real `gmsol-model` position / perp-market code (area `perp`).
//!
//! The generic model source is instantiated at `T = u8, DECIMALS = 1` (UNIT 10) and
//! `T = u16, DECIMALS = 2` (UNIT 100) through the cfg(gmsol_verif) narrow-width number impls.
//! Harness metadata: `//@` lines above each `#[kani::proof]` (see /verif/lib/vcheck.py).
#![allow(clippy::all)]
#![allow(unused)]

#[cfg(kani)]
mod vmarket;
#[cfg(kani)]
mod c13_borrowing;
#[cfg(kani)]
mod c07_open_interest;
#[cfg(kani)]
mod whole;
#[cfg(kani)]
mod c09_liquidation;
#[cfg(kani)]
mod c10_round_trip;
#[cfg(kani)]
mod c08_ledger;
