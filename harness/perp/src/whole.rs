//! Whole-action harnesses: `IncreasePosition::execute` (thorough tier; verified in ~42 min / 13 GB
//! per side) and `DecreasePosition::execute` (tier=experimental: CBMC runs out of 40 GB during
//! symbolic execution) end to end on a `VMarket` whose *pools, position and order inputs* are symbolic
//! while the side flags and the fee / impact / funding / threshold parameters are concrete — see
//! DESIGN §4: whole actions on an all-symbolic market do not finish in symbolic execution.
//!
//! Obligations asserted on `Ok` (the model mutates in place, nothing is claimed on `Err`):
//!   C07  open interest, open interest in tokens and collateral sum of the position's slot move by
//!        exactly the position's own deltas; every other slot is untouched; `should_remove` ⇒ the
//!        position is zeroed; a non-removed position keeps positive usd and token sizes.
//!   C13  total borrowing moves by `floor(next_size*F/UNIT) - floor(size*f/UNIT)`; the position's
//!        factor becomes the market's cumulative factor.
//!   C09  liquidation orders succeed only from a liquidatable pre-state and close everything.
use crate::vmarket::*;
use gmsol_model::{
    action::decrease_position::{DecreasePosition, DecreasePositionFlags},
    action::increase_position::IncreasePosition,
    fixed::FixedPointOps,
    num::{Num, Unsigned},
    price::Prices,
    MarketAction, PositionExt,
};
use num_traits::{CheckedSub, Signed, Zero};

fn w<T: Into<u32>>(x: T) -> u32 {
    x.into()
}
fn ws<S: Into<i32>>(x: S) -> i32 {
    x.into()
}

/// Concreteness profile of the whole-action market.
#[derive(Clone, Copy)]
pub struct Profile {
    /// position-impact factors symbolic (else zero: no price impact)
    pub impact: bool,
    /// order fee factors symbolic (else zero)
    pub fees: bool,
    /// pending borrowing fees possible (position factor <= market factor, else equal)
    pub borrowing: bool,
    /// collateral / leverage thresholds symbolic (else zero)
    pub thresholds: bool,
    /// reserve factors and caps symbolic (else: never binding)
    pub reserves: bool,
    /// index price min/max may differ
    pub spread: bool,
}

pub const MINIMAL: Profile =
    Profile { impact: false, fees: false, borrowing: false, thresholds: false, reserves: false, spread: false };

/// Market + position for one whole action. Invariants assumed (each is established by the
/// component harnesses): the position's own pool slots contain the position; `p.factor <= F`;
/// funding indices settled.
pub fn whole_state<T, const D: u8>(pf: Profile, is_long: bool, cl: bool) -> (VPosition<T, D>, Prices<T>)
where
    T: FixedPointOps<D> + CheckedSub + Copy + kani::Arbitrary + Into<u32> + num_traits::Bounded,
    T::Signed: Num + Copy + kani::Arbitrary,
{
    let n = |v: u8| T::from_u8(v).unwrap();
    let mut m = VMarket::<T, D>::zero();
    m.open_interest = Side2 { long: VPool::any(), short: VPool::any() };
    m.open_interest_in_tokens = Side2 { long: VPool::any(), short: VPool::any() };
    m.collateral_sum = Side2 { long: VPool::any(), short: VPool::any() };
    m.liquidity = VPool::any();
    m.claimable_fee = VPool::any();
    m.position_impact = VPool { long: kani::any(), short: T::zero() };
    m.borrowing_factor = VPool::any();
    m.total_borrowing = VPool::any();
    m.funding_amount_per_size_adjustment = T::one();
    m.position_impact_params.exponent = T::UNIT;
    m.pnl_factor.trader = Side2::both(T::UNIT);
    if pf.impact {
        m.position_impact_params.positive_factor = kani::any();
        m.position_impact_params.negative_factor = kani::any();
        m.position_params.max_positive_position_impact_factor = kani::any();
        m.position_params.max_negative_position_impact_factor = kani::any();
        m.position_params.max_position_impact_factor_for_liquidations = kani::any();
    }
    if pf.fees {
        m.order_fee_params.positive_impact_fee_factor = kani::any();
        m.order_fee_params.negative_impact_fee_factor = kani::any();
        m.order_fee_params.fee_receiver_factor = kani::any();
        m.borrowing.receiver_factor = kani::any();
        m.liquidation_fee_factor = kani::any();
        m.liquidation_fee_receiver_factor = kani::any();
    }
    if pf.thresholds {
        m.position_params.min_position_size_usd = kani::any();
        m.position_params.min_collateral_value = kani::any();
        m.position_params.min_collateral_factor = kani::any();
        m.position_params.min_collateral_factor_for_liquidation = kani::any();
        m.min_collateral_factor_for_oi_multiplier = Side2::any();
    }
    if pf.reserves {
        m.reserve_factor = kani::any();
        m.open_interest_reserve_factor = kani::any();
        m.max_open_interest = Side2::any();
        m.pnl_factor.trader = Side2::any();
    } else {
        m.reserve_factor = T::max_value();
        m.open_interest_reserve_factor = T::max_value();
        m.max_open_interest = Side2::both(T::max_value());
    }
    let mut p = VPosition::<T, D>::zero(m, is_long, cl);
    p.size_in_usd = kani::any();
    p.size_in_tokens = kani::any();
    p.collateral_amount = kani::any();
    // reachable position states: both sizes zero (empty) or both positive
    kani::assume(p.size_in_usd.is_zero() == p.size_in_tokens.is_zero());
    kani::assume(!p.size_in_usd.is_zero() || p.collateral_amount.is_zero());
    // the pools contain the position
    kani::assume(*p.market.open_interest.get(is_long).side(cl) >= p.size_in_usd);
    kani::assume(*p.market.open_interest_in_tokens.get(is_long).side(cl) >= p.size_in_tokens);
    kani::assume(*p.market.collateral_sum.get(is_long).side(cl) >= p.collateral_amount);
    let f = *p.market.borrowing_factor.side(is_long);
    if pf.borrowing {
        p.borrowing_factor = kani::any();
        kani::assume(p.borrowing_factor <= f);
    } else {
        p.borrowing_factor = f;
    }
    // total borrowing contains the position's share
    let unit = w(T::UNIT);
    kani::assume(w(*p.market.total_borrowing.side(is_long)) >= w(p.size_in_usd) * w(p.borrowing_factor) / unit);

    let prices = if pf.spread {
        any_prices(true)
    } else {
        let i: T = kani::any();
        let cp: T = kani::any();
        kani::assume(!i.is_zero() && !cp.is_zero());
        flat_prices(i, cp, cp)
    };
    (p, prices)
}

/// Slots of the three position-sum pools as wide integers: `[side][token]`.
fn slots<T: Into<u32> + Copy>(s: &Side2<VPool<T>>) -> [u32; 4] {
    [w(s.long.long), w(s.long.short), w(s.short.long), w(s.short.short)]
}
fn slot_ix(is_long: bool, cl: bool) -> usize {
    (if is_long { 0 } else { 2 }) + (if cl { 0 } else { 1 })
}

/// C07 delta identity between a pre- and a post-state of the same position.
pub fn assert_c07_deltas<T, const D: u8>(before: &VPosition<T, D>, after: &VPosition<T, D>)
where
    T: Unsigned + Into<u32> + Copy,
{
    let k = slot_ix(before.is_long, before.is_collateral_token_long);
    let (oi0, oi1) = (slots(&before.market.open_interest), slots(&after.market.open_interest));
    let (ot0, ot1) = (slots(&before.market.open_interest_in_tokens), slots(&after.market.open_interest_in_tokens));
    let (cs0, cs1) = (slots(&before.market.collateral_sum), slots(&after.market.collateral_sum));
    let mut j = 0;
    while j < 4 {
        if j == k {
            assert!(oi1[j] as i32 - oi0[j] as i32 == w(after.size_in_usd) as i32 - w(before.size_in_usd) as i32);
            assert!(ot1[j] as i32 - ot0[j] as i32 == w(after.size_in_tokens) as i32 - w(before.size_in_tokens) as i32);
            assert!(cs1[j] as i32 - cs0[j] as i32 == w(after.collateral_amount) as i32 - w(before.collateral_amount) as i32);
        } else {
            assert!(oi1[j] == oi0[j]);
            assert!(ot1[j] == ot0[j]);
            assert!(cs1[j] == cs0[j]);
        }
        j += 1;
    }
}

/// C13 identity for the position's side.
pub fn assert_c13_settle<T, const D: u8>(before: &VPosition<T, D>, after: &VPosition<T, D>)
where
    T: FixedPointOps<D> + Into<u32> + Copy,
{
    let unit = w(T::UNIT);
    let il = before.is_long;
    let f = w(*before.market.borrowing_factor.side(il));
    assert!(w(after.borrowing_factor) == f);
    assert!(after.market.borrowing_factor == before.market.borrowing_factor);
    let prev = w(before.size_in_usd) * w(before.borrowing_factor) / unit;
    let next = w(after.size_in_usd) * f / unit;
    let b0 = w(*before.market.total_borrowing.side(il)) as i32;
    let b1 = w(*after.market.total_borrowing.side(il)) as i32;
    assert!(b1 - b0 == next as i32 - prev as i32);
    assert!(*after.market.total_borrowing.side(!il) == *before.market.total_borrowing.side(!il));
}

/// Stub for the decimal rendering of numbers inside error values (`InsufficientReserve(String, String)`):
/// the text of an error is never the subject, and heap-backed strings in every merged `Result` are
/// what makes the symbolic execution of the whole action explode.
pub fn empty_string_u8(_: &u8) -> String {
    String::new()
}

fn increase_whole<T, const D: u8>(pf: Profile, is_long: bool, cl: bool)
where
    T: FixedPointOps<D> + CheckedSub + Copy + kani::Arbitrary + Into<u32> + num_traits::Bounded,
    T::Signed: Num + Copy + kani::Arbitrary + Into<i32>,
{
    let (mut p, prices) = whole_state::<T, D>(pf, is_long, cl);
    let before = p;
    let increment: T = kani::any();
    let size_delta: T = kani::any();
    let mut pos0 = p;
    let a = IncreasePosition::try_new(&mut pos0, prices, increment, size_delta, None);
    let Ok(a) = a else {
        core::mem::forget(a);
        return;
    };
    let r = a.verif_with_position(&mut p).execute();
    if let Ok(report) = &r {
        assert_c07_deltas(&before, &p);
        assert_c13_settle(&before, &p);
        // the report names the same deltas
        assert!(w(p.size_in_usd) == w(before.size_in_usd) + w(size_delta));
        assert!(w(p.size_in_tokens) == w(before.size_in_tokens) + w(*report.execution().size_delta_in_tokens()));
        assert!(w(p.collateral_amount) as i32 == w(before.collateral_amount) as i32 + ws(*report.collateral_delta_amount()));
        // a successfully increased position is open on both dimensions
        assert!(!p.size_in_usd.is_zero() && !p.size_in_tokens.is_zero());
        assert!(p.increased == 1);
        kani::cover!(before.size_in_usd.is_zero(), "opened");
        kani::cover!(!before.size_in_usd.is_zero() && !size_delta.is_zero(), "grown");
        kani::cover!(size_delta.is_zero() && !increment.is_zero(), "collateral deposit only");
    }
    core::mem::forget(r);
}

//@ prop=C07 tier=thorough kind=hold
//@ enc=IncreasePosition::execute (whole action: initialize_position_if_empty, get_execution_params, process_collateral, update_total_borrowing, update_open_interest, validate_reserve, validate_open_interest_reserve, will_collateral_be_sufficient, validate)
//@ bound=T=u8, DECIMALS=1: long position with long-token collateral; every open-interest / open-interest-in-tokens / collateral-sum / liquidity / claimable-fee / impact / borrowing-factor / total-borrowing pool value, every position (empty or open), deposit, size delta, flat index and collateral price; parameters concrete: no price impact, no fees, borrowing settled, thresholds zero, reserves/caps never binding
//@ stubs=<u8 as SpecToString>::spec_to_string -> empty string (text of InsufficientReserve errors); hook: IncreasePosition::verif_with_position; assumed pre-state invariants: the position's pool slots contain the position, sizes both zero or both positive
//@ timeout=5400 mem=30
#[kani::proof]
#[kani::stub(<u8 as alloc::string::SpecToString>::spec_to_string, empty_string_u8)]
fn c07_increase_whole_minimal_long_u8() {
    increase_whole::<u8, 1>(MINIMAL, true, true);
}

//@ prop=C07 tier=thorough kind=hold
//@ enc=IncreasePosition::execute (whole action: initialize_position_if_empty, get_execution_params, process_collateral, update_total_borrowing, update_open_interest, validate_reserve, validate_open_interest_reserve, will_collateral_be_sufficient, validate)
//@ bound=T=u8, DECIMALS=1: short position with short-token collateral; every open-interest / open-interest-in-tokens / collateral-sum / liquidity / claimable-fee / impact / borrowing-factor / total-borrowing pool value, every position (empty or open), deposit, size delta, flat index and collateral price; parameters concrete: no price impact, no fees, borrowing settled, thresholds zero, reserves/caps never binding
//@ stubs=<u8 as SpecToString>::spec_to_string -> empty string (text of InsufficientReserve errors); hook: IncreasePosition::verif_with_position; assumed pre-state invariants: the position's pool slots contain the position, sizes both zero or both positive
//@ timeout=5400 mem=30
#[kani::proof]
#[kani::stub(<u8 as alloc::string::SpecToString>::spec_to_string, empty_string_u8)]
fn c07_increase_whole_minimal_short_u8() {
    increase_whole::<u8, 1>(MINIMAL, false, false);
}

// ------------------------------------------------------------------------------------------------

fn decrease_whole<T, const D: u8>(pf: Profile, is_long: bool, cl: bool, liquidation: bool, plain: bool)
where
    T: FixedPointOps<D> + CheckedSub + Copy + kani::Arbitrary + Into<u32> + num_traits::Bounded,
    T::Signed: Num + Copy + kani::Arbitrary + Into<i32>,
{
    let (mut p, prices) = whole_state::<T, D>(pf, is_long, cl);
    kani::assume(!p.size_in_usd.is_zero());
    let before = p;
    // `plain`: no insolvent close, size delta capped, no separate collateral withdrawal
    let flags = DecreasePositionFlags {
        is_insolvent_close_allowed: if plain { false } else { kani::any() },
        is_liquidation_order: liquidation,
        is_cap_size_delta_usd_allowed: if plain { true } else { kani::any() },
    };
    let size_delta: T = kani::any();
    let withdraw: T = if plain { T::zero() } else { kani::any() };
    let mut pos0 = p;
    let a = DecreasePosition::try_new(&mut pos0, prices, size_delta, None, withdraw, flags);
    let Ok(a) = a else {
        core::mem::forget(a);
        return;
    };
    // re-seat the position handle and re-assign the (default) swap type with a constant: both were read
    // back from the `Result` payload, which CBMC treats as opaque bytes (a symbolic swap type would pull
    // the whole `Swap::execute` into the symbolic execution)
    let r = a
        .verif_with_position(&mut p)
        .set_swap(gmsol_model::action::decrease_position::DecreasePositionSwapType::NoSwap)
        .execute();
    if let Ok(report) = &r {
        assert_c07_deltas(&before, &p);
        assert_c13_settle(&before, &p);
        if report.should_remove() {
            // a removed position is zero on every dimension
            assert!(p.size_in_usd.is_zero() && p.size_in_tokens.is_zero() && p.collateral_amount.is_zero());
            assert!(w(*report.size_delta_usd()) == w(before.size_in_usd));
            assert!(w(*report.size_delta_in_tokens()) == w(before.size_in_tokens));
        } else {
            assert!(!p.size_in_usd.is_zero() && !p.size_in_tokens.is_zero());
            assert!(w(p.size_in_usd) + w(*report.size_delta_usd()) == w(before.size_in_usd));
            assert!(w(p.size_in_tokens) + w(*report.size_delta_in_tokens()) == w(before.size_in_tokens));
        }
        assert!(p.decreased == 1);
        if liquidation && w(size_delta) >= w(before.size_in_usd) {
            // what the order layer requires of a liquidation: it then closes everything
            assert!(report.should_remove());
        }
        // C08: per-token conservation of the whole decrease (no funding in this profile)
        let out = w(*report.output_amount()) as i32;
        let sec = w(*report.secondary_output_amount()) as i32;
        let mut t = true;
        let mut k = 0;
        while k < 2 {
            let mut d = w(*p.market.liquidity.side(t)) as i32 - w(*before.market.liquidity.side(t)) as i32
                + w(*p.market.claimable_fee.side(t)) as i32 - w(*before.market.claimable_fee.side(t)) as i32
                + w(*p.market.collateral_sum.get(is_long).side(t)) as i32
                - w(*before.market.collateral_sum.get(is_long).side(t)) as i32;
            if report.is_output_token_long() == t {
                d += out
                    + w(*report.claimable_collateral_for_holding().output_token_amount()) as i32
                    + w(*report.claimable_collateral_for_user().output_token_amount()) as i32;
            }
            if report.is_secondary_output_token_long() == t {
                d += sec
                    + w(*report.claimable_collateral_for_holding().secondary_output_token_amount()) as i32
                    + w(*report.claimable_collateral_for_user().secondary_output_token_amount()) as i32;
            }
            assert!(d == 0);
            t = false;
            k += 1;
        }
        kani::cover!(report.should_remove(), "closed");
        kani::cover!(!report.should_remove() && !report.size_delta_usd().is_zero(), "partially decreased");
        kani::cover!(report.should_remove() && w(size_delta) < w(before.size_in_usd), "promoted to a full close");
    }
    core::mem::forget(r);
}

//@ prop=C07 tier=experimental kind=hold
//@ enc=DecreasePosition::execute (whole action: check_partial_close, check_close, check_liquidation, process_collateral with the CollateralProcessor, update_total_borrowing, update_open_interest, validate)
//@ bound=T=u8, DECIMALS=1: long position with long-token collateral, ordinary (non-liquidation) order; every pool value, position, size delta (capped to the position size), flat index/collateral price; no insolvent close, no separate collateral withdrawal; parameters concrete: no price impact, no fees, borrowing settled, thresholds zero
//@ stubs=none; does NOT finish: CBMC runs out of memory (40 GB) during symbolic execution, also with the swap type forced to the constant NoSwap
//@ timeout=3600 mem=30
#[kani::proof]
#[kani::unwind(4)]
fn c07_decrease_whole_minimal_long_u8() {
    decrease_whole::<u8, 1>(MINIMAL, true, true, false, true);
}

//@ prop=C09 tier=experimental kind=hold
//@ enc=DecreasePosition::execute (whole action) with is_liquidation_order
//@ bound=T=u8, DECIMALS=1: as c07_decrease_whole_minimal_long_u8 for a liquidation order
//@ stubs=none
//@ timeout=3600 mem=30
#[kani::proof]
#[kani::unwind(4)]
fn c09_liquidation_whole_minimal_long_u8() {
    decrease_whole::<u8, 1>(MINIMAL, true, true, true, true);
}

// ------------------------------------------------------------------------------------------------
// C13 through the real `IncreasePosition::execute` on a nearly concrete state (quick tier).

/// Everything concrete except the borrowing state: the market's cumulative factor `F`, the position's
/// last factor `f <= F` and the total borrowing (containing the position's share) are symbolic. The
/// whole action then folds to a few symbolic steps, and the order "settle total borrowing with the
/// OLD position factor, then store the new factor" is visible in the total-borrowing delta.
fn increase_settles_borrowing_with_old_factor<T, const D: u8>(is_long: bool, cl: bool)
where
    T: FixedPointOps<D> + CheckedSub + Copy + kani::Arbitrary + Into<u32> + num_traits::Bounded,
    T::Signed: Num + Copy + kani::Arbitrary + Into<i32>,
{
    let n = |v: u8| T::from_u8(v).unwrap();
    let unit = w(T::UNIT);
    let mut m = VMarket::<T, D>::zero();
    {
        let pool = m.open_interest.get_mut(is_long);
        if cl { pool.long = n(60) } else { pool.short = n(60) }
        let pool = m.open_interest_in_tokens.get_mut(is_long);
        if cl { pool.long = n(6) } else { pool.short = n(6) }
        let pool = m.collateral_sum.get_mut(is_long);
        if cl { pool.long = n(120) } else { pool.short = n(120) }
    }
    m.liquidity = VPool { long: n(200), short: n(200) };
    m.funding_amount_per_size_adjustment = T::one();
    m.position_impact_params.exponent = T::UNIT;
    m.pnl_factor.trader = Side2::both(T::UNIT);
    m.reserve_factor = T::UNIT;
    m.open_interest_reserve_factor = T::UNIT;
    m.max_open_interest = Side2::both(T::max_value());
    // symbolic borrowing state
    let f_market: T = kani::any();
    let f_position: T = kani::any();
    let total: T = kani::any();
    kani::assume(f_position <= f_market);
    if is_long { m.borrowing_factor.long = f_market } else { m.borrowing_factor.short = f_market }
    if is_long { m.total_borrowing.long = total } else { m.total_borrowing.short = total }
    let mut p = VPosition::<T, D>::zero(m, is_long, cl);
    p.size_in_usd = n(50);
    p.size_in_tokens = n(5);
    p.collateral_amount = n(100);
    p.borrowing_factor = f_position;
    kani::assume(w(total) >= w(p.size_in_usd) * w(f_position) / unit);
    let before = p;
    let prices = flat_prices(n(10), n(1), n(1));
    // a deposit-only increase: the size stays, pending borrowing fees are settled
    let (increment, size_delta) = (n(10), n(0));

    let mut pos0 = p;
    let a = IncreasePosition::try_new(&mut pos0, prices, increment, size_delta, None);
    let Ok(a) = a else {
        core::mem::forget(a);
        return;
    };
    let r = a.verif_with_position(&mut p).execute();
    if r.is_ok() {
        assert_c13_settle(&before, &p);
        assert!(w(p.size_in_usd) == 50);
        kani::cover!(f_position < f_market && w(f_market) * 50 / unit > w(f_position) * 50 / unit, "pending borrowing fees settled");
        kani::cover!(f_position == f_market && !f_market.is_zero(), "already settled");
    }
    core::mem::forget(r);
}

//@ prop=C13 tier=quick kind=hold
//@ enc=IncreasePosition::execute (whole action; the order of PositionMutExt::update_total_borrowing and the assignment of the position's borrowing factor), PositionMutExt::update_total_borrowing, PositionExt::pending_borrowing_fee_value
//@ bound=T=u8, DECIMALS=1: long position with long-token collateral; symbolic: the market's cumulative borrowing factor, the position's last factor (<= the market's) and the total borrowing (>= the position's share); everything else concrete (position 50 usd / 5 tokens / 100 collateral, deposit-only increase of 10 collateral tokens (size delta 0), prices 10 / 1 / 1, own open interest 60 / 6, no order fees, no price impact, thresholds zero)
//@ stubs=<u8 as SpecToString>::spec_to_string -> empty string; hook: IncreasePosition::verif_with_position
#[kani::proof]
#[kani::stub(<u8 as alloc::string::SpecToString>::spec_to_string, empty_string_u8)]
fn c13_increase_settles_borrowing_with_old_factor_long_u8() {
    increase_settles_borrowing_with_old_factor::<u8, 1>(true, true);
}
