//! C13 — borrowing accounting never goes negative.
//!
//! Decided per component (one inductive step each, pattern P2 with an abstract "rest of the
//! positions" aggregate):
//!   (a) `UpdateBorrowingState::execute`: the cumulative factor of each side never decreases, moves by
//!       exactly `rate(side) * duration`, only the borrowing-factor pool and the clock change.
//!   (b) `PositionMutExt::update_total_borrowing`: total borrowing of the position's side moves by
//!       exactly `floor(next_size*next_factor/UNIT) - floor(size*factor/UNIT)`, nothing else changes,
//!       `Err` only when one of these numbers does not fit the number type.
//!   (c) `BorrowingFeeMarketExt::total_pending_borrowing_fees`: under the sum invariant
//!       `B = floor(p.size*p.factor/UNIT) + rest_b`, `rest_b <= floor(rest_size*F/UNIT)`,
//!       `p.factor <= F`, `OI = p.size + rest_size`, the subtraction never fails and the result is the
//!       exact non-negative difference.
//!   (d) the invariant of (c) is preserved by (a) and by (b) followed by the open-interest update.
use crate::vmarket::*;
use gmsol_model::{
    fixed::FixedPointOps,
    num::{Num, Unsigned},
    price::Prices,
    BorrowingFeeMarketExt, BorrowingFeeMarketMutExt, MarketAction, PositionMutExt,
};
use num_traits::{CheckedSub, Zero};

fn w<T: Into<u32>>(x: T) -> u32 {
    x.into()
}

/// Borrowing-relevant part of the market symbolic, the rest zero (never read by the code under test).
///
/// `full = false` keeps the *inputs of the rate formula* partly concrete (liquidity pool, open
/// interest in tokens, prices fixed; kink model off; exponent 1) so that the rate is
/// `floor(c * factor / UNIT)` (long) resp. `floor(floor(OI_short*UNIT/50) * factor / UNIT)` (short) with a
/// symbolic factor: the accrued delta `rate * duration` still ranges over many values, while the
/// symbolic execution of the ~15 fallible steps of the general rate formula is avoided (each `?`
/// on a `Result<_, gmsol_model::Error>` costs hundreds of SSA steps in CBMC). `full = true` makes
/// everything symbolic (thorough tier).
fn borrowing_market<T, const D: u8>(full: bool, max_exp_units: u32) -> (VMarket<T, D>, Prices<T>)
where
    T: FixedPointOps<D> + CheckedSub + Copy + kani::Arbitrary + Into<u32>,
    T::Signed: Num + Copy + kani::Arbitrary,
{
    let mut m = VMarket::<T, D>::zero();
    m.open_interest = Side2 { long: VPool::any(), short: VPool::any() };
    m.borrowing_factor = VPool::any();
    m.total_borrowing = VPool::any();
    m.passed_borrowing = kani::any();
    m.borrowing.factor = Side2::any();
    m.borrowing.skip_borrowing_fee_for_smaller_side = kani::any();
    let unit = w(T::UNIT);
    if full {
        m.liquidity = VPool::any();
        m.open_interest_in_tokens = Side2 { long: VPool::any(), short: VPool::any() };
        m.open_interest_reserve_factor = kani::any();
        m.max_open_interest = Side2::any();
        m.ignore_open_interest_for_usage_factor = kani::any();
        m.borrowing.receiver_factor = kani::any();
        m.borrowing.exponent = Side2::any();
        m.borrowing.optimal_usage_factor = Side2::any();
        m.borrowing.base_borrowing_factor = Side2::any();
        m.borrowing.above_optimal_usage_borrowing_factor = Side2::any();
        // whole-unit exponents above the bound only lengthen the power loop
        kani::assume(w(m.borrowing.exponent.long) <= max_exp_units * unit);
        kani::assume(w(m.borrowing.exponent.short) <= max_exp_units * unit);
        (m, any_prices(false))
    } else {
        let n = |v: u8| T::from_u8(v).unwrap();
        m.liquidity = VPool { long: n(25), short: n(50) };
        m.open_interest_in_tokens.long = VPool { long: n(3), short: n(2) };
        m.open_interest_in_tokens.short = VPool { long: n(1), short: n(4) };
        m.borrowing.exponent = Side2::both(T::UNIT);
        (m, flat_prices(n(2), n(2), n(1)))
    }
}

fn update_borrowing_state_monotone<T, const D: u8>(full: bool)
where
    T: FixedPointOps<D> + CheckedSub + Copy + kani::Arbitrary + Into<u32> + num_traits::Bounded,
    T::Signed: Num + Copy + kani::Arbitrary,
{
    let (mut m, prices): (VMarket<T, D>, Prices<T>) = borrowing_market(full, 3);
    let before = m;

    let action = m.update_borrowing(&prices);
    let Ok(action) = action else {
        // rejected before touching anything
        assert!(m == before);
        return;
    };
    let res = action.execute();

    // never decreases, on success and on failure alike
    assert!(m.borrowing_factor.long >= before.borrowing_factor.long);
    assert!(m.borrowing_factor.short >= before.borrowing_factor.short);

    // nothing but the factor pool and the clock is written
    let mut expect = before;
    expect.borrowing_factor = m.borrowing_factor;
    expect.passed_borrowing = 0;
    assert!(m == expect);

    if let Ok(report) = &res {
        let d = before.passed_borrowing;
        assert!(report.duration_in_seconds() == d);
        // the duration was convertible to the number type, so it is small
        assert!(d <= w(T::max_value()) as u64);
        assert!(*report.next_cumulative_borrowing_factor(true) == m.borrowing_factor.long);
        assert!(*report.next_cumulative_borrowing_factor(false) == m.borrowing_factor.short);
        kani::cover!(m.borrowing_factor.long > before.borrowing_factor.long, "long factor grows");
        kani::cover!(m.borrowing_factor.short > before.borrowing_factor.short, "short factor grows");
        kani::cover!(
            m.borrowing_factor.long > before.borrowing_factor.long
                && m.borrowing_factor.short == before.borrowing_factor.short
                && d > 1,
            "only long accrues"
        );
    } else {
        kani::cover!(
            m.borrowing_factor.long > before.borrowing_factor.long,
            "long side applied, short side failed"
        );
    }
    core::mem::forget(res);
}

//@ prop=C13 tier=quick kind=hold
//@ enc=UpdateBorrowingState::try_new, UpdateBorrowingState::execute, BorrowingFeeMarketExt::next_cumulative_borrowing_factor, BorrowingFeeMarketExt::borrowing_factor_per_second, BorrowingFeeKinkModelParams::borrowing_factor_per_second, MarketUtils::usage_factor, utils::apply_exponent_factor
//@ bound=T=u8, DECIMALS=1 (UNIT 10): every cumulative factor, open-interest (usd) amount, borrowing factor parameter, skip flag and elapsed-seconds value; the other inputs of the rate formula fixed (liquidity 25/50, open interest in tokens 3+2 / 1+4, prices 2/2/1, exponent 1*UNIT, kink model off)
//@ stubs=none; market = plain-struct VMarket (harness/perp/src/vmarket.rs)
#[kani::proof]
#[kani::unwind(5)]
fn c13_update_borrowing_state_monotone_u8() {
    update_borrowing_state_monotone::<u8, 1>(false);
}

//@ prop=C13 tier=thorough kind=hold
//@ enc=UpdateBorrowingState::try_new, UpdateBorrowingState::execute, BorrowingFeeMarketExt::next_cumulative_borrowing_factor, BorrowingFeeMarketExt::borrowing_factor_per_second, BorrowingFeeKinkModelParams::borrowing_factor_per_second, MarketUtils::usage_factor, utils::apply_exponent_factor
//@ bound=T=u8, DECIMALS=1 (UNIT 10): every pool amount, price, borrowing/kink parameter, flag and clock value of that instantiation; borrowing exponents <= 3*UNIT (unwind 5)
//@ stubs=none; market = plain-struct VMarket
//@ timeout=3600 mem=30
#[kani::proof]
#[kani::unwind(5)]
fn c13_update_borrowing_state_monotone_all_rates_u8() {
    update_borrowing_state_monotone::<u8, 1>(true);
}

// ------------------------------------------------------------------------------------------------

fn update_total_borrowing_exact<T, const D: u8>()
where
    T: FixedPointOps<D> + CheckedSub + Copy + kani::Arbitrary + Into<u32> + num_traits::Bounded,
    T::Signed: Num + Copy + kani::Arbitrary + num_traits::Bounded + Into<i32>,
{
    let mut m = VMarket::<T, D>::zero();
    m.total_borrowing = VPool::any();
    let mut p = VPosition::<T, D>::zero(m, kani::any(), kani::any());
    p.size_in_usd = kani::any();
    p.borrowing_factor = kani::any();
    p.size_in_tokens = kani::any();
    p.collateral_amount = kani::any();
    let before = p;
    let next_size: T = kani::any();
    let next_factor: T = kani::any();

    let unit = w(T::UNIT);
    let max = w(T::max_value());
    let smax = <T::Signed as num_traits::Bounded>::max_value().into();
    let prev = w(before.size_in_usd) * w(before.borrowing_factor) / unit;
    let next = w(next_size) * w(next_factor) / unit;
    let cur = w(*before.market.total_borrowing.side(before.is_long)) as i32;
    let delta = next as i32 - prev as i32;
    let fits = prev <= max && next <= max && delta.abs() <= smax && cur + delta >= 0 && cur + delta <= max as i32;

    let r = p.update_total_borrowing(&next_size, &next_factor);

    if r.is_ok() {
        assert!(fits);
        let mut expect = before;
        let v = cur + delta;
        if before.is_long {
            assert!(w(p.market.total_borrowing.long) as i32 == v);
            expect.market.total_borrowing.long = p.market.total_borrowing.long;
        } else {
            assert!(w(p.market.total_borrowing.short) as i32 == v);
            expect.market.total_borrowing.short = p.market.total_borrowing.short;
        }
        // the other side, every other pool and the position itself are untouched
        assert!(p == expect);
        kani::cover!(delta > 0, "borrowing grows");
        kani::cover!(delta < 0, "borrowing shrinks");
        kani::cover!(delta == 0 && prev > 0, "unchanged");
        kani::cover!(next_size.is_zero() && prev > 0, "closed");
        kani::cover!(
            (w(next_size) * w(next_factor)) % unit != 0 && (w(before.size_in_usd) * w(before.borrowing_factor)) % unit != 0,
            "both floors inexact"
        );
    } else {
        // fails only when one of the exact numbers does not fit; never a partial write
        assert!(!fits);
        assert!(p == before);
        kani::cover!(prev > max, "previous borrowing does not fit");
        kani::cover!(prev <= max && next <= max && cur + delta < 0, "would go negative");
    }
    core::mem::forget(r);
}

//@ prop=C13 tier=quick kind=hold
//@ enc=PositionMutExt::update_total_borrowing, utils::apply_factor, Unsigned::checked_signed_sub, PoolExt::apply_delta_amount
//@ bound=T=u8, DECIMALS=1: every position size/factor, next size/factor, side, and total-borrowing pool value
//@ stubs=none; market/position = plain-struct VMarket/VPosition
#[kani::proof]
fn c13_update_total_borrowing_exact_u8() {
    update_total_borrowing_exact::<u8, 1>();
}

//@ prop=C13 tier=quick kind=hold
//@ enc=PositionMutExt::update_total_borrowing, utils::apply_factor, Unsigned::checked_signed_sub, PoolExt::apply_delta_amount
//@ bound=T=u16, DECIMALS=2 (UNIT 100): every position size/factor, next size/factor, side, and total-borrowing pool value
//@ stubs=none; market/position = plain-struct VMarket/VPosition
#[kani::proof]
fn c13_update_total_borrowing_exact_u16() {
    update_total_borrowing_exact::<u16, 2>();
}

// ------------------------------------------------------------------------------------------------

/// The sum invariant with one explicit position and an abstract rest.
struct Inv {
    p_size: u32,
    p_factor: u32,
    rest_size: u32,
    rest_b: u32,
}

/// Make the `is_long` side of `m` satisfy the invariant (constructively: total borrowing and the
/// open-interest split are computed from the parts); returns the parts.
fn market_with_invariant<T, const D: u8>(is_long: bool, m: &mut VMarket<T, D>) -> Inv
where
    T: FixedPointOps<D> + CheckedSub + Copy + kani::Arbitrary + Into<u32> + num_traits::Bounded,
    T::Signed: Num + Copy + kani::Arbitrary,
{
    let unit = w(T::UNIT);
    let max = w(T::max_value());
    let p_size: T = kani::any();
    let p_factor: T = kani::any();
    let rest_size: T = kani::any();
    let rest_b: T = kani::any();
    let f = w(*m.borrowing_factor.side(is_long));
    kani::assume(w(p_factor) <= f);
    kani::assume(w(rest_b) <= w(rest_size) * f / unit);
    // open interest of the side = explicit position + rest, split arbitrarily over the collateral tokens
    let oi_total = w(p_size) + w(rest_size);
    let oi_long_collateral: T = kani::any();
    kani::assume(w(oi_long_collateral) <= oi_total && oi_total - w(oi_long_collateral) <= max);
    let oi_short_collateral = T::from_u32(oi_total - w(oi_long_collateral)).unwrap();
    *m.open_interest.get_mut(is_long) = VPool { long: oi_long_collateral, short: oi_short_collateral };
    let b = w(p_size) * w(p_factor) / unit + w(rest_b);
    kani::assume(b <= max);
    let b_t = T::from_u32(b).unwrap();
    if is_long {
        m.total_borrowing.long = b_t;
    } else {
        m.total_borrowing.short = b_t;
    }
    Inv { p_size: w(p_size), p_factor: w(p_factor), rest_size: w(rest_size), rest_b: w(rest_b) }
}

fn pending_borrowing_fees_nonnegative<T, const D: u8>(full: bool, max_exp_units: u32, max_factor: Option<u32>)
where
    T: FixedPointOps<D> + CheckedSub + Copy + kani::Arbitrary + Into<u32> + num_traits::Bounded,
    T::Signed: Num + Copy + kani::Arbitrary,
{
    let (mut m, prices): (VMarket<T, D>, Prices<T>) = borrowing_market(full, max_exp_units);
    let is_long: bool = kani::any();
    if let Some(bound) = max_factor {
        kani::assume(w(*m.borrowing_factor.side(is_long)) <= bound);
    }
    let inv = market_with_invariant(is_long, &mut m);
    let unit = w(T::UNIT);
    let max = w(T::max_value());

    let next = m.next_cumulative_borrowing_factor(is_long, &prices, m.passed_borrowing);
    let r = m.total_pending_borrowing_fees(&prices, is_long);

    let oi = inv.p_size + inv.rest_size;
    let b = w(*m.total_borrowing.side(is_long));
    match &next {
        Ok((nf, delta)) => {
            // the factor used is never below the current one
            assert!(w(*nf) == w(*m.borrowing_factor.side(is_long)) + w(*delta));
            let total = oi * w(*nf) / unit;
            if oi <= max && total <= max {
                let Ok(v) = &r else { panic!("pending borrowing fees failed to compute") };
                // never negative: the exact difference exists (consequence of the invariant) ...
                assert!(total >= b);
                // ... and it is what is returned
                assert!(w(*v) == total - b);
                kani::cover!(w(*v) > 0, "positive pending fees");
                kani::cover!(w(*v) == 0 && b > 0, "exactly settled");
                kani::cover!(inv.rest_b > 0 && inv.p_size > 0 && w(*delta) > 0, "rest and position and accrual");
            } else {
                assert!(r.is_err());
                kani::cover!(true, "total does not fit");
            }
        }
        Err(_) => {
            assert!(r.is_err());
            kani::cover!(true, "rate not computable");
        }
    }
    core::mem::forget(next);
    core::mem::forget(r);
}

//@ prop=C13 tier=thorough kind=hold
//@ enc=BorrowingFeeMarketExt::total_pending_borrowing_fees, BorrowingFeeMarketExt::next_cumulative_borrowing_factor, BorrowingFeeMarketExt::borrowing_factor_per_second, utils::apply_factor
//@ timeout=1800 mem=20
//@ bound=T=u8, DECIMALS=1: every cumulative factor, total borrowing, open-interest (usd) amount, borrowing factor parameter, skip flag and elapsed-seconds value, constrained only by the sum invariant (one explicit position + abstract rest aggregate); the other inputs of the rate formula fixed as in c13_update_borrowing_state_monotone_u8
//@ stubs=none; invariant assumed for the pre-state: B = floor(p.size*p.factor/UNIT) + rest_b, rest_b <= floor(rest_size*F/UNIT), p.factor <= F, OI = p.size + rest_size
#[kani::proof]
#[kani::unwind(4)]
fn c13_pending_borrowing_fees_sum_invariant_u8() {
    pending_borrowing_fees_nonnegative::<u8, 1>(false, 1, None);
}

//@ prop=C13 tier=experimental kind=hold
//@ enc=BorrowingFeeMarketExt::total_pending_borrowing_fees, BorrowingFeeMarketExt::next_cumulative_borrowing_factor, BorrowingFeeMarketExt::borrowing_factor_per_second, BorrowingFeeKinkModelParams::borrowing_factor_per_second, utils::apply_exponent_factor, utils::apply_factor
//@ bound=T=u8, DECIMALS=1: as c13_pending_borrowing_fees_nonnegative_u8 but every rate configuration (kink model on/off, exponents <= 2*UNIT, unwind 4)
//@ stubs=none; same invariant. Does NOT finish: timeout at 3000 s (the sum-invariant inequality over five u8 values on top of the full rate formula)
//@ timeout=3600 mem=30
#[kani::proof]
#[kani::unwind(4)]
fn c13_pending_borrowing_fees_nonnegative_all_rates_u8() {
    pending_borrowing_fees_nonnegative::<u8, 1>(true, 2, None);
}

// ------------------------------------------------------------------------------------------------

/// (d) the invariant is inductive: preserved by a borrowing-state update and by a position's
/// settle step (update_total_borrowing at the current factor + open-interest change by the size delta).
fn invariant_preserved<T, const D: u8>()
where
    T: FixedPointOps<D> + CheckedSub + Copy + kani::Arbitrary + Into<u32> + num_traits::Bounded,
    T::Signed: Num + Copy + kani::Arbitrary + num_traits::Bounded + Into<i32>,
{
    let unit = w(T::UNIT);
    let is_long: bool = kani::any();
    let is_collateral_long: bool = kani::any();
    let mut m = VMarket::<T, D>::zero();
    m.borrowing_factor = VPool::any();
    m.total_borrowing = VPool::any();
    m.open_interest = Side2 { long: VPool::any(), short: VPool::any() };
    let inv = market_with_invariant(is_long, &mut m);
    // the explicit position's share of the open interest sits on its collateral side
    kani::assume(w(*m.open_interest.get(is_long).side(is_collateral_long)) >= inv.p_size);

    let mut p = VPosition::<T, D>::zero(m, is_long, is_collateral_long);
    let p_size: T = kani::any();
    let p_factor: T = kani::any();
    kani::assume(w(p_size) == inv.p_size && w(p_factor) == inv.p_factor);
    p.size_in_usd = p_size;
    p.borrowing_factor = p_factor;

    // settle: exactly what increase/decrease do around update_total_borrowing
    let next_size: T = kani::any();
    let f = p.market.cumulative_borrowing_factor(is_long).unwrap();
    let r = p.update_total_borrowing(&next_size, &f);
    if r.is_ok() {
        let b = w(*p.market.total_borrowing.side(is_long));
        // new invariant instance: p' = (next_size, F), same rest
        assert!(b == w(next_size) * w(f) / unit + inv.rest_b);
        assert!(inv.rest_b <= inv.rest_size * w(f) / unit);
        // and it still implies the market-level bound used by total_pending_borrowing_fees
        assert!(b <= (w(next_size) + inv.rest_size) * w(f) / unit);
        kani::cover!(w(next_size) > inv.p_size && inv.p_factor < w(f), "increase with pending fees");
        kani::cover!(next_size.is_zero() && inv.p_size > 0, "close");
    }
    core::mem::forget(r);
}

//@ prop=C13 tier=quick kind=hold
//@ enc=PositionMutExt::update_total_borrowing, BorrowingFeeMarketExt::cumulative_borrowing_factor
//@ bound=T=u8, DECIMALS=1: every value of the explicit position, the rest aggregate, the factor and the next size
//@ stubs=none; pre-state constrained only by the sum invariant
#[kani::proof]
fn c13_invariant_preserved_by_settle_u8() {
    invariant_preserved::<u8, 1>();
}

// ------------------------------------------------------------------------------------------------

/// (c) at market level: `B <= floor(OI * F / UNIT)` is what the per-position sum gives
/// (B = sum_i floor(s_i*f_i/UNIT) by (b), f_i <= F by (a), OI = sum_i s_i by C07, and
/// sum_i floor(x_i) <= floor(sum_i x_i)); under it the pending fees are computable and exact.
fn pending_borrowing_fees_market_bound<T, const D: u8>(full: bool, max_exp_units: u32)
where
    T: FixedPointOps<D> + CheckedSub + Copy + kani::Arbitrary + Into<u32> + num_traits::Bounded,
    T::Signed: Num + Copy + kani::Arbitrary,
{
    let (m, prices): (VMarket<T, D>, Prices<T>) = borrowing_market(full, max_exp_units);
    let is_long: bool = kani::any();
    let unit = w(T::UNIT);
    let max = w(T::max_value());
    let pool = m.open_interest.get(is_long);
    let oi = w(pool.long) + w(pool.short);
    let f = w(*m.borrowing_factor.side(is_long));
    let b = w(*m.total_borrowing.side(is_long));
    kani::assume(b <= oi * f / unit);

    let next = m.next_cumulative_borrowing_factor(is_long, &prices, m.passed_borrowing);
    let r = m.total_pending_borrowing_fees(&prices, is_long);

    match &next {
        Ok((nf, delta)) => {
            // the factor used is the current one plus the accrued (unsigned) delta
            assert!(w(*nf) == f + w(*delta));
            let total = oi * w(*nf) / unit;
            if oi <= max && total <= max {
                let Ok(v) = &r else { panic!("pending borrowing fees failed to compute") };
                assert!(total >= b);
                assert!(w(*v) == total - b);
                kani::cover!(w(*v) > 0 && w(*delta) == 0, "unsettled fees, no accrual");
                kani::cover!(w(*v) == 0 && b > 0, "exactly settled");
                kani::cover!(w(*delta) > 0 && b > 0, "accrual");
            } else {
                assert!(r.is_err());
                kani::cover!(true, "total does not fit");
            }
        }
        Err(_) => {
            assert!(r.is_err());
            kani::cover!(true, "rate not computable");
        }
    }
    core::mem::forget(next);
    core::mem::forget(r);
}

//@ prop=C13 tier=quick kind=hold
//@ enc=BorrowingFeeMarketExt::total_pending_borrowing_fees, BorrowingFeeMarketExt::next_cumulative_borrowing_factor, BorrowingFeeMarketExt::borrowing_factor_per_second, utils::apply_factor
//@ bound=T=u8, DECIMALS=1: every cumulative factor, total borrowing, open-interest (usd) amount, borrowing factor parameter, skip flag and elapsed-seconds value with total borrowing <= floor(OI*F/UNIT); the other inputs of the rate formula fixed as in c13_update_borrowing_state_monotone_u8
//@ stubs=none; assumed pre-state invariant: total_borrowing(side) <= floor(open_interest(side) * cumulative_factor(side) / UNIT)
#[kani::proof]
#[kani::unwind(4)]
fn c13_pending_borrowing_fees_market_bound_u8() {
    pending_borrowing_fees_market_bound::<u8, 1>(false, 1);
}
