//! Native reproduction of the C08 rounding corner found by `c08_processor_fees_conserves_strict_u8`
//! (run: `cd /verif/harness/perp && RUSTFLAGS="--cfg gmsol_verif" cargo test --offline
//! --target-dir /verif/.target/perp-native --test c08_fee_credit_rounding`).
//!
//! A fee of 2 collateral tokens is due, only 1 collateral token is available, no secondary output.
//! The unpaid rest (1 token at price 1) converts to floor(1*1/3) = 0 secondary tokens, so the cost
//! counts as settled and the pool and the fee receiver are credited with the NOMINAL 1 + 1 tokens
//! although only 1 token was paid: the accounted holdings of the collateral token grow by 1 token
//! that nobody paid in.
#![cfg(gmsol_verif)]
use gmsol_model::{
    action::decrease_position::verif_hooks::{verif_process, VerifStep},
    params::FeeParams,
    pool::delta::BalanceChange,
    price::{Price, Prices},
    test::TestMarket,
    Balance, BaseMarket,
};

#[test]
fn fee_credit_exceeds_payment_when_rest_rounds_to_zero_secondary_tokens() {
    let mut market = TestMarket::<u64, 9>::default();
    let prices = Prices {
        index_token_price: Price { min: 3, max: 3 },
        long_token_price: Price { min: 3, max: 3 },
        short_token_price: Price { min: 1, max: 1 },
    };
    // order fee = 100% of a size of 2 usd units -> 2 short tokens, half of it for the receiver
    let mut fees = FeeParams::<u64>::builder()
        .fee_receiver_factor(500_000_000)
        .positive_impact_fee_factor(1_000_000_000)
        .negative_impact_fee_factor(1_000_000_000)
        .build()
        .base_position_fees::<9>(&prices.short_token_price, &2, BalanceChange::Worsened)
        .unwrap();
    assert_eq!(*fees.order_fees().fee_amounts().fee_amount_for_pool(), 1);
    assert_eq!(*fees.order_fees().fee_amounts().fee_amount_for_receiver(), 1);

    let pool_before = market.liquidity_pool().unwrap().short_amount().unwrap();
    let fee_before = market.claimable_fee_pool().unwrap().short_amount().unwrap();
    let res = verif_process::<_, 9>(
        &mut market,
        false, // collateral (output) token = short token
        true,  // pnl (secondary output) token = long token
        false,
        &prices,
        1, // remaining collateral
        0, // output amount
        0, // secondary output amount
        false,
        VerifStep::PayForFeesExcludingFunding(&mut fees),
    )
    .expect("the step succeeds: the cost counts as settled");
    assert!(res.insolvent_close_step.is_none());
    let paid = 1 - res.remaining_collateral_amount;
    let credited = (market.liquidity_pool().unwrap().short_amount().unwrap() - pool_before)
        + (market.claimable_fee_pool().unwrap().short_amount().unwrap() - fee_before);
    assert_eq!(paid, 1);
    // strict token conservation would require credited == paid
    assert_eq!(credited, paid, "credited {credited} tokens to pool + fee receiver, only {paid} paid");
}
