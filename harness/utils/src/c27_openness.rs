use gmsol_utils::price::{MarketStatusFlagContainer, PriceFeedPrice};

/// Reference: exact arithmetic in i128, explicit bit positions (independent of `bitmaps`).
fn reference_open(bytes: &[u8; 64], now: i64, timeout: u32, policy: u8) -> bool {
    // layout of PriceFeedPrice (repr(C)): decimals u8, flags u8, market_status u8, pad u8,
    // last_update_diff u32, ts i64, price/min/max u128.
    let flags = bytes[1];
    let status = bytes[2];
    let lud = u32::from_le_bytes([bytes[4], bytes[5], bytes[6], bytes[7]]);
    let ts = i64::from_le_bytes([
        bytes[8], bytes[9], bytes[10], bytes[11], bytes[12], bytes[13], bytes[14], bytes[15],
    ]);
    let bit = |v: u8, i: u8| (v >> i) & 1 == 1;
    // MarketStatus: 0 Disabled(skip) 1 Unknown 2 PreMarket 3 RegularHours 4 PostMarket 5 Overnight 6 Closed;
    // invalid stored values read as Disabled.
    // MarketStatusFlag bits: 0 AllowUnknown 1 AllowPreMarket 2 HaltRegularHours 3 AllowPostMarket
    // 4 AllowOvernight 5 AllowClosed.
    let closed_by_status = match status {
        1 => !bit(policy, 0),
        2 => !bit(policy, 1),
        3 => bit(policy, 2),
        4 => !bit(policy, 3),
        5 => !bit(policy, 4),
        6 => !bit(policy, 5),
        _ => false,
    };
    if closed_by_status {
        return false;
    }
    // PriceFlag bits: 0 Open, 1 LastUpdateDiffEnabled, 2 LastUpdateDiffSecs.
    if !bit(flags, 0) {
        return false;
    }
    if !bit(flags, 1) {
        return true;
    }
    let diff_secs: i128 = if bit(flags, 2) {
        lud as i128
    } else {
        ((lud as i128) + 999_999_999) / 1_000_000_000
    };
    let age = now as i128 - ts as i128;
    age <= timeout as i128 && age + diff_secs <= timeout as i128
}

//@ prop=C27 tier=quick kind=hold
//@ enc=PriceFeedPrice::is_market_open, PriceFeedPrice::last_update_diff_secs, PriceFeedPrice::market_status, MarketStatus::openness, MarketStatusFlagContainer::{from_value,get_flag}, PriceFlagContainer::get_flag
//@ bound=none: all 64-byte PriceFeedPrice images (all i64 ts, u32 diff, flag/status bytes incl. invalid), all i64 now, all u32 timeout, all 256 policy bytes
#[kani::proof]
fn c27_is_market_open_matches_reference() {
    let bytes: [u8; 64] = kani::any();
    let price: PriceFeedPrice = bytemuck::pod_read_unaligned(&bytes);
    let now: i64 = kani::any();
    let timeout: u32 = kani::any();
    let policy: u8 = kani::any();
    let got = price.is_market_open(now, timeout, MarketStatusFlagContainer::from_value(policy));
    let want = reference_open(&bytes, now, timeout, policy);
    kani::cover!(got, "open");
    kani::cover!(!got && (bytes[1] & 3) == 3 && bytes[2] == 3, "stale");
    kani::cover!(got && (now as i128 - i64::from_le_bytes([bytes[8], bytes[9], bytes[10], bytes[11], bytes[12], bytes[13], bytes[14], bytes[15]]) as i128) < i64::MIN as i128, "open with saturated underflow");
    assert!(got == want, "C27: is_market_open differs from the status/flag/freshness policy");
}
