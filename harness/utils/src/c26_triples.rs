//! C26, Kani side: `Decimal::try_from_price` / `to_unit_price` / `with_unit_price` with a CONCRETE
//! (decimals, token_decimals, precision) triple per call and a symbolic price, compared with an
//! exact reference built from constant powers of ten only.
use gmsol_utils::price::Decimal;

pub(crate) const POW10: [u128; 39] = {
    let mut t = [1u128; 39];
    let mut i = 1;
    while i < 39 {
        t[i] = t[i - 1] * 10;
        i += 1;
    }
    t
};

/// Division-free classification: with `k = 10^(dec-prec)` the truncated value `floor(price/k)` fits
/// `u32` iff `price < 2^32 * k`; with `mm = 10^(prec-dec)` the exact value `price*mm` fits iff
/// `price <= floor(u32::MAX / mm)`. Constants only (`2^32 * 10^20 < 2^99`).
fn representable(price: u128, dec: u8, prec: u8) -> bool {
    if prec >= dec {
        price <= (u32::MAX as u128) / POW10[(prec - dec) as usize]
    } else {
        price < (1u128 << 32) * POW10[(dec - prec) as usize]
    }
}

fn is_valid(dec: u8, tdec: u8, prec: u8) -> bool {
    dec <= 20 && tdec <= 20 && prec <= 20 && tdec as u16 + prec as u16 <= 20
}

/// EVERY u128 price, one concrete valid triple: accepted iff the truncated value fits u32 (Err only when
/// the price cannot be represented) and multiplier = 20 - tdec - prec. When no digit is cut
/// (`prec >= dec`) the representable prices are exactly `price <= u32::MAX / 10^(prec-dec)` and
/// [`exact_when_no_cut`] decides the stored value for all of them.
pub(crate) fn classify(dec: u8, tdec: u8, prec: u8) -> (bool, bool) {
    let price: u128 = kani::any();
    let r = Decimal::try_from_price(price, dec, tdec, prec);
    let m = 20 - tdec - prec;
    match r {
        Ok(d) => {
            assert!(d.decimal_multiplier == m, "C26: wrong decimal multiplier");
            assert!(representable(price, dec, prec), "C26: unrepresentable price accepted");
            (true, false)
        }
        Err(_) => {
            assert!(!representable(price, dec, prec), "C26: representable price rejected");
            (false, true)
        }
    }
}

/// `prec >= dec` (no digit is cut): every representable price (`price <= u32::MAX / 10^(prec-dec)`; the
/// complement is rejected, see [`classify`]) must be stored as exactly `price * 10^(prec-dec)`.
/// Decided for EVERY representable price when the conversion involves no division
/// (`dec >= tdec || prec >= tdec`); when it multiplies by `10^(tdec-dec)` and divides by `10^(tdec-prec)`
/// the SAT problem (a 128-bit multiplier against a divider) only finishes for `price < 2^10`, which is
/// then the stated bound.
pub(crate) fn exact_when_no_cut(dec: u8, tdec: u8, prec: u8) {
    let mm = POW10[(prec - dec) as usize];
    let price: u32 = kani::any();
    kani::assume(price as u128 <= (u32::MAX as u128) / mm);
    if dec < tdec && prec < tdec {
        kani::assume(price < 1024);
    }
    match Decimal::try_from_price(price as u128, dec, tdec, prec) {
        Ok(d) => assert!(d.value as u128 == price as u128 * mm, "C26: exact price altered"),
        Err(_) => assert!(false, "C26: representable price rejected"),
    }
}

/// Settings beyond the supported maximum are an error for every price.
pub(crate) fn invalid(dec: u8, tdec: u8, prec: u8) {
    let price: u128 = kani::any();
    assert!(Decimal::try_from_price(price, dec, tdec, prec).is_err(), "C26: unsupported decimal settings accepted");
}

/// Concrete quotient `v`, EVERY remainder: each price in `[v*k, (v+1)*k)` (k = 10^(dec-prec), dec > prec)
/// must convert to exactly `v`: never rounded up (remainder k-1 included), never a step low.
pub(crate) fn window(dec: u8, tdec: u8, prec: u8, v: u32) {
    let k = POW10[(dec - prec) as usize];
    let price: u128 = kani::any();
    kani::assume(price >= v as u128 * k && price - v as u128 * k < k);
    match Decimal::try_from_price(price, dec, tdec, prec) {
        Ok(d) => assert!(d.value == v, "C26: not the exact truncation (rounded up or a step low)"),
        Err(_) => assert!(false, "C26: representable price rejected"),
    }
    kani::cover!(price - v as u128 * k == k - 1, "right end of the window (largest remainder)");
}

pub(crate) fn windows(dec: u8, tdec: u8, prec: u8) {
    window(dec, tdec, prec, 0);
    window(dec, tdec, prec, 1);
    window(dec, tdec, prec, 9);
    window(dec, tdec, prec, 10);
    window(dec, tdec, prec, 4_999);
    window(dec, tdec, prec, 50_000_000);
    window(dec, tdec, prec, 0x5555_5555);
    window(dec, tdec, prec, 0xAAAA_AAAA);
    window(dec, tdec, prec, u32::MAX - 1);
    window(dec, tdec, prec, u32::MAX);
}

/// Every price whose truncated value is below `2^vbits`, against the one-division reference.
pub(crate) fn small(dec: u8, tdec: u8, prec: u8, vbits: u32) {
    let k = POW10[(dec - prec) as usize];
    let price: u128 = kani::any();
    kani::assume(price < (1u128 << vbits) * k);
    match Decimal::try_from_price(price, dec, tdec, prec) {
        Ok(d) => {
            assert!(d.value as u128 == price / k, "C26: stored value is not floor(price / 10^(dec-prec))");
            kani::cover!(d.value > 0 && price % k == k - 1, "largest remainder cut off");
        }
        Err(_) => assert!(false, "C26: representable price rejected"),
    }
}

// ---- quick: the triples of the repository tests (test_price_1..8, test_price_max_price) and the limits ----

//@ prop=C26 tier=quick kind=hold
//@ enc=gmsol_utils::price::Decimal::try_from_price, Decimal::decimal_multiplier_from_precision, u128::pow, u128::checked_mul
//@ bound=EVERY u128 price; (decimals, token_decimals, precision) in {(18,8,4),(8,8,2),(6,6,6),(18,8,11),(5,8,4),(12,8,2),(10,5,9),(8,8,4),(20,8,2),(20,6,6)} (repo tests); decides acceptance <=> truncated value fits u32, the multiplier, and exact value where no digit is cut; exact truncation itself: see the window/small harnesses and the mir2smt obligations; unwind 12 (10 triples, u128::pow)
#[kani::proof]
#[kani::unwind(12)]
fn c26_classify_test_triples() {
    let mut ok = false;
    let mut err = false;
    let ts: [(u8, u8, u8); 10] = [(18, 8, 4), (8, 8, 2), (6, 6, 6), (18, 8, 11), (5, 8, 4), (12, 8, 2), (10, 5, 9), (8, 8, 4), (20, 8, 2), (20, 6, 6)];
    let mut i = 0;
    while i < 10 {
        let (o, e) = classify(ts[i].0, ts[i].1, ts[i].2);
        if ts[i].2 >= ts[i].0 {
            exact_when_no_cut(ts[i].0, ts[i].1, ts[i].2);
        }
        ok |= o;
        err |= e;
        i += 1;
    }
    kani::cover!(ok, "some price accepted");
    kani::cover!(err, "some price rejected as unrepresentable");
}

//@ prop=C26 tier=quick kind=hold
//@ enc=gmsol_utils::price::Decimal::try_from_price
//@ bound=EVERY u128 price; limit triples (0,0,0),(20,20,0),(20,0,20),(0,20,0),(0,0,20),(20,0,0),(0,10,10),(20,10,10),(1,19,1),(19,1,19); unwind 12
#[kani::proof]
#[kani::unwind(12)]
fn c26_classify_limit_triples() {
    let mut ok = false;
    let mut err = false;
    let ts: [(u8, u8, u8); 10] = [(0, 0, 0), (20, 20, 0), (20, 0, 20), (0, 20, 0), (0, 0, 20), (20, 0, 0), (0, 10, 10), (20, 10, 10), (1, 19, 1), (19, 1, 19)];
    let mut i = 0;
    while i < 10 {
        let (o, e) = classify(ts[i].0, ts[i].1, ts[i].2);
        if ts[i].2 >= ts[i].0 {
            exact_when_no_cut(ts[i].0, ts[i].1, ts[i].2);
        }
        ok |= o;
        err |= e;
        i += 1;
    }
    kani::cover!(ok, "some price accepted");
    kani::cover!(err, "some price rejected as unrepresentable");
}

//@ prop=C26 tier=quick kind=hold
//@ enc=gmsol_utils::price::Decimal::try_from_price
//@ bound=EVERY u128 price; EVERY (decimals, token_decimals, precision) in 0..=255 each that is outside the supported set (some component > 20 or token_decimals + precision > 20), symbolic
#[kani::proof]
#[kani::unwind(7)]
fn c26_unsupported_settings_rejected() {
    let (d, t, p): (u8, u8, u8) = (kani::any(), kani::any(), kani::any());
    kani::assume(!is_valid(d, t, p));
    invalid(d, t, p);
    kani::cover!(d <= 20 && t <= 20 && p <= 20, "each component supported but token_decimals + precision > 20");
    kani::cover!(d == 21 && t == 0 && p == 0, "decimals just above the maximum");
}

//@ prop=C26 tier=quick kind=hold
//@ enc=gmsol_utils::price::Decimal::try_from_price
//@ bound=truncating test triples (18,8,4),(8,8,2),(10,5,9) (two divisions / one division / division by ten after a multiplication-free path); for each of 10 concrete quotients v in {0,1,9,10,4999,5e7,0x55555555,0xAAAAAAAA,2^32-2,2^32-1} EVERY price in [v*10^(dec-prec), (v+1)*10^(dec-prec)) (all remainders); unwind 7
#[kani::proof]
#[kani::unwind(7)]
fn c26_exact_windows_test_triples() {
    windows(18, 8, 4);
    windows(8, 8, 2);
    windows(10, 5, 9);
}

//@ prop=C26 tier=thorough kind=hold
//@ enc=gmsol_utils::price::Decimal::try_from_price
//@ bound=truncating test triples (12,8,2),(20,8,2),(20,6,6),(18,8,11),(5,8,4); same 10 quotient windows, every remainder; unwind 7
//@ timeout=3600
#[kani::proof]
#[kani::unwind(7)]
fn c26_exact_windows_more_test_triples() {
    windows(12, 8, 2);
    windows(20, 8, 2);
    windows(20, 6, 6);
    windows(18, 8, 11);
    windows(5, 8, 4);
}

//@ prop=C26 tier=thorough kind=hold
//@ enc=gmsol_utils::price::Decimal::try_from_price
//@ bound=limit truncating triples (20,20,0),(20,0,0),(20,10,10),(19,1,18),(1,0,0),(20,0,19); same 10 quotient windows, every remainder; unwind 7
//@ timeout=3600
#[kani::proof]
#[kani::unwind(7)]
fn c26_exact_windows_limit_triples() {
    windows(20, 20, 0);
    windows(20, 0, 0);
    windows(20, 10, 10);
    windows(19, 1, 18);
    windows(1, 0, 0);
    windows(20, 0, 19);
}

//@ prop=C26 tier=quick kind=hold
//@ enc=gmsol_utils::price::Decimal::try_from_price
//@ bound=triples (18,8,4),(8,8,2),(5,8,4): EVERY price whose truncated value is below 2^10 (price < 2^10 * 10^(dec-prec)), against floor(price / 10^(dec-prec)); unwind 7
#[kani::proof]
#[kani::unwind(7)]
fn c26_exact_small_values() {
    small(18, 8, 4, 10);
    small(8, 8, 2, 10);
    small(5, 8, 4, 10);
}

// ---- thorough: the Ok/Err classification for EVERY triple with token_decimals in {6, 8, 9, 18, 20} ----
// (all 4 851 triples are decided exactly by the mir2smt obligations; one CBMC formula with more than ~50
// triples grows superlinearly: 81 triples 510 s, 189 triples > 1 800 s, hence the slicing by decimals)

/// All `(dec, prec)` with `dec_lo <= dec <= dec_hi`, `prec <= 20 - tdec` for one `tdec`.
pub(crate) fn classify_range(tdec: u8, dec_lo: u8, dec_hi: u8) {
    let mut ok = false;
    let mut err = false;
    let mut dec = dec_lo;
    while dec <= dec_hi {
        let mut prec = 0u8;
        while prec <= 20 - tdec {
            let (o, e) = classify(dec, tdec, prec);
            if prec >= dec {
                exact_when_no_cut(dec, tdec, prec);
            }
            ok |= o;
            err |= e;
            prec += 1;
        }
        dec += 1;
    }
    kani::cover!(ok, "some price accepted");
    kani::cover!(err, "some price rejected as unrepresentable");
}

//@ prop=C26 tier=thorough kind=hold
//@ enc=gmsol_utils::price::Decimal::try_from_price, Decimal::decimal_multiplier_from_precision, u128::pow, u128::checked_mul
//@ bound=EVERY u128 price; token_decimals = 6, decimals 0..=2, EVERY precision 0..=14 (45 triples, enumerated): acceptance <=> truncated value fits u32, multiplier, exact stored value for every representable price where no digit is cut (price < 2^10 when the path multiplies and divides); unwind 23
//@ timeout=3600
#[kani::proof]
#[kani::unwind(23)]
fn c26_classify_all_tdec_06_dec_00_02() {
    classify_range(6, 0, 2);
}

//@ prop=C26 tier=thorough kind=hold
//@ enc=gmsol_utils::price::Decimal::try_from_price, Decimal::decimal_multiplier_from_precision, u128::pow, u128::checked_mul
//@ bound=EVERY u128 price; token_decimals = 6, decimals 3..=5, EVERY precision 0..=14 (45 triples, enumerated): acceptance <=> truncated value fits u32, multiplier, exact stored value for every representable price where no digit is cut (price < 2^10 when the path multiplies and divides); unwind 23
//@ timeout=3600
#[kani::proof]
#[kani::unwind(23)]
fn c26_classify_all_tdec_06_dec_03_05() {
    classify_range(6, 3, 5);
}

//@ prop=C26 tier=thorough kind=hold
//@ enc=gmsol_utils::price::Decimal::try_from_price, Decimal::decimal_multiplier_from_precision, u128::pow, u128::checked_mul
//@ bound=EVERY u128 price; token_decimals = 6, decimals 6..=8, EVERY precision 0..=14 (45 triples, enumerated): acceptance <=> truncated value fits u32, multiplier, exact stored value for every representable price where no digit is cut (price < 2^10 when the path multiplies and divides); unwind 23
//@ timeout=3600
#[kani::proof]
#[kani::unwind(23)]
fn c26_classify_all_tdec_06_dec_06_08() {
    classify_range(6, 6, 8);
}

//@ prop=C26 tier=thorough kind=hold
//@ enc=gmsol_utils::price::Decimal::try_from_price, Decimal::decimal_multiplier_from_precision, u128::pow, u128::checked_mul
//@ bound=EVERY u128 price; token_decimals = 6, decimals 9..=11, EVERY precision 0..=14 (45 triples, enumerated): acceptance <=> truncated value fits u32, multiplier, exact stored value for every representable price where no digit is cut (price < 2^10 when the path multiplies and divides); unwind 23
//@ timeout=3600
#[kani::proof]
#[kani::unwind(23)]
fn c26_classify_all_tdec_06_dec_09_11() {
    classify_range(6, 9, 11);
}

//@ prop=C26 tier=thorough kind=hold
//@ enc=gmsol_utils::price::Decimal::try_from_price, Decimal::decimal_multiplier_from_precision, u128::pow, u128::checked_mul
//@ bound=EVERY u128 price; token_decimals = 6, decimals 12..=14, EVERY precision 0..=14 (45 triples, enumerated): acceptance <=> truncated value fits u32, multiplier, exact stored value for every representable price where no digit is cut (price < 2^10 when the path multiplies and divides); unwind 23
//@ timeout=3600
#[kani::proof]
#[kani::unwind(23)]
fn c26_classify_all_tdec_06_dec_12_14() {
    classify_range(6, 12, 14);
}

//@ prop=C26 tier=thorough kind=hold
//@ enc=gmsol_utils::price::Decimal::try_from_price, Decimal::decimal_multiplier_from_precision, u128::pow, u128::checked_mul
//@ bound=EVERY u128 price; token_decimals = 6, decimals 15..=17, EVERY precision 0..=14 (45 triples, enumerated): acceptance <=> truncated value fits u32, multiplier, exact stored value for every representable price where no digit is cut (price < 2^10 when the path multiplies and divides); unwind 23
//@ timeout=3600
#[kani::proof]
#[kani::unwind(23)]
fn c26_classify_all_tdec_06_dec_15_17() {
    classify_range(6, 15, 17);
}

//@ prop=C26 tier=thorough kind=hold
//@ enc=gmsol_utils::price::Decimal::try_from_price, Decimal::decimal_multiplier_from_precision, u128::pow, u128::checked_mul
//@ bound=EVERY u128 price; token_decimals = 6, decimals 18..=20, EVERY precision 0..=14 (45 triples, enumerated): acceptance <=> truncated value fits u32, multiplier, exact stored value for every representable price where no digit is cut (price < 2^10 when the path multiplies and divides); unwind 23
//@ timeout=3600
#[kani::proof]
#[kani::unwind(23)]
fn c26_classify_all_tdec_06_dec_18_20() {
    classify_range(6, 18, 20);
}

//@ prop=C26 tier=thorough kind=hold
//@ enc=gmsol_utils::price::Decimal::try_from_price, Decimal::decimal_multiplier_from_precision, u128::pow, u128::checked_mul
//@ bound=EVERY u128 price; token_decimals = 8, decimals 0..=2, EVERY precision 0..=12 (39 triples, enumerated): acceptance <=> truncated value fits u32, multiplier, exact stored value for every representable price where no digit is cut (price < 2^10 when the path multiplies and divides); unwind 23
//@ timeout=3600
#[kani::proof]
#[kani::unwind(23)]
fn c26_classify_all_tdec_08_dec_00_02() {
    classify_range(8, 0, 2);
}

//@ prop=C26 tier=thorough kind=hold
//@ enc=gmsol_utils::price::Decimal::try_from_price, Decimal::decimal_multiplier_from_precision, u128::pow, u128::checked_mul
//@ bound=EVERY u128 price; token_decimals = 8, decimals 3..=5, EVERY precision 0..=12 (39 triples, enumerated): acceptance <=> truncated value fits u32, multiplier, exact stored value for every representable price where no digit is cut (price < 2^10 when the path multiplies and divides); unwind 23
//@ timeout=3600
#[kani::proof]
#[kani::unwind(23)]
fn c26_classify_all_tdec_08_dec_03_05() {
    classify_range(8, 3, 5);
}

//@ prop=C26 tier=thorough kind=hold
//@ enc=gmsol_utils::price::Decimal::try_from_price, Decimal::decimal_multiplier_from_precision, u128::pow, u128::checked_mul
//@ bound=EVERY u128 price; token_decimals = 8, decimals 6..=8, EVERY precision 0..=12 (39 triples, enumerated): acceptance <=> truncated value fits u32, multiplier, exact stored value for every representable price where no digit is cut (price < 2^10 when the path multiplies and divides); unwind 23
//@ timeout=3600
#[kani::proof]
#[kani::unwind(23)]
fn c26_classify_all_tdec_08_dec_06_08() {
    classify_range(8, 6, 8);
}

//@ prop=C26 tier=thorough kind=hold
//@ enc=gmsol_utils::price::Decimal::try_from_price, Decimal::decimal_multiplier_from_precision, u128::pow, u128::checked_mul
//@ bound=EVERY u128 price; token_decimals = 8, decimals 9..=11, EVERY precision 0..=12 (39 triples, enumerated): acceptance <=> truncated value fits u32, multiplier, exact stored value for every representable price where no digit is cut (price < 2^10 when the path multiplies and divides); unwind 23
//@ timeout=3600
#[kani::proof]
#[kani::unwind(23)]
fn c26_classify_all_tdec_08_dec_09_11() {
    classify_range(8, 9, 11);
}

//@ prop=C26 tier=thorough kind=hold
//@ enc=gmsol_utils::price::Decimal::try_from_price, Decimal::decimal_multiplier_from_precision, u128::pow, u128::checked_mul
//@ bound=EVERY u128 price; token_decimals = 8, decimals 12..=14, EVERY precision 0..=12 (39 triples, enumerated): acceptance <=> truncated value fits u32, multiplier, exact stored value for every representable price where no digit is cut (price < 2^10 when the path multiplies and divides); unwind 23
//@ timeout=3600
#[kani::proof]
#[kani::unwind(23)]
fn c26_classify_all_tdec_08_dec_12_14() {
    classify_range(8, 12, 14);
}

//@ prop=C26 tier=thorough kind=hold
//@ enc=gmsol_utils::price::Decimal::try_from_price, Decimal::decimal_multiplier_from_precision, u128::pow, u128::checked_mul
//@ bound=EVERY u128 price; token_decimals = 8, decimals 15..=17, EVERY precision 0..=12 (39 triples, enumerated): acceptance <=> truncated value fits u32, multiplier, exact stored value for every representable price where no digit is cut (price < 2^10 when the path multiplies and divides); unwind 23
//@ timeout=3600
#[kani::proof]
#[kani::unwind(23)]
fn c26_classify_all_tdec_08_dec_15_17() {
    classify_range(8, 15, 17);
}

//@ prop=C26 tier=thorough kind=hold
//@ enc=gmsol_utils::price::Decimal::try_from_price, Decimal::decimal_multiplier_from_precision, u128::pow, u128::checked_mul
//@ bound=EVERY u128 price; token_decimals = 8, decimals 18..=20, EVERY precision 0..=12 (39 triples, enumerated): acceptance <=> truncated value fits u32, multiplier, exact stored value for every representable price where no digit is cut (price < 2^10 when the path multiplies and divides); unwind 23
//@ timeout=3600
#[kani::proof]
#[kani::unwind(23)]
fn c26_classify_all_tdec_08_dec_18_20() {
    classify_range(8, 18, 20);
}

//@ prop=C26 tier=thorough kind=hold
//@ enc=gmsol_utils::price::Decimal::try_from_price, Decimal::decimal_multiplier_from_precision, u128::pow, u128::checked_mul
//@ bound=EVERY u128 price; token_decimals = 9, decimals 0..=2, EVERY precision 0..=11 (36 triples, enumerated): acceptance <=> truncated value fits u32, multiplier, exact stored value for every representable price where no digit is cut (price < 2^10 when the path multiplies and divides); unwind 23
//@ timeout=3600
#[kani::proof]
#[kani::unwind(23)]
fn c26_classify_all_tdec_09_dec_00_02() {
    classify_range(9, 0, 2);
}

//@ prop=C26 tier=thorough kind=hold
//@ enc=gmsol_utils::price::Decimal::try_from_price, Decimal::decimal_multiplier_from_precision, u128::pow, u128::checked_mul
//@ bound=EVERY u128 price; token_decimals = 9, decimals 3..=5, EVERY precision 0..=11 (36 triples, enumerated): acceptance <=> truncated value fits u32, multiplier, exact stored value for every representable price where no digit is cut (price < 2^10 when the path multiplies and divides); unwind 23
//@ timeout=3600
#[kani::proof]
#[kani::unwind(23)]
fn c26_classify_all_tdec_09_dec_03_05() {
    classify_range(9, 3, 5);
}

//@ prop=C26 tier=thorough kind=hold
//@ enc=gmsol_utils::price::Decimal::try_from_price, Decimal::decimal_multiplier_from_precision, u128::pow, u128::checked_mul
//@ bound=EVERY u128 price; token_decimals = 9, decimals 6..=8, EVERY precision 0..=11 (36 triples, enumerated): acceptance <=> truncated value fits u32, multiplier, exact stored value for every representable price where no digit is cut (price < 2^10 when the path multiplies and divides); unwind 23
//@ timeout=3600
#[kani::proof]
#[kani::unwind(23)]
fn c26_classify_all_tdec_09_dec_06_08() {
    classify_range(9, 6, 8);
}

//@ prop=C26 tier=thorough kind=hold
//@ enc=gmsol_utils::price::Decimal::try_from_price, Decimal::decimal_multiplier_from_precision, u128::pow, u128::checked_mul
//@ bound=EVERY u128 price; token_decimals = 9, decimals 9..=11, EVERY precision 0..=11 (36 triples, enumerated): acceptance <=> truncated value fits u32, multiplier, exact stored value for every representable price where no digit is cut (price < 2^10 when the path multiplies and divides); unwind 23
//@ timeout=3600
#[kani::proof]
#[kani::unwind(23)]
fn c26_classify_all_tdec_09_dec_09_11() {
    classify_range(9, 9, 11);
}

//@ prop=C26 tier=thorough kind=hold
//@ enc=gmsol_utils::price::Decimal::try_from_price, Decimal::decimal_multiplier_from_precision, u128::pow, u128::checked_mul
//@ bound=EVERY u128 price; token_decimals = 9, decimals 12..=14, EVERY precision 0..=11 (36 triples, enumerated): acceptance <=> truncated value fits u32, multiplier, exact stored value for every representable price where no digit is cut (price < 2^10 when the path multiplies and divides); unwind 23
//@ timeout=3600
#[kani::proof]
#[kani::unwind(23)]
fn c26_classify_all_tdec_09_dec_12_14() {
    classify_range(9, 12, 14);
}

//@ prop=C26 tier=thorough kind=hold
//@ enc=gmsol_utils::price::Decimal::try_from_price, Decimal::decimal_multiplier_from_precision, u128::pow, u128::checked_mul
//@ bound=EVERY u128 price; token_decimals = 9, decimals 15..=17, EVERY precision 0..=11 (36 triples, enumerated): acceptance <=> truncated value fits u32, multiplier, exact stored value for every representable price where no digit is cut (price < 2^10 when the path multiplies and divides); unwind 23
//@ timeout=3600
#[kani::proof]
#[kani::unwind(23)]
fn c26_classify_all_tdec_09_dec_15_17() {
    classify_range(9, 15, 17);
}

//@ prop=C26 tier=thorough kind=hold
//@ enc=gmsol_utils::price::Decimal::try_from_price, Decimal::decimal_multiplier_from_precision, u128::pow, u128::checked_mul
//@ bound=EVERY u128 price; token_decimals = 9, decimals 18..=20, EVERY precision 0..=11 (36 triples, enumerated): acceptance <=> truncated value fits u32, multiplier, exact stored value for every representable price where no digit is cut (price < 2^10 when the path multiplies and divides); unwind 23
//@ timeout=3600
#[kani::proof]
#[kani::unwind(23)]
fn c26_classify_all_tdec_09_dec_18_20() {
    classify_range(9, 18, 20);
}

//@ prop=C26 tier=thorough kind=hold
//@ enc=gmsol_utils::price::Decimal::try_from_price, Decimal::decimal_multiplier_from_precision, u128::pow, u128::checked_mul
//@ bound=EVERY u128 price; token_decimals = 18, decimals 0..=2, EVERY precision 0..=2 (9 triples, enumerated): acceptance <=> truncated value fits u32, multiplier, exact stored value for every representable price where no digit is cut (price < 2^10 when the path multiplies and divides); unwind 23
//@ timeout=3600
#[kani::proof]
#[kani::unwind(23)]
fn c26_classify_all_tdec_18_dec_00_02() {
    classify_range(18, 0, 2);
}

//@ prop=C26 tier=thorough kind=hold
//@ enc=gmsol_utils::price::Decimal::try_from_price, Decimal::decimal_multiplier_from_precision, u128::pow, u128::checked_mul
//@ bound=EVERY u128 price; token_decimals = 18, decimals 3..=5, EVERY precision 0..=2 (9 triples, enumerated): acceptance <=> truncated value fits u32, multiplier, exact stored value for every representable price where no digit is cut (price < 2^10 when the path multiplies and divides); unwind 23
//@ timeout=3600
#[kani::proof]
#[kani::unwind(23)]
fn c26_classify_all_tdec_18_dec_03_05() {
    classify_range(18, 3, 5);
}

//@ prop=C26 tier=thorough kind=hold
//@ enc=gmsol_utils::price::Decimal::try_from_price, Decimal::decimal_multiplier_from_precision, u128::pow, u128::checked_mul
//@ bound=EVERY u128 price; token_decimals = 18, decimals 6..=8, EVERY precision 0..=2 (9 triples, enumerated): acceptance <=> truncated value fits u32, multiplier, exact stored value for every representable price where no digit is cut (price < 2^10 when the path multiplies and divides); unwind 23
//@ timeout=3600
#[kani::proof]
#[kani::unwind(23)]
fn c26_classify_all_tdec_18_dec_06_08() {
    classify_range(18, 6, 8);
}

//@ prop=C26 tier=thorough kind=hold
//@ enc=gmsol_utils::price::Decimal::try_from_price, Decimal::decimal_multiplier_from_precision, u128::pow, u128::checked_mul
//@ bound=EVERY u128 price; token_decimals = 18, decimals 9..=11, EVERY precision 0..=2 (9 triples, enumerated): acceptance <=> truncated value fits u32, multiplier, exact stored value for every representable price where no digit is cut (price < 2^10 when the path multiplies and divides); unwind 23
//@ timeout=3600
#[kani::proof]
#[kani::unwind(23)]
fn c26_classify_all_tdec_18_dec_09_11() {
    classify_range(18, 9, 11);
}

//@ prop=C26 tier=thorough kind=hold
//@ enc=gmsol_utils::price::Decimal::try_from_price, Decimal::decimal_multiplier_from_precision, u128::pow, u128::checked_mul
//@ bound=EVERY u128 price; token_decimals = 18, decimals 12..=14, EVERY precision 0..=2 (9 triples, enumerated): acceptance <=> truncated value fits u32, multiplier, exact stored value for every representable price where no digit is cut (price < 2^10 when the path multiplies and divides); unwind 23
//@ timeout=3600
#[kani::proof]
#[kani::unwind(23)]
fn c26_classify_all_tdec_18_dec_12_14() {
    classify_range(18, 12, 14);
}

//@ prop=C26 tier=thorough kind=hold
//@ enc=gmsol_utils::price::Decimal::try_from_price, Decimal::decimal_multiplier_from_precision, u128::pow, u128::checked_mul
//@ bound=EVERY u128 price; token_decimals = 18, decimals 15..=17, EVERY precision 0..=2 (9 triples, enumerated): acceptance <=> truncated value fits u32, multiplier, exact stored value for every representable price where no digit is cut (price < 2^10 when the path multiplies and divides); unwind 23
//@ timeout=3600
#[kani::proof]
#[kani::unwind(23)]
fn c26_classify_all_tdec_18_dec_15_17() {
    classify_range(18, 15, 17);
}

//@ prop=C26 tier=thorough kind=hold
//@ enc=gmsol_utils::price::Decimal::try_from_price, Decimal::decimal_multiplier_from_precision, u128::pow, u128::checked_mul
//@ bound=EVERY u128 price; token_decimals = 18, decimals 18..=20, EVERY precision 0..=2 (9 triples, enumerated): acceptance <=> truncated value fits u32, multiplier, exact stored value for every representable price where no digit is cut (price < 2^10 when the path multiplies and divides); unwind 23
//@ timeout=3600
#[kani::proof]
#[kani::unwind(23)]
fn c26_classify_all_tdec_18_dec_18_20() {
    classify_range(18, 18, 20);
}

//@ prop=C26 tier=thorough kind=hold
//@ enc=gmsol_utils::price::Decimal::try_from_price, Decimal::decimal_multiplier_from_precision, u128::pow, u128::checked_mul
//@ bound=EVERY u128 price; token_decimals = 20 (precision 0), EVERY decimals 0..=20 (21 triples); unwind 23
//@ timeout=3600
#[kani::proof]
#[kani::unwind(23)]
fn c26_classify_all_tdec_20() {
    classify_range(20, 0, 20);
}
