//! C26, Kani side: `Decimal::try_from_price` / `to_unit_price` / `with_unit_price` with a CONCRETE
//! (decimals, token_decimals, precision) triple per call and a symbolic price, compared with an
//! exact reference built from constant powers of ten only.
use gmsol_utils::price::Decimal;

pub(crate) const POW10: [u128; 39] = {
    let mut t = [1u128; 39];
    let mut i = 1;
    while i < 39 {
        t[i] = t[i - 1] * 10;
        i += 1;
    }
    t
};

/// Exact reference: the exact price in units of the configured precision is `price * 10^prec / 10^dec`;
/// its truncation is `floor(price / 10^(dec-prec))` when `dec > prec` (one u128 division by a constant)
/// and `price * 10^(prec-dec)` otherwise (formed only after `price <= u32::MAX / 10^(prec-dec)` is
/// known, so it cannot overflow). `None` iff that value does not fit the `u32` storage.
fn exact_value(price: u128, dec: u8, prec: u8) -> Option<u32> {
    if prec >= dec {
        let mm = POW10[(prec - dec) as usize];
        if price <= (u32::MAX as u128) / mm {
            Some((price * mm) as u32)
        } else {
            None
        }
    } else {
        let q = price / POW10[(dec - prec) as usize];
        if q <= u32::MAX as u128 {
            Some(q as u32)
        } else {
            None
        }
    }
}

/// Division-free classification: with `k = 10^(dec-prec)` the truncated value `floor(price/k)` fits
/// `u32` iff `price < 2^32 * k`; with `mm = 10^(prec-dec)` the exact value `price*mm` fits iff
/// `price <= floor(u32::MAX / mm)`. Constants only (`2^32 * 10^20 < 2^99`).
fn representable(price: u128, dec: u8, prec: u8) -> bool {
    if prec >= dec {
        price <= (u32::MAX as u128) / POW10[(prec - dec) as usize]
    } else {
        price < (1u128 << 32) * POW10[(dec - prec) as usize]
    }
}

fn is_valid(dec: u8, tdec: u8, prec: u8) -> bool {
    dec <= 20 && tdec <= 20 && prec <= 20 && tdec as u16 + prec as u16 <= 20
}

/// EVERY u128 price, one concrete valid triple: accepted iff the truncated value fits u32 (Err only when
/// the price cannot be represented) and multiplier = 20 - tdec - prec. When no digit is cut
/// (`prec >= dec`) the representable prices are exactly `price <= u32::MAX / 10^(prec-dec)` and
/// [`exact_when_no_cut`] decides the stored value for all of them.
pub(crate) fn classify(dec: u8, tdec: u8, prec: u8) -> (bool, bool) {
    let price: u128 = kani::any();
    let r = Decimal::try_from_price(price, dec, tdec, prec);
    let m = 20 - tdec - prec;
    match r {
        Ok(d) => {
            assert!(d.decimal_multiplier == m, "C26: wrong decimal multiplier");
            assert!(representable(price, dec, prec), "C26: unrepresentable price accepted");
            (true, false)
        }
        Err(_) => {
            assert!(!representable(price, dec, prec), "C26: representable price rejected");
            (false, true)
        }
    }
}

/// `prec >= dec` (no digit is cut): every representable price (`price <= u32::MAX / 10^(prec-dec)`; the
/// complement is rejected, see [`classify`]) must be stored as exactly `price * 10^(prec-dec)`.
/// Decided for EVERY representable price when the conversion involves no division
/// (`dec >= tdec || prec >= tdec`); when it multiplies by `10^(tdec-dec)` and divides by `10^(tdec-prec)`
/// the SAT problem (a 128-bit multiplier against a divider) only finishes for `price < 2^10`, which is
/// then the stated bound.
pub(crate) fn exact_when_no_cut(dec: u8, tdec: u8, prec: u8) {
    let mm = POW10[(prec - dec) as usize];
    let price: u32 = kani::any();
    kani::assume(price as u128 <= (u32::MAX as u128) / mm);
    if dec < tdec && prec < tdec {
        kani::assume(price < 1024);
    }
    match Decimal::try_from_price(price as u128, dec, tdec, prec) {
        Ok(d) => assert!(d.value as u128 == price as u128 * mm, "C26: exact price altered"),
        Err(_) => assert!(false, "C26: representable price rejected"),
    }
}

/// Settings beyond the supported maximum are an error for every price.
pub(crate) fn invalid(dec: u8, tdec: u8, prec: u8) {
    let price: u128 = kani::any();
    assert!(Decimal::try_from_price(price, dec, tdec, prec).is_err(), "C26: unsupported decimal settings accepted");
}

/// Concrete quotient `v`, EVERY remainder: each price in `[v*k, (v+1)*k)` (k = 10^(dec-prec), dec > prec)
/// must convert to exactly `v`: never rounded up (remainder k-1 included), never a step low.
pub(crate) fn window(dec: u8, tdec: u8, prec: u8, v: u32) {
    let k = POW10[(dec - prec) as usize];
    let price: u128 = kani::any();
    kani::assume(price >= v as u128 * k && price - v as u128 * k < k);
    match Decimal::try_from_price(price, dec, tdec, prec) {
        Ok(d) => assert!(d.value == v, "C26: not the exact truncation (rounded up or a step low)"),
        Err(_) => assert!(false, "C26: representable price rejected"),
    }
    kani::cover!(price - v as u128 * k == k - 1, "right end of the window (largest remainder)");
}

pub(crate) fn windows(dec: u8, tdec: u8, prec: u8) {
    window(dec, tdec, prec, 0);
    window(dec, tdec, prec, 1);
    window(dec, tdec, prec, 9);
    window(dec, tdec, prec, 10);
    window(dec, tdec, prec, 4_999);
    window(dec, tdec, prec, 50_000_000);
    window(dec, tdec, prec, 0x5555_5555);
    window(dec, tdec, prec, 0xAAAA_AAAA);
    window(dec, tdec, prec, u32::MAX - 1);
    window(dec, tdec, prec, u32::MAX);
}

/// Every price whose truncated value is below `2^vbits`, against the one-division reference.
pub(crate) fn small(dec: u8, tdec: u8, prec: u8, vbits: u32) {
    let k = POW10[(dec - prec) as usize];
    let price: u128 = kani::any();
    kani::assume(price < (1u128 << vbits) * k);
    match Decimal::try_from_price(price, dec, tdec, prec) {
        Ok(d) => {
            assert!(d.value as u128 == price / k, "C26: stored value is not floor(price / 10^(dec-prec))");
            kani::cover!(d.value > 0 && price % k == k - 1, "largest remainder cut off");
        }
        Err(_) => assert!(false, "C26: representable price rejected"),
    }
}

// ---- quick: the triples of the repository tests (test_price_1..8, test_price_max_price) and the limits ----

//@ prop=C26 tier=quick kind=hold
//@ enc=gmsol_utils::price::Decimal::try_from_price, Decimal::decimal_multiplier_from_precision, u128::pow, u128::checked_mul
//@ bound=EVERY u128 price; (decimals, token_decimals, precision) in {(18,8,4),(8,8,2),(6,6,6),(18,8,11),(5,8,4),(12,8,2),(10,5,9),(8,8,4),(20,8,2),(20,6,6)} (repo tests); decides acceptance <=> truncated value fits u32, the multiplier, and exact value where no digit is cut; exact truncation itself: see the window/small harnesses and the mir2smt obligations; unwind 12 (10 triples, u128::pow)
#[kani::proof]
#[kani::unwind(12)]
fn c26_classify_test_triples() {
    let mut ok = false;
    let mut err = false;
    let ts: [(u8, u8, u8); 10] = [(18, 8, 4), (8, 8, 2), (6, 6, 6), (18, 8, 11), (5, 8, 4), (12, 8, 2), (10, 5, 9), (8, 8, 4), (20, 8, 2), (20, 6, 6)];
    let mut i = 0;
    while i < 10 {
        let (o, e) = classify(ts[i].0, ts[i].1, ts[i].2);
        if ts[i].2 >= ts[i].0 {
            exact_when_no_cut(ts[i].0, ts[i].1, ts[i].2);
        }
        ok |= o;
        err |= e;
        i += 1;
    }
    kani::cover!(ok, "some price accepted");
    kani::cover!(err, "some price rejected as unrepresentable");
}

//@ prop=C26 tier=quick kind=hold
//@ enc=gmsol_utils::price::Decimal::try_from_price
//@ bound=EVERY u128 price; limit triples (0,0,0),(20,20,0),(20,0,20),(0,20,0),(0,0,20),(20,0,0),(0,10,10),(20,10,10),(1,19,1),(19,1,19); unwind 12
#[kani::proof]
#[kani::unwind(12)]
fn c26_classify_limit_triples() {
    let mut ok = false;
    let mut err = false;
    let ts: [(u8, u8, u8); 10] = [(0, 0, 0), (20, 20, 0), (20, 0, 20), (0, 20, 0), (0, 0, 20), (20, 0, 0), (0, 10, 10), (20, 10, 10), (1, 19, 1), (19, 1, 19)];
    let mut i = 0;
    while i < 10 {
        let (o, e) = classify(ts[i].0, ts[i].1, ts[i].2);
        if ts[i].2 >= ts[i].0 {
            exact_when_no_cut(ts[i].0, ts[i].1, ts[i].2);
        }
        ok |= o;
        err |= e;
        i += 1;
    }
    kani::cover!(ok, "some price accepted");
    kani::cover!(err, "some price rejected as unrepresentable");
}

//@ prop=C26 tier=quick kind=hold
//@ enc=gmsol_utils::price::Decimal::try_from_price
//@ bound=EVERY u128 price; EVERY (decimals, token_decimals, precision) in 0..=255 each that is outside the supported set (some component > 20 or token_decimals + precision > 20), symbolic
#[kani::proof]
#[kani::unwind(7)]
fn c26_unsupported_settings_rejected() {
    let (d, t, p): (u8, u8, u8) = (kani::any(), kani::any(), kani::any());
    kani::assume(!is_valid(d, t, p));
    invalid(d, t, p);
    kani::cover!(d <= 20 && t <= 20 && p <= 20, "each component supported but token_decimals + precision > 20");
    kani::cover!(d == 21 && t == 0 && p == 0, "decimals just above the maximum");
}

//@ prop=C26 tier=quick kind=hold
//@ enc=gmsol_utils::price::Decimal::try_from_price
//@ bound=truncating test triples (18,8,4),(8,8,2),(10,5,9) (two divisions / one division / division by ten after a multiplication-free path); for each of 10 concrete quotients v in {0,1,9,10,4999,5e7,0x55555555,0xAAAAAAAA,2^32-2,2^32-1} EVERY price in [v*10^(dec-prec), (v+1)*10^(dec-prec)) (all remainders); unwind 7
#[kani::proof]
#[kani::unwind(7)]
fn c26_exact_windows_test_triples() {
    windows(18, 8, 4);
    windows(8, 8, 2);
    windows(10, 5, 9);
}

//@ prop=C26 tier=thorough kind=hold
//@ enc=gmsol_utils::price::Decimal::try_from_price
//@ bound=truncating test triples (12,8,2),(20,8,2),(20,6,6),(18,8,11),(5,8,4); same 10 quotient windows, every remainder; unwind 7
//@ timeout=3600
#[kani::proof]
#[kani::unwind(7)]
fn c26_exact_windows_more_test_triples() {
    windows(12, 8, 2);
    windows(20, 8, 2);
    windows(20, 6, 6);
    windows(18, 8, 11);
    windows(5, 8, 4);
}

//@ prop=C26 tier=thorough kind=hold
//@ enc=gmsol_utils::price::Decimal::try_from_price
//@ bound=limit truncating triples (20,20,0),(20,0,0),(20,10,10),(19,1,18),(1,0,0),(20,0,19); same 10 quotient windows, every remainder; unwind 7
//@ timeout=3600
#[kani::proof]
#[kani::unwind(7)]
fn c26_exact_windows_limit_triples() {
    windows(20, 20, 0);
    windows(20, 0, 0);
    windows(20, 10, 10);
    windows(19, 1, 18);
    windows(1, 0, 0);
    windows(20, 0, 19);
}

//@ prop=C26 tier=quick kind=hold
//@ enc=gmsol_utils::price::Decimal::try_from_price
//@ bound=triples (18,8,4),(8,8,2),(5,8,4): EVERY price whose truncated value is below 2^10 (price < 2^10 * 10^(dec-prec)), against floor(price / 10^(dec-prec)); unwind 7
#[kani::proof]
#[kani::unwind(7)]
fn c26_exact_small_values() {
    small(18, 8, 4, 10);
    small(8, 8, 2, 10);
    small(5, 8, 4, 10);
}

// ---- thorough: the Ok/Err classification for EVERY supported triple, one harness per token_decimals ----

/// All `(dec, prec)` with `dec <= 20`, `prec <= 20 - tdec` for one `tdec` (441 triples for tdec = 0).
pub(crate) fn classify_all(tdec: u8) {
    let mut ok = false;
    let mut err = false;
    let mut dec = 0u8;
    while dec <= 20 {
        let mut prec = 0u8;
        while prec <= 20 - tdec {
            let (o, e) = classify(dec, tdec, prec);
            if prec >= dec {
                exact_when_no_cut(dec, tdec, prec);
            }
            ok |= o;
            err |= e;
            prec += 1;
        }
        dec += 1;
    }
    kani::cover!(ok, "some price accepted");
    kani::cover!(err, "some price rejected as unrepresentable");
}

//@ prop=C26 tier=thorough kind=hold
//@ enc=gmsol_utils::price::Decimal::try_from_price, Decimal::decimal_multiplier_from_precision, u128::pow, u128::checked_mul
//@ bound=EVERY u128 price; token_decimals = 0 with EVERY decimals 0..=20 and EVERY precision 0..=20 (441 triples, enumerated): acceptance <=> truncated value fits u32, multiplier, exact stored value for every representable price where no digit is cut (precision >= decimals); unwind 23
//@ timeout=3600
#[kani::proof]
#[kani::unwind(23)]
fn c26_classify_all_tdec_00() {
    classify_all(0);
}

//@ prop=C26 tier=thorough kind=hold
//@ enc=gmsol_utils::price::Decimal::try_from_price, Decimal::decimal_multiplier_from_precision, u128::pow, u128::checked_mul
//@ bound=EVERY u128 price; token_decimals = 1 with EVERY decimals 0..=20 and EVERY precision 0..=19 (420 triples, enumerated): acceptance <=> truncated value fits u32, multiplier, exact stored value for every representable price where no digit is cut (precision >= decimals); unwind 23
//@ timeout=3600
#[kani::proof]
#[kani::unwind(23)]
fn c26_classify_all_tdec_01() {
    classify_all(1);
}

//@ prop=C26 tier=thorough kind=hold
//@ enc=gmsol_utils::price::Decimal::try_from_price, Decimal::decimal_multiplier_from_precision, u128::pow, u128::checked_mul
//@ bound=EVERY u128 price; token_decimals = 2 with EVERY decimals 0..=20 and EVERY precision 0..=18 (399 triples, enumerated): acceptance <=> truncated value fits u32, multiplier, exact stored value for every representable price where no digit is cut (precision >= decimals); unwind 23
//@ timeout=3600
#[kani::proof]
#[kani::unwind(23)]
fn c26_classify_all_tdec_02() {
    classify_all(2);
}

//@ prop=C26 tier=thorough kind=hold
//@ enc=gmsol_utils::price::Decimal::try_from_price, Decimal::decimal_multiplier_from_precision, u128::pow, u128::checked_mul
//@ bound=EVERY u128 price; token_decimals = 3 with EVERY decimals 0..=20 and EVERY precision 0..=17 (378 triples, enumerated): acceptance <=> truncated value fits u32, multiplier, exact stored value for every representable price where no digit is cut (precision >= decimals); unwind 23
//@ timeout=3600
#[kani::proof]
#[kani::unwind(23)]
fn c26_classify_all_tdec_03() {
    classify_all(3);
}

//@ prop=C26 tier=thorough kind=hold
//@ enc=gmsol_utils::price::Decimal::try_from_price, Decimal::decimal_multiplier_from_precision, u128::pow, u128::checked_mul
//@ bound=EVERY u128 price; token_decimals = 4 with EVERY decimals 0..=20 and EVERY precision 0..=16 (357 triples, enumerated): acceptance <=> truncated value fits u32, multiplier, exact stored value for every representable price where no digit is cut (precision >= decimals); unwind 23
//@ timeout=3600
#[kani::proof]
#[kani::unwind(23)]
fn c26_classify_all_tdec_04() {
    classify_all(4);
}

//@ prop=C26 tier=thorough kind=hold
//@ enc=gmsol_utils::price::Decimal::try_from_price, Decimal::decimal_multiplier_from_precision, u128::pow, u128::checked_mul
//@ bound=EVERY u128 price; token_decimals = 5 with EVERY decimals 0..=20 and EVERY precision 0..=15 (336 triples, enumerated): acceptance <=> truncated value fits u32, multiplier, exact stored value for every representable price where no digit is cut (precision >= decimals); unwind 23
//@ timeout=3600
#[kani::proof]
#[kani::unwind(23)]
fn c26_classify_all_tdec_05() {
    classify_all(5);
}

//@ prop=C26 tier=thorough kind=hold
//@ enc=gmsol_utils::price::Decimal::try_from_price, Decimal::decimal_multiplier_from_precision, u128::pow, u128::checked_mul
//@ bound=EVERY u128 price; token_decimals = 6 with EVERY decimals 0..=20 and EVERY precision 0..=14 (315 triples, enumerated): acceptance <=> truncated value fits u32, multiplier, exact stored value for every representable price where no digit is cut (precision >= decimals); unwind 23
//@ timeout=3600
#[kani::proof]
#[kani::unwind(23)]
fn c26_classify_all_tdec_06() {
    classify_all(6);
}

//@ prop=C26 tier=thorough kind=hold
//@ enc=gmsol_utils::price::Decimal::try_from_price, Decimal::decimal_multiplier_from_precision, u128::pow, u128::checked_mul
//@ bound=EVERY u128 price; token_decimals = 7 with EVERY decimals 0..=20 and EVERY precision 0..=13 (294 triples, enumerated): acceptance <=> truncated value fits u32, multiplier, exact stored value for every representable price where no digit is cut (precision >= decimals); unwind 23
//@ timeout=3600
#[kani::proof]
#[kani::unwind(23)]
fn c26_classify_all_tdec_07() {
    classify_all(7);
}

//@ prop=C26 tier=thorough kind=hold
//@ enc=gmsol_utils::price::Decimal::try_from_price, Decimal::decimal_multiplier_from_precision, u128::pow, u128::checked_mul
//@ bound=EVERY u128 price; token_decimals = 8 with EVERY decimals 0..=20 and EVERY precision 0..=12 (273 triples, enumerated): acceptance <=> truncated value fits u32, multiplier, exact stored value for every representable price where no digit is cut (precision >= decimals); unwind 23
//@ timeout=3600
#[kani::proof]
#[kani::unwind(23)]
fn c26_classify_all_tdec_08() {
    classify_all(8);
}

//@ prop=C26 tier=thorough kind=hold
//@ enc=gmsol_utils::price::Decimal::try_from_price, Decimal::decimal_multiplier_from_precision, u128::pow, u128::checked_mul
//@ bound=EVERY u128 price; token_decimals = 9 with EVERY decimals 0..=20 and EVERY precision 0..=11 (252 triples, enumerated): acceptance <=> truncated value fits u32, multiplier, exact stored value for every representable price where no digit is cut (precision >= decimals); unwind 23
//@ timeout=3600
#[kani::proof]
#[kani::unwind(23)]
fn c26_classify_all_tdec_09() {
    classify_all(9);
}

//@ prop=C26 tier=thorough kind=hold
//@ enc=gmsol_utils::price::Decimal::try_from_price, Decimal::decimal_multiplier_from_precision, u128::pow, u128::checked_mul
//@ bound=EVERY u128 price; token_decimals = 10 with EVERY decimals 0..=20 and EVERY precision 0..=10 (231 triples, enumerated): acceptance <=> truncated value fits u32, multiplier, exact stored value for every representable price where no digit is cut (precision >= decimals); unwind 23
//@ timeout=3600
#[kani::proof]
#[kani::unwind(23)]
fn c26_classify_all_tdec_10() {
    classify_all(10);
}

//@ prop=C26 tier=thorough kind=hold
//@ enc=gmsol_utils::price::Decimal::try_from_price, Decimal::decimal_multiplier_from_precision, u128::pow, u128::checked_mul
//@ bound=EVERY u128 price; token_decimals = 11 with EVERY decimals 0..=20 and EVERY precision 0..=9 (210 triples, enumerated): acceptance <=> truncated value fits u32, multiplier, exact stored value for every representable price where no digit is cut (precision >= decimals); unwind 23
//@ timeout=3600
#[kani::proof]
#[kani::unwind(23)]
fn c26_classify_all_tdec_11() {
    classify_all(11);
}

//@ prop=C26 tier=thorough kind=hold
//@ enc=gmsol_utils::price::Decimal::try_from_price, Decimal::decimal_multiplier_from_precision, u128::pow, u128::checked_mul
//@ bound=EVERY u128 price; token_decimals = 12 with EVERY decimals 0..=20 and EVERY precision 0..=8 (189 triples, enumerated): acceptance <=> truncated value fits u32, multiplier, exact stored value for every representable price where no digit is cut (precision >= decimals); unwind 23
//@ timeout=3600
#[kani::proof]
#[kani::unwind(23)]
fn c26_classify_all_tdec_12() {
    classify_all(12);
}

//@ prop=C26 tier=thorough kind=hold
//@ enc=gmsol_utils::price::Decimal::try_from_price, Decimal::decimal_multiplier_from_precision, u128::pow, u128::checked_mul
//@ bound=EVERY u128 price; token_decimals = 13 with EVERY decimals 0..=20 and EVERY precision 0..=7 (168 triples, enumerated): acceptance <=> truncated value fits u32, multiplier, exact stored value for every representable price where no digit is cut (precision >= decimals); unwind 23
//@ timeout=3600
#[kani::proof]
#[kani::unwind(23)]
fn c26_classify_all_tdec_13() {
    classify_all(13);
}

//@ prop=C26 tier=thorough kind=hold
//@ enc=gmsol_utils::price::Decimal::try_from_price, Decimal::decimal_multiplier_from_precision, u128::pow, u128::checked_mul
//@ bound=EVERY u128 price; token_decimals = 14 with EVERY decimals 0..=20 and EVERY precision 0..=6 (147 triples, enumerated): acceptance <=> truncated value fits u32, multiplier, exact stored value for every representable price where no digit is cut (precision >= decimals); unwind 23
//@ timeout=3600
#[kani::proof]
#[kani::unwind(23)]
fn c26_classify_all_tdec_14() {
    classify_all(14);
}

//@ prop=C26 tier=thorough kind=hold
//@ enc=gmsol_utils::price::Decimal::try_from_price, Decimal::decimal_multiplier_from_precision, u128::pow, u128::checked_mul
//@ bound=EVERY u128 price; token_decimals = 15 with EVERY decimals 0..=20 and EVERY precision 0..=5 (126 triples, enumerated): acceptance <=> truncated value fits u32, multiplier, exact stored value for every representable price where no digit is cut (precision >= decimals); unwind 23
//@ timeout=3600
#[kani::proof]
#[kani::unwind(23)]
fn c26_classify_all_tdec_15() {
    classify_all(15);
}

//@ prop=C26 tier=thorough kind=hold
//@ enc=gmsol_utils::price::Decimal::try_from_price, Decimal::decimal_multiplier_from_precision, u128::pow, u128::checked_mul
//@ bound=EVERY u128 price; token_decimals = 16 with EVERY decimals 0..=20 and EVERY precision 0..=4 (105 triples, enumerated): acceptance <=> truncated value fits u32, multiplier, exact stored value for every representable price where no digit is cut (precision >= decimals); unwind 23
//@ timeout=3600
#[kani::proof]
#[kani::unwind(23)]
fn c26_classify_all_tdec_16() {
    classify_all(16);
}

//@ prop=C26 tier=thorough kind=hold
//@ enc=gmsol_utils::price::Decimal::try_from_price, Decimal::decimal_multiplier_from_precision, u128::pow, u128::checked_mul
//@ bound=EVERY u128 price; token_decimals = 17 with EVERY decimals 0..=20 and EVERY precision 0..=3 (84 triples, enumerated): acceptance <=> truncated value fits u32, multiplier, exact stored value for every representable price where no digit is cut (precision >= decimals); unwind 23
//@ timeout=3600
#[kani::proof]
#[kani::unwind(23)]
fn c26_classify_all_tdec_17() {
    classify_all(17);
}

//@ prop=C26 tier=thorough kind=hold
//@ enc=gmsol_utils::price::Decimal::try_from_price, Decimal::decimal_multiplier_from_precision, u128::pow, u128::checked_mul
//@ bound=EVERY u128 price; token_decimals = 18 with EVERY decimals 0..=20 and EVERY precision 0..=2 (63 triples, enumerated): acceptance <=> truncated value fits u32, multiplier, exact stored value for every representable price where no digit is cut (precision >= decimals); unwind 23
//@ timeout=3600
#[kani::proof]
#[kani::unwind(23)]
fn c26_classify_all_tdec_18() {
    classify_all(18);
}

//@ prop=C26 tier=thorough kind=hold
//@ enc=gmsol_utils::price::Decimal::try_from_price, Decimal::decimal_multiplier_from_precision, u128::pow, u128::checked_mul
//@ bound=EVERY u128 price; token_decimals = 19 with EVERY decimals 0..=20 and EVERY precision 0..=1 (42 triples, enumerated): acceptance <=> truncated value fits u32, multiplier, exact stored value for every representable price where no digit is cut (precision >= decimals); unwind 23
//@ timeout=3600
#[kani::proof]
#[kani::unwind(23)]
fn c26_classify_all_tdec_19() {
    classify_all(19);
}

//@ prop=C26 tier=thorough kind=hold
//@ enc=gmsol_utils::price::Decimal::try_from_price, Decimal::decimal_multiplier_from_precision, u128::pow, u128::checked_mul
//@ bound=EVERY u128 price; token_decimals = 20 with EVERY decimals 0..=20 and EVERY precision 0..=0 (21 triples, enumerated): acceptance <=> truncated value fits u32, multiplier, exact stored value for every representable price where no digit is cut (precision >= decimals); unwind 23
//@ timeout=3600
#[kani::proof]
#[kani::unwind(23)]
fn c26_classify_all_tdec_20() {
    classify_all(20);
}
