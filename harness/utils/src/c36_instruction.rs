use anchor_lang::prelude::Pubkey;
use gmsol_utils::instruction::{
    InstructionAccess, InstructionAccount, InstructionAccountFlagContainer, InstructionError,
};

struct Buf {
    wallet: Option<Pubkey>,
    program: Pubkey,
    data: [u8; 3],
    data_len: usize,
    accounts: [InstructionAccount; 3],
    n: usize,
}

impl InstructionAccess for Buf {
    fn wallet(&self) -> Result<Pubkey, InstructionError> {
        self.wallet.ok_or(InstructionError::FailedToGetWallet)
    }
    fn program_id(&self) -> &Pubkey {
        &self.program
    }
    fn data(&self) -> &[u8] {
        &self.data[..self.data_len]
    }
    fn num_accounts(&self) -> usize {
        self.n
    }
    fn accounts(&self) -> impl Iterator<Item = &InstructionAccount> {
        self.accounts[..self.n].iter()
    }
}

/// Pubkeys drawn from a 1-byte universe (distinct first byte => distinct key).
fn pk(b: u8) -> Pubkey {
    let mut k = [0u8; 32];
    k[0] = b;
    Pubkey::new_from_array(k)
}

//@ prop=C36 tier=experimental kind=hold
//@ enc=InstructionAccess::to_instruction (default method), From<&InstructionAccount> for AccountMeta, InstructionAccountFlagContainer::get_flag
//@ bound=up to 3 accounts with arbitrary flag bytes, keys from a 256-element universe, up to 3 data bytes, wallet present/absent, both values of mark_executor_wallet_as_signer; unwind 34 (32-byte Pubkey memcmp)
#[kani::proof]
#[kani::unwind(34)]
fn c36_to_instruction_is_faithful() {
    let n: usize = kani::any();
    kani::assume(n <= 3);
    let data_len: usize = kani::any();
    kani::assume(data_len <= 3);
    let kb: [u8; 3] = kani::any();
    let fb: [u8; 3] = kani::any();
    let wallet_b: u8 = kani::any();
    let has_wallet: bool = kani::any();
    let acc = |i: usize| InstructionAccount {
        flags: InstructionAccountFlagContainer::from_value(fb[i]),
        pubkey: pk(kb[i]),
    };
    let b = Buf {
        wallet: if has_wallet { Some(pk(wallet_b)) } else { None },
        program: pk(kani::any()),
        data: kani::any(),
        data_len,
        accounts: [acc(0), acc(1), acc(2)],
        n,
    };
    let mark: bool = kani::any();
    match b.to_instruction(mark) {
        Ok(ix) => {
            assert!(has_wallet || !mark);
            assert!(ix.program_id.to_bytes()[0] == b.program.to_bytes()[0], "C36: program id changed");
            assert!(ix.data.len() == data_len, "C36: data length changed");
            let mut i = 0;
            while i < 3 {
                if i < data_len {
                    assert!(ix.data[i] == b.data[i], "C36: data changed");
                }
                i += 1;
            }
            assert!(ix.accounts.len() == n, "C36: account list length changed");
            let mut i = 0;
            while i < 3 {
                if i < n {
                    let m = &ix.accounts[i];
                    assert!(m.pubkey.to_bytes()[0] == kb[i], "C36: account order/key changed");
                    // bit 0 = Signer, bit 1 = Writable
                    let want_signer = (fb[i] & 1 == 1) || (mark && kb[i] == wallet_b);
                    assert!(m.is_signer == want_signer, "C36: signer flag not faithful (only the executor wallet may be upgraded)");
                    assert!(m.is_writable == ((fb[i] >> 1) & 1 == 1), "C36: writable flag not faithful");
                    kani::cover!(mark && kb[i] == wallet_b && fb[i] & 1 == 0, "wallet upgraded to signer");
                }
                i += 1;
            }
            std::mem::forget(ix);
        }
        Err(_) => assert!(mark && !has_wallet, "C36: conversion failed although the wallet is known"),
    }
}
