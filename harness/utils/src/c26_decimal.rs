//! C26, Kani side (2): `find_divisor_decimals` / BOUNDS table, `Decimal::to_unit_price` /
//! `with_unit_price` for every multiplier, and the exponent handling of
//! `pyth_price_value_to_decimal`. The triple-wise `try_from_price` harnesses are in `c26_triples.rs`.
use gmsol_utils::oracle::pyth_price_value_to_decimal;
use gmsol_utils::price::{find_divisor_decimals, Decimal, DecimalError, U192};
use gmsol_utils::token_config::TokenConfig;

use crate::c26_triples::POW10;

/// `u128::MAX * 10^k` as (top 64 bits, low 128 bits), `k <= 19`, computed here independently of the
/// table in the code: `(2^128 - 1) * p = (p - 1) * 2^128 + (2^128 - p)`.
const fn bound(k: u32) -> (u64, u128) {
    let p = 10u128.pow(k);
    ((p - 1) as u64, 0u128.wrapping_sub(p))
}

fn le(a: (u64, u128), b: (u64, u128)) -> bool {
    a.0 < b.0 || (a.0 == b.0 && a.1 <= b.1)
}

//@ prop=C26 tier=quick kind=hold
//@ enc=gmsol_utils::price::find_divisor_decimals, get_power_bounds (the BOUNDS table), <[U192]>::binary_search, ruint::algorithms::cmp
//@ bound=EVERY U192 value; the result k is checked to be the least exponent with n <= u128::MAX * 10^k for all 21 outcomes (bounds recomputed in the harness from 10^k, not read from the table); unwind 8 (binary search over 20 entries, 3-limb comparison)
#[kani::proof]
#[kani::unwind(8)]
fn c26_find_divisor_decimals_exact() {
    let limbs: [u64; 3] = kani::any();
    let n = U192::from_limbs(limbs);
    let v = (limbs[2], ((limbs[1] as u128) << 64) | limbs[0] as u128);
    let k = find_divisor_decimals(&n) as u32;
    assert!(k <= 20, "C26: divisor decimals above 20");
    // least k with n <= u128::MAX * 10^k  (k = 20: above every bound)
    if k < 20 {
        assert!(le(v, bound(k)), "C26: value exceeds u128::MAX * 10^k");
    }
    if k > 0 {
        assert!(!le(v, bound(k - 1)), "C26: a smaller divisor exponent suffices");
    }
    kani::cover!(k == 0, "fits u128");
    kani::cover!(k == 1 && limbs[2] == 9, "top of the 10^1 range");
    kani::cover!(k == 19, "largest in-table exponent");
    kani::cover!(k == 20, "above the whole table");
}

/// `Decimal::to_unit_price` / `with_unit_price` for one concrete multiplier `m` and EVERY u32 value /
/// threshold-classified u128 price.
fn unit_price(m: u8) {
    let step = POW10[m as usize];
    let value: u32 = kani::any();
    let d = Decimal { value, decimal_multiplier: m };
    let up = d.to_unit_price(); // Kani: no overflow for m <= 20
    assert!(up == value as u128 * step, "C26: unit price is not value * 10^multiplier");
    // with_unit_price keeps the multiplier; None exactly when the (rounded) quotient exceeds u32
    let price: u128 = kani::any();
    match d.with_unit_price(price, false) {
        Some(r) => {
            assert!(r.decimal_multiplier == m, "C26: multiplier changed");
            assert!(price < (1u128 << 32) * step, "C26: floor quotient above u32 accepted");
        }
        None => assert!(price >= (1u128 << 32) * step, "C26: representable unit price rejected (floor)"),
    }
    let c = d.with_unit_price(price, true);
    match c {
        Some(r) => {
            assert!(r.decimal_multiplier == m, "C26: multiplier changed");
            assert!(price <= (u32::MAX as u128) * step, "C26: ceil quotient above u32 accepted");
        }
        None => assert!(price > (u32::MAX as u128) * step, "C26: representable unit price rejected (ceil)"),
    }
    kani::cover!(c.is_some() && price > 0, "unit price accepted");
    kani::cover!(c.is_none(), "unit price above the u32 range rejected");
}

/// Window exactness of `with_unit_price` for a concrete quotient `v` and EVERY remainder.
fn unit_price_window(m: u8, v: u32) {
    let step = POW10[m as usize];
    let d = Decimal { value: 0, decimal_multiplier: m };
    let price: u128 = kani::any();
    kani::assume(price >= v as u128 * step && price - v as u128 * step < step);
    // floor: v for the whole window
    assert!(d.with_unit_price(price, false) == Some(Decimal { value: v, decimal_multiplier: m }), "C26: floor is not the truncation");
    // ceil: v at the left end, v + 1 inside (None when v + 1 does not fit)
    let c = d.with_unit_price(price, true);
    if price == v as u128 * step {
        assert!(c == Some(Decimal { value: v, decimal_multiplier: m }), "C26: ceil of an exact multiple changed it");
    } else if v < u32::MAX {
        assert!(c == Some(Decimal { value: v + 1, decimal_multiplier: m }), "C26: ceil is not the next step");
    } else {
        assert!(c.is_none(), "C26: ceil above u32 accepted");
    }
    kani::cover!(price == v as u128 * step, "left end of the window (exact multiple)");
    kani::cover!(price - v as u128 * step == step - 1, "right end of the window (largest remainder)");
}

//@ prop=C26 tier=quick kind=hold
//@ enc=gmsol_utils::price::Decimal::{to_unit_price, with_unit_price, multiplier}, u128::pow, u128::div_ceil
//@ bound=multipliers {0, 1, 8} (the remaining ones up to 20 are in the thorough tier), EVERY u32 value, EVERY u128 price for the Some/None classification of with_unit_price (floor and ceil); unwind 7
#[kani::proof]
#[kani::unwind(7)]
fn c26_unit_price_multipliers_quick() {
    unit_price(0);
    unit_price(1);
    unit_price(8);
}

//@ prop=C26 tier=thorough kind=hold
//@ enc=gmsol_utils::price::Decimal::{to_unit_price, with_unit_price, multiplier}, u128::pow, u128::div_ceil
//@ bound=multiplier 2, EVERY u32 value, EVERY u128 price for the Some/None classification of with_unit_price (floor and ceil); unwind 7 (measured: 10 s at multiplier 8, 520 s at multiplier 20)
//@ timeout=2400
#[kani::proof]
#[kani::unwind(7)]
fn c26_unit_price_multiplier_02() {
    unit_price(2);
}

//@ prop=C26 tier=thorough kind=hold
//@ enc=gmsol_utils::price::Decimal::{to_unit_price, with_unit_price, multiplier}, u128::pow, u128::div_ceil
//@ bound=multiplier 3, EVERY u32 value, EVERY u128 price for the Some/None classification of with_unit_price (floor and ceil); unwind 7 (measured: 10 s at multiplier 8, 520 s at multiplier 20)
//@ timeout=2400
#[kani::proof]
#[kani::unwind(7)]
fn c26_unit_price_multiplier_03() {
    unit_price(3);
}

//@ prop=C26 tier=thorough kind=hold
//@ enc=gmsol_utils::price::Decimal::{to_unit_price, with_unit_price, multiplier}, u128::pow, u128::div_ceil
//@ bound=multiplier 4, EVERY u32 value, EVERY u128 price for the Some/None classification of with_unit_price (floor and ceil); unwind 7 (measured: 10 s at multiplier 8, 520 s at multiplier 20)
//@ timeout=2400
#[kani::proof]
#[kani::unwind(7)]
fn c26_unit_price_multiplier_04() {
    unit_price(4);
}

//@ prop=C26 tier=thorough kind=hold
//@ enc=gmsol_utils::price::Decimal::{to_unit_price, with_unit_price, multiplier}, u128::pow, u128::div_ceil
//@ bound=multiplier 5, EVERY u32 value, EVERY u128 price for the Some/None classification of with_unit_price (floor and ceil); unwind 7 (measured: 10 s at multiplier 8, 520 s at multiplier 20)
//@ timeout=2400
#[kani::proof]
#[kani::unwind(7)]
fn c26_unit_price_multiplier_05() {
    unit_price(5);
}

//@ prop=C26 tier=thorough kind=hold
//@ enc=gmsol_utils::price::Decimal::{to_unit_price, with_unit_price, multiplier}, u128::pow, u128::div_ceil
//@ bound=multiplier 6, EVERY u32 value, EVERY u128 price for the Some/None classification of with_unit_price (floor and ceil); unwind 7 (measured: 10 s at multiplier 8, 520 s at multiplier 20)
//@ timeout=2400
#[kani::proof]
#[kani::unwind(7)]
fn c26_unit_price_multiplier_06() {
    unit_price(6);
}

//@ prop=C26 tier=thorough kind=hold
//@ enc=gmsol_utils::price::Decimal::{to_unit_price, with_unit_price, multiplier}, u128::pow, u128::div_ceil
//@ bound=multiplier 7, EVERY u32 value, EVERY u128 price for the Some/None classification of with_unit_price (floor and ceil); unwind 7 (measured: 10 s at multiplier 8, 520 s at multiplier 20)
//@ timeout=2400
#[kani::proof]
#[kani::unwind(7)]
fn c26_unit_price_multiplier_07() {
    unit_price(7);
}

//@ prop=C26 tier=thorough kind=hold
//@ enc=gmsol_utils::price::Decimal::{to_unit_price, with_unit_price, multiplier}, u128::pow, u128::div_ceil
//@ bound=multiplier 9, EVERY u32 value, EVERY u128 price for the Some/None classification of with_unit_price (floor and ceil); unwind 7 (measured: 10 s at multiplier 8, 520 s at multiplier 20)
//@ timeout=2400
#[kani::proof]
#[kani::unwind(7)]
fn c26_unit_price_multiplier_09() {
    unit_price(9);
}

//@ prop=C26 tier=thorough kind=hold
//@ enc=gmsol_utils::price::Decimal::{to_unit_price, with_unit_price, multiplier}, u128::pow, u128::div_ceil
//@ bound=multiplier 10, EVERY u32 value, EVERY u128 price for the Some/None classification of with_unit_price (floor and ceil); unwind 7 (measured: 10 s at multiplier 8, 520 s at multiplier 20)
//@ timeout=2400
#[kani::proof]
#[kani::unwind(7)]
fn c26_unit_price_multiplier_10() {
    unit_price(10);
}

//@ prop=C26 tier=thorough kind=hold
//@ enc=gmsol_utils::price::Decimal::{to_unit_price, with_unit_price, multiplier}, u128::pow, u128::div_ceil
//@ bound=multiplier 11, EVERY u32 value, EVERY u128 price for the Some/None classification of with_unit_price (floor and ceil); unwind 7 (measured: 10 s at multiplier 8, 520 s at multiplier 20)
//@ timeout=2400
#[kani::proof]
#[kani::unwind(7)]
fn c26_unit_price_multiplier_11() {
    unit_price(11);
}

//@ prop=C26 tier=thorough kind=hold
//@ enc=gmsol_utils::price::Decimal::{to_unit_price, with_unit_price, multiplier}, u128::pow, u128::div_ceil
//@ bound=multiplier 12, EVERY u32 value, EVERY u128 price for the Some/None classification of with_unit_price (floor and ceil); unwind 7 (measured: 10 s at multiplier 8, 520 s at multiplier 20)
//@ timeout=2400
#[kani::proof]
#[kani::unwind(7)]
fn c26_unit_price_multiplier_12() {
    unit_price(12);
}

//@ prop=C26 tier=thorough kind=hold
//@ enc=gmsol_utils::price::Decimal::{to_unit_price, with_unit_price, multiplier}, u128::pow, u128::div_ceil
//@ bound=multiplier 13, EVERY u32 value, EVERY u128 price for the Some/None classification of with_unit_price (floor and ceil); unwind 7 (measured: 10 s at multiplier 8, 520 s at multiplier 20)
//@ timeout=2400
#[kani::proof]
#[kani::unwind(7)]
fn c26_unit_price_multiplier_13() {
    unit_price(13);
}

//@ prop=C26 tier=thorough kind=hold
//@ enc=gmsol_utils::price::Decimal::{to_unit_price, with_unit_price, multiplier}, u128::pow, u128::div_ceil
//@ bound=multiplier 14, EVERY u32 value, EVERY u128 price for the Some/None classification of with_unit_price (floor and ceil); unwind 7 (measured: 10 s at multiplier 8, 520 s at multiplier 20)
//@ timeout=2400
#[kani::proof]
#[kani::unwind(7)]
fn c26_unit_price_multiplier_14() {
    unit_price(14);
}

//@ prop=C26 tier=thorough kind=hold
//@ enc=gmsol_utils::price::Decimal::{to_unit_price, with_unit_price, multiplier}, u128::pow, u128::div_ceil
//@ bound=multiplier 15, EVERY u32 value, EVERY u128 price for the Some/None classification of with_unit_price (floor and ceil); unwind 7 (measured: 10 s at multiplier 8, 520 s at multiplier 20)
//@ timeout=2400
#[kani::proof]
#[kani::unwind(7)]
fn c26_unit_price_multiplier_15() {
    unit_price(15);
}

//@ prop=C26 tier=thorough kind=hold
//@ enc=gmsol_utils::price::Decimal::{to_unit_price, with_unit_price, multiplier}, u128::pow, u128::div_ceil
//@ bound=multiplier 16, EVERY u32 value, EVERY u128 price for the Some/None classification of with_unit_price (floor and ceil); unwind 7 (measured: 10 s at multiplier 8, 520 s at multiplier 20)
//@ timeout=2400
#[kani::proof]
#[kani::unwind(7)]
fn c26_unit_price_multiplier_16() {
    unit_price(16);
}

//@ prop=C26 tier=thorough kind=hold
//@ enc=gmsol_utils::price::Decimal::{to_unit_price, with_unit_price, multiplier}, u128::pow, u128::div_ceil
//@ bound=multiplier 17, EVERY u32 value, EVERY u128 price for the Some/None classification of with_unit_price (floor and ceil); unwind 7 (measured: 10 s at multiplier 8, 520 s at multiplier 20)
//@ timeout=2400
#[kani::proof]
#[kani::unwind(7)]
fn c26_unit_price_multiplier_17() {
    unit_price(17);
}

//@ prop=C26 tier=thorough kind=hold
//@ enc=gmsol_utils::price::Decimal::{to_unit_price, with_unit_price, multiplier}, u128::pow, u128::div_ceil
//@ bound=multiplier 18, EVERY u32 value, EVERY u128 price for the Some/None classification of with_unit_price (floor and ceil); unwind 7 (measured: 10 s at multiplier 8, 520 s at multiplier 20)
//@ timeout=2400
#[kani::proof]
#[kani::unwind(7)]
fn c26_unit_price_multiplier_18() {
    unit_price(18);
}

//@ prop=C26 tier=thorough kind=hold
//@ enc=gmsol_utils::price::Decimal::{to_unit_price, with_unit_price, multiplier}, u128::pow, u128::div_ceil
//@ bound=multiplier 19, EVERY u32 value, EVERY u128 price for the Some/None classification of with_unit_price (floor and ceil); unwind 7 (measured: 10 s at multiplier 8, 520 s at multiplier 20)
//@ timeout=2400
#[kani::proof]
#[kani::unwind(7)]
fn c26_unit_price_multiplier_19() {
    unit_price(19);
}

//@ prop=C26 tier=thorough kind=hold
//@ enc=gmsol_utils::price::Decimal::{to_unit_price, with_unit_price, multiplier}, u128::pow, u128::div_ceil
//@ bound=multiplier 20, EVERY u32 value, EVERY u128 price for the Some/None classification of with_unit_price (floor and ceil); unwind 7 (measured: 10 s at multiplier 8, 520 s at multiplier 20)
//@ timeout=2400
#[kani::proof]
#[kani::unwind(7)]
fn c26_unit_price_multiplier_20() {
    unit_price(20);
}

//@ prop=C26 tier=quick kind=hold
//@ enc=gmsol_utils::price::Decimal::with_unit_price (floor and ceil), u128::div_ceil
//@ bound=multiplier 1; quotients v in {0,1,4999,2^32-2,2^32-1}; EVERY price in [v*10^m, (v+1)*10^m): floor = v, ceil = v at the left end and v+1 inside (None above u32); unwind 7
#[kani::proof]
#[kani::unwind(7)]
fn c26_with_unit_price_windows_m01() {
    unit_price_window(1, 0);
    unit_price_window(1, 1);
    unit_price_window(1, 4_999);
    unit_price_window(1, u32::MAX - 1);
    unit_price_window(1, u32::MAX);
}

//@ prop=C26 tier=quick kind=hold
//@ enc=gmsol_utils::price::Decimal::with_unit_price (floor and ceil), u128::div_ceil
//@ bound=multiplier 8; quotients v in {0,1,4999,2^32-2,2^32-1}; EVERY price in [v*10^m, (v+1)*10^m): floor = v, ceil = v at the left end and v+1 inside (None above u32); unwind 7
#[kani::proof]
#[kani::unwind(7)]
fn c26_with_unit_price_windows_m08() {
    unit_price_window(8, 0);
    unit_price_window(8, 1);
    unit_price_window(8, 4_999);
    unit_price_window(8, u32::MAX - 1);
    unit_price_window(8, u32::MAX);
}

//@ prop=C26 tier=quick kind=hold
//@ enc=gmsol_utils::price::Decimal::with_unit_price (floor and ceil), u128::div_ceil
//@ bound=multiplier 20; quotients v in {0,1,4999,2^32-2,2^32-1}; EVERY price in [v*10^m, (v+1)*10^m): floor = v, ceil = v at the left end and v+1 inside (None above u32); unwind 7
#[kani::proof]
#[kani::unwind(7)]
fn c26_with_unit_price_windows_m20() {
    unit_price_window(20, 0);
    unit_price_window(20, 1);
    unit_price_window(20, 4_999);
    unit_price_window(20, u32::MAX - 1);
    unit_price_window(20, u32::MAX);
}

// ---- pyth exponent handling -----------------------------------------------------------------

static mut SEEN: Option<(u128, u8, u8, u8)> = None;
static mut ANSWER_OK: bool = false;

/// Recording replacement of `Decimal::try_from_price` (its own contract is decided by the other C26
/// harnesses): remembers the arguments and answers Ok/Err as drawn by the harness.
fn try_from_price_probe(price: u128, decimals: u8, token_decimals: u8, precision: u8) -> Result<Decimal, DecimalError> {
    unsafe {
        SEEN = Some((price, decimals, token_decimals, precision));
        if ANSWER_OK {
            Ok(Decimal { value: 7, decimal_multiplier: 3 })
        } else {
            Err(DecimalError::Overflow)
        }
    }
}

fn token_config(tdec: u8, prec: u8) -> TokenConfig {
    let mut c: TokenConfig = bytemuck::Zeroable::zeroed();
    c.token_decimals = tdec;
    c.precision = prec;
    c
}

fn pyth_exponent(exponent: i32) -> (bool, bool) {
    let value: u64 = kani::any();
    let (tdec, prec): (u8, u8) = (kani::any(), kani::any());
    let ok: bool = kani::any();
    unsafe {
        SEEN = None;
        ANSWER_OK = ok;
    }
    let cfg = token_config(tdec, prec);
    let r = pyth_price_value_to_decimal(value, exponent, &cfg);
    let seen = unsafe { SEEN };
    // actual price = value * 10^exponent. What must reach try_from_price:
    //   exponent <= 0: (value, decimals = -exponent) if -exponent fits u8, else Err without a call
    //   exponent  > 0: (value * 10^exponent, decimals = 0) if that fits u64, else Err without a call
    let expect: Option<(u128, u8)> = if exponent <= 0 {
        let e = -(exponent as i64);
        if e <= 255 { Some((value as u128, e as u8)) } else { None }
    } else if exponent <= 19 {
        let p = value as u128 * POW10[exponent as usize];
        if p <= u64::MAX as u128 { Some((p, 0)) } else { None }
    } else {
        None
    };
    match expect {
        Some((p, dec)) => {
            assert!(seen == Some((p, dec, tdec, prec)), "C26: wrong price / decimals / token settings handed to try_from_price");
            assert!(r.is_ok() == ok, "C26: result of try_from_price not propagated");
            if let Ok(d) = &r {
                assert!(d.value == 7 && d.decimal_multiplier == 3, "C26: converted decimal altered");
            }
        }
        None => {
            assert!(seen.is_none() && r.is_err(), "C26: unrepresentable exponent / overflowing price not reported as an error");
        }
    }
    let w = (expect.is_some() && r.is_ok(), expect.is_none());
    std::mem::forget(r);
    w
}

//@ prop=C26 tier=quick kind=hold
//@ enc=gmsol_utils::oracle::pyth_price_value_to_decimal, u64::checked_pow, u64::checked_mul, TokenConfig::{token_decimals, precision}
//@ bound=EVERY u64 value, EVERY u8 token_decimals / precision, EVERY i32 exponent <= 0 except i32::MIN (see c26_pyth_exponent_min) and EVERY exponent >= 20 (symbolic); unwind 34 (u64::checked_pow on a u32 exponent)
//@ stubs=Decimal::try_from_price replaced by a recording probe (arguments compared with the exact expectation; its own contract is decided by the other C26 harnesses / mir2smt)
#[kani::proof]
#[kani::stub(gmsol_utils::price::decimal::Decimal::try_from_price, try_from_price_probe)]
#[kani::unwind(34)]
fn c26_pyth_exponent_non_positive_or_too_big() {
    let exponent: i32 = kani::any();
    kani::assume(exponent != i32::MIN && (exponent <= 0 || exponent >= 20));
    let w = pyth_exponent(exponent);
    kani::cover!(w.0, "price handed over and converted");
    kani::cover!(exponent == -255, "smallest exponent whose negation fits u8");
    kani::cover!(exponent == -256, "exponent too small");
    kani::cover!(exponent == 0, "zero exponent");
    kani::cover!(exponent == 20, "exponent too big");
    kani::cover!(exponent == i32::MAX, "largest exponent");
}

//@ prop=C26 tier=quick kind=hold
//@ enc=gmsol_utils::oracle::pyth_price_value_to_decimal, u64::checked_pow, u64::checked_mul
//@ bound=EVERY u64 value and token settings; positive exponents {1,8,19} (enumerated, so the power of ten is a constant); the remaining exponents 2..=18 are in the thorough tier; unwind 34
//@ stubs=Decimal::try_from_price replaced by the recording probe
#[kani::proof]
#[kani::stub(gmsol_utils::price::decimal::Decimal::try_from_price, try_from_price_probe)]
#[kani::unwind(34)]
fn c26_pyth_exponent_positive() {
    let mut ok = false;
    let mut rejected = false;
    let w = pyth_exponent(1);
    ok |= w.0;
    rejected |= w.1;
    let w = pyth_exponent(8);
    ok |= w.0;
    rejected |= w.1;
    let w = pyth_exponent(19);
    ok |= w.0;
    rejected |= w.1;
    kani::cover!(ok, "price handed over and converted");
    kani::cover!(rejected, "price overflowing u64 rejected");
}

//@ prop=C26 tier=thorough kind=hold
//@ enc=gmsol_utils::oracle::pyth_price_value_to_decimal, u64::checked_pow, u64::checked_mul
//@ bound=EVERY u64 value and token settings; positive exponents {2,3,4,5,6,7} (enumerated, so the power of ten is a constant); unwind 34
//@ stubs=Decimal::try_from_price replaced by the recording probe
//@ timeout=1800
#[kani::proof]
#[kani::stub(gmsol_utils::price::decimal::Decimal::try_from_price, try_from_price_probe)]
#[kani::unwind(34)]
fn c26_pyth_exponent_positive_02_07() {
    let mut ok = false;
    let mut rejected = false;
    let w = pyth_exponent(2);
    ok |= w.0;
    rejected |= w.1;
    let w = pyth_exponent(3);
    ok |= w.0;
    rejected |= w.1;
    let w = pyth_exponent(4);
    ok |= w.0;
    rejected |= w.1;
    let w = pyth_exponent(5);
    ok |= w.0;
    rejected |= w.1;
    let w = pyth_exponent(6);
    ok |= w.0;
    rejected |= w.1;
    let w = pyth_exponent(7);
    ok |= w.0;
    rejected |= w.1;
    kani::cover!(ok, "price handed over and converted");
    kani::cover!(rejected, "price overflowing u64 rejected");
}

//@ prop=C26 tier=thorough kind=hold
//@ enc=gmsol_utils::oracle::pyth_price_value_to_decimal, u64::checked_pow, u64::checked_mul
//@ bound=EVERY u64 value and token settings; positive exponents {9,10,11,12,13} (enumerated, so the power of ten is a constant); unwind 34
//@ stubs=Decimal::try_from_price replaced by the recording probe
//@ timeout=1800
#[kani::proof]
#[kani::stub(gmsol_utils::price::decimal::Decimal::try_from_price, try_from_price_probe)]
#[kani::unwind(34)]
fn c26_pyth_exponent_positive_09_13() {
    let mut ok = false;
    let mut rejected = false;
    let w = pyth_exponent(9);
    ok |= w.0;
    rejected |= w.1;
    let w = pyth_exponent(10);
    ok |= w.0;
    rejected |= w.1;
    let w = pyth_exponent(11);
    ok |= w.0;
    rejected |= w.1;
    let w = pyth_exponent(12);
    ok |= w.0;
    rejected |= w.1;
    let w = pyth_exponent(13);
    ok |= w.0;
    rejected |= w.1;
    kani::cover!(ok, "price handed over and converted");
    kani::cover!(rejected, "price overflowing u64 rejected");
}

//@ prop=C26 tier=thorough kind=hold
//@ enc=gmsol_utils::oracle::pyth_price_value_to_decimal, u64::checked_pow, u64::checked_mul
//@ bound=EVERY u64 value and token settings; positive exponents {14,15,16,17,18} (enumerated, so the power of ten is a constant); unwind 34
//@ stubs=Decimal::try_from_price replaced by the recording probe
//@ timeout=1800
#[kani::proof]
#[kani::stub(gmsol_utils::price::decimal::Decimal::try_from_price, try_from_price_probe)]
#[kani::unwind(34)]
fn c26_pyth_exponent_positive_14_18() {
    let mut ok = false;
    let mut rejected = false;
    let w = pyth_exponent(14);
    ok |= w.0;
    rejected |= w.1;
    let w = pyth_exponent(15);
    ok |= w.0;
    rejected |= w.1;
    let w = pyth_exponent(16);
    ok |= w.0;
    rejected |= w.1;
    let w = pyth_exponent(17);
    ok |= w.0;
    rejected |= w.1;
    let w = pyth_exponent(18);
    ok |= w.0;
    rejected |= w.1;
    kani::cover!(ok, "price handed over and converted");
    kani::cover!(rejected, "price overflowing u64 rejected");
}

//@ prop=C26 tier=quick kind=hold
//@ enc=gmsol_utils::oracle::pyth_price_value_to_decimal
//@ bound=exponent = i32::MIN, EVERY u64 value and token settings: must be an error, not a panic (`-exponent` overflows i32; the workspace release profile has overflow-checks = true)
//@ stubs=Decimal::try_from_price replaced by the recording probe
#[kani::proof]
#[kani::stub(gmsol_utils::price::decimal::Decimal::try_from_price, try_from_price_probe)]
#[kani::unwind(34)]
fn c26_pyth_exponent_min() {
    let w = pyth_exponent(i32::MIN);
    kani::cover!(w.1, "exponent i32::MIN reported as an error");
}
