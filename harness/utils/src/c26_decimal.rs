use gmsol_utils::price::{find_divisor_decimals, Decimal, U192};

const POW10: [u128; 21] = [
    1, 10, 100, 1_000, 10_000, 100_000, 1_000_000, 10_000_000, 100_000_000, 1_000_000_000,
    10_000_000_000, 100_000_000_000, 1_000_000_000_000, 10_000_000_000_000, 100_000_000_000_000,
    1_000_000_000_000_000, 10_000_000_000_000_000, 100_000_000_000_000_000,
    1_000_000_000_000_000_000, 10_000_000_000_000_000_000, 100_000_000_000_000_000_000,
];

//@ prop=C26 tier=experimental kind=hold
//@ enc=Decimal::try_from_price, Decimal::decimal_multiplier_from_precision, u128::pow, Decimal::to_unit_price
//@ bound=price < 2^24, every (decimals, token_decimals, precision) in 0..=255 each (valid and invalid triples); exact value = floor(price*10^precision/10^decimals) computed from a constant power table; unwind 7 (u128::pow square-and-multiply on exponents <= 40)
#[kani::proof]
#[kani::unwind(7)]
fn c26_try_from_price_small() {
    let price: u32 = kani::any();
    kani::assume(price < (1 << 24));
    let (d, t, p): (u8, u8, u8) = (kani::any(), kani::any(), kani::any());
    let r = Decimal::try_from_price(price as u128, d, t, p);
    let valid = d <= 20 && t <= 20 && p <= 20 && (t as u16 + p as u16) <= 20;
    match r {
        Ok(dec) => {
            assert!(valid, "C26: unsupported decimal settings accepted");
            assert!(dec.decimal_multiplier == 20 - t - p, "C26: wrong decimal multiplier");
            // exact: value = floor(price * 10^p / 10^d); price*10^p < 2^24 * 10^20 < 2^91
            let exact = price as u128 * POW10[p as usize] / POW10[d as usize];
            assert!(dec.value as u128 == exact, "C26: stored value is not the exact truncation");
            // unit price never exceeds the exact unit price and is off by less than one step
            let step = POW10[dec.decimal_multiplier as usize];
            assert!(dec.to_unit_price() == exact * step);
            kani::cover!(exact > 0 && d > p, "truncating conversion");
        }
        Err(_) => {
            if valid {
                let exact = price as u128 * POW10[p as usize] / POW10[d as usize];
                // with price < 2^24 no u128 intermediate can overflow (price*10^20*10^20 < 2^157 can!):
                // the code multiplies by 10^(t-d) and then by 10^(p-t) when t <= p; both products stay
                // below 2^24*10^20 < 2^128 because the exponents add up to p-d <= 20.
                assert!(exact > u32::MAX as u128, "C26: representable price rejected");
            }
            kani::cover!(valid, "valid settings, unrepresentable price");
        }
    }
}

//@ prop=C26 tier=quick kind=hold
//@ enc=gmsol_utils::price::find_divisor_decimals, get_power_bounds
//@ bound=every U192 value; unwind 8 (binary search over 20 bounds)
#[kani::proof]
#[kani::unwind(8)]
fn c26_find_divisor_decimals() {
    let limbs: [u64; 3] = kani::any();
    let n = U192::from_limbs(limbs);
    let k = find_divisor_decimals(&n);
    assert!(k <= 20);
    // k is the least exponent with n <= u128::MAX * 10^k  <=>  limb-wise comparison against bounds
    // Equivalent check without 192-bit multiplication: k == 0 <=> n fits u128.
    assert!((k == 0) == (limbs[2] == 0), "C26: divisor decimals zero iff the value fits 128 bits");
    // monotone in n: a bigger top limb never needs fewer decimals
    let limbs2: [u64; 3] = kani::any();
    kani::assume(limbs2[2] > limbs[2]);
    let k2 = find_divisor_decimals(&U192::from_limbs(limbs2));
    assert!(k2 >= k, "C26: divisor decimals not monotone");
    kani::cover!(k == 20, "maximum divisor");
}
