use bytemuck::Zeroable;

fn id2(k: &[u8; 2]) -> [u8; 2] {
    *k
}

// The macro *is* the code under test: instantiate it at a small capacity.
// Entry = key [u8;2] + value u16 (4 bytes), 3 entries, no padding, count u32 => 16 bytes.
gmsol_utils::fixed_map!(Map3, 2, [u8; 2], id2, u16, 3, 0);
const N3: usize = 3;

type Img3 = [u8; 16];

fn key_at(img: &Img3, i: usize) -> [u8; 2] {
    [img[4 * i], img[4 * i + 1]]
}
fn val_at(img: &Img3, i: usize) -> u16 {
    u16::from_le_bytes([img[4 * i + 2], img[4 * i + 3]])
}
fn count_of(img: &Img3) -> u32 {
    u32::from_le_bytes([img[12], img[13], img[14], img[15]])
}

/// Representation invariant: count <= N, keys strictly ascending in the prefix, default tail.
fn inv(img: &Img3) -> bool {
    let c = count_of(img) as usize;
    if c > N3 {
        return false;
    }
    let mut i = 0;
    while i < N3 {
        if i + 1 < c && !(key_at(img, i) < key_at(img, i + 1)) {
            return false;
        }
        if i >= c && (key_at(img, i) != [0, 0] || val_at(img, i) != 0) {
            return false;
        }
        i += 1;
    }
    true
}

/// Reference lookup: linear scan.
fn ref_get(img: &Img3, k: [u8; 2]) -> Option<u16> {
    let c = count_of(img) as usize;
    let mut i = 0;
    let mut out = None;
    while i < N3 {
        if i < c && key_at(img, i) == k {
            out = Some(val_at(img, i));
        }
        i += 1;
    }
    out
}

fn any_map() -> (Img3, Map3) {
    let img: Img3 = kani::any();
    kani::assume(inv(&img));
    (img, bytemuck::pod_read_unaligned(&img))
}

/// Byte-image equality without a 16-iteration memcmp loop.
fn same(a: &Img3, b: &Img3) -> bool {
    u128::from_le_bytes(*a) == u128::from_le_bytes(*b)
}

fn img_of(m: &Map3) -> Img3 {
    bytemuck::cast(*m)
}

//@ prop=C34 tier=quick kind=hold
//@ enc=fixed_map!::{insert_with_options, binary_search, get, len} instantiated as Map3 (2-byte keys, u16 values, capacity 3)
//@ bound=one inductive step from every invariant-satisfying 16-byte map image (count 0..=3), every key, value, `new` flag, every probe key; unwind 6 with unwinding assertions
#[kani::proof]
#[kani::unwind(6)]
fn c34_insert_step() {
    let (pre, mut m) = any_map();
    let k: [u8; 2] = kani::any();
    let v: u16 = kani::any();
    let new: bool = kani::any();
    let p: [u8; 2] = kani::any();
    let old_k = ref_get(&pre, k);
    let old_p = ref_get(&pre, p);
    let full = count_of(&pre) as usize == N3;

    let res = m.insert_with_options(&k, v, new);
    let post = img_of(&m);
    assert!(inv(&post), "C34: insert breaks the sorted-prefix invariant");
    match res {
        Ok(prev) => {
            kani::cover!(prev.is_none() && count_of(&pre) == 2, "insert new key into 2-entry map");
            kani::cover!(prev.is_some(), "replace");
            assert!(prev == old_k, "C34: insert returns wrong previous value");
            assert!(!(new && old_k.is_some()), "C34: `new` insert replaced an existing key");
            assert!(old_k.is_some() || !full, "C34: insert of a new key into a full map succeeded");
            let want_count = count_of(&pre) + if old_k.is_none() { 1 } else { 0 };
            assert!(count_of(&post) == want_count, "C34: wrong count after insert");
            let got_p = m.get(&p).copied();
            let want_p = if p == k { Some(v) } else { old_p };
            assert!(got_p == want_p, "C34: map differs from reference after insert");
        }
        Err(_) => {
            kani::cover!(full, "insert into full map rejected");
            assert!((new && old_k.is_some()) || (old_k.is_none() && full), "C34: insert failed although there was room");
            assert!(same(&post, &pre), "C34: failed insert changed the map");
        }
    }
}

//@ prop=C34 tier=quick kind=hold
//@ enc=fixed_map!::{remove, binary_search, get, get_mut, len, is_empty} instantiated as Map3
//@ bound=one inductive step from every invariant-satisfying map image, every key, every probe key; unwind 6
#[kani::proof]
#[kani::unwind(6)]
fn c34_remove_get_step() {
    let (pre, mut m) = any_map();
    let k: [u8; 2] = kani::any();
    let p: [u8; 2] = kani::any();
    let old_k = ref_get(&pre, k);
    let old_p = ref_get(&pre, p);
    // lookups agree with the reference and do not modify
    assert!(m.get(&p).copied() == old_p, "C34: get differs from reference");
    assert!(m.get_mut(&p).map(|v| *v) == old_p, "C34: get_mut differs from reference");
    assert!(m.is_empty() == (count_of(&pre) == 0));
    assert!(same(&img_of(&m), &pre), "C34: lookup modified the map");

    let res = m.remove(&k);
    let post = img_of(&m);
    kani::cover!(res.is_some() && count_of(&pre) == 3, "remove from full map");
    kani::cover!(res.is_none(), "remove absent");
    assert!(res == old_k, "C34: remove returns wrong value");
    assert!(inv(&post), "C34: remove breaks the invariant");
    assert!(count_of(&post) == count_of(&pre) - if old_k.is_some() { 1 } else { 0 });
    let want_p = if p == k { None } else { old_p };
    assert!(m.get(&p).copied() == want_p, "C34: map differs from reference after remove");
    if old_k.is_none() {
        assert!(same(&post, &pre), "C34: removing an absent key changed the map");
    }
}

//@ prop=C34 tier=quick kind=hold
//@ enc=fixed_map!::{clear, entries, get_entry_by_index, Default} instantiated as Map3
//@ bound=every invariant-satisfying map image; unwind 6
#[kani::proof]
#[kani::unwind(6)]
fn c34_clear_entries_default() {
    let (pre, mut m) = any_map();
    // entries() enumerates exactly the prefix in order
    let mut n = 0usize;
    for (key, value) in m.entries() {
        assert!(*key == key_at(&pre, n) && *value == val_at(&pre, n));
        n += 1;
    }
    assert!(n == count_of(&pre) as usize, "C34: entries() length differs from count");
    let idx: usize = kani::any();
    match m.get_entry_by_index(idx) {
        Some((key, value)) => {
            assert!(idx < n && *key == key_at(&pre, idx) && *value == val_at(&pre, idx))
        }
        None => assert!(idx >= n),
    }
    m.clear();
    kani::cover!(count_of(&pre) == 3, "clear full map");
    assert!(u128::from_le_bytes(img_of(&m)) == 0, "C34: clear leaves residue");
    assert!(u128::from_le_bytes(img_of(&Map3::default())) == 0);
}
