use gmsol_utils::fixed_str::{bytes_to_fixed_str, fixed_str_to_bytes};

/// Symbolic UTF-8 string of length <= CAP stored in `buf`.
fn any_str<const CAP: usize>(buf: &[u8; CAP]) -> Option<&str> {
    let len: usize = kani::any();
    kani::assume(len <= CAP);
    std::str::from_utf8(&buf[..len]).ok()
}

fn roundtrip<const N: usize, const CAP: usize>() {
    let buf: [u8; CAP] = kani::any();
    let Some(s) = any_str::<CAP>(&buf) else { return };
    match fixed_str_to_bytes::<N>(s) {
        Ok(stored) => {
            kani::cover!(s.len() == N, "accepted name fills the buffer");
            kani::cover!(s.len() > 0 && s.len() < N, "accepted shorter name");
            let back = bytes_to_fixed_str::<N>(&stored);
            // Accepted => reads back unchanged.
            match back {
                Ok(r) => {
                    assert!(r.len() == s.len(), "C35: accepted name reads back with another length");
                    let (rb, sb) = (r.as_bytes(), s.as_bytes());
                    let mut i = 0;
                    while i < sb.len() {
                        assert!(rb[i] == sb[i], "C35: accepted name reads back with other bytes");
                        i += 1;
                    }
                }
                Err(_) => panic!("C35: accepted name cannot be read back"),
            }
        }
        Err(_) => {
            kani::cover!(true, "rejected name");
            // Rejection is only allowed for names that cannot be stored; anything up to N
            // bytes without NUL must be accepted (otherwise `reject everything` passes).
            let has_nul = s.as_bytes().iter().any(|b| *b == 0);
            assert!(s.len() > N || has_nul, "C35: storable name rejected");
        }
    }
}

//@ prop=C35 tier=quick kind=hold
//@ enc=gmsol_utils::fixed_str::fixed_str_to_bytes::<4>, gmsol_utils::fixed_str::bytes_to_fixed_str::<4>, core::str::from_utf8
//@ bound=every UTF-8 string of length <= 5 bytes against a 4-byte buffer (covers shorter, exactly-full, too-long, interior NUL)
#[kani::proof]
#[kani::unwind(8)]
fn c35_roundtrip_n4() {
    roundtrip::<4, 5>();
}

//@ prop=C35 tier=thorough kind=hold
//@ enc=gmsol_utils::fixed_str::fixed_str_to_bytes::<8>, gmsol_utils::fixed_str::bytes_to_fixed_str::<8>, core::str::from_utf8
//@ bound=every UTF-8 string of length <= 9 bytes against an 8-byte buffer
#[kani::proof]
#[kani::unwind(12)]
fn c35_roundtrip_n8() {
    roundtrip::<8, 9>();
}
