use gmsol_utils::fixed_str::{bytes_to_fixed_str, fixed_str_to_bytes};

/// Symbolic UTF-8 string of length <= CAP stored in `buf`.
fn any_str<const CAP: usize>(buf: &[u8; CAP]) -> Option<&str> {
    let len: usize = kani::any();
    kani::assume(len <= CAP);
    std::str::from_utf8(&buf[..len]).ok()
}

fn roundtrip<const N: usize, const CAP: usize>() {
    let buf: [u8; CAP] = kani::any();
    let Some(s) = any_str::<CAP>(&buf) else { return };
    let accepted = check::<N>(s);
    kani::cover!(accepted && s.len() == N, "accepted name fills the buffer");
    kani::cover!(accepted && s.len() > 0 && s.len() < N, "accepted shorter name");
    kani::cover!(!accepted, "rejected name");
}

/// The C35 contract for one name: accepted => reads back unchanged; rejected => not storable.
/// Returns whether the name was accepted (for the callers' reachability witnesses).
fn check<const N: usize>(s: &str) -> bool {
    match fixed_str_to_bytes::<N>(s) {
        Ok(stored) => {
            let back = bytes_to_fixed_str::<N>(&stored);
            // Accepted => reads back unchanged.
            match back {
                Ok(r) => {
                    assert!(r.len() == s.len(), "C35: accepted name reads back with another length");
                    let (rb, sb) = (r.as_bytes(), s.as_bytes());
                    let mut i = 0;
                    while i < sb.len() {
                        assert!(rb[i] == sb[i], "C35: accepted name reads back with other bytes");
                        i += 1;
                    }
                }
                Err(_) => panic!("C35: accepted name cannot be read back"),
            }
            true
        }
        Err(_) => {
            // Rejection is only allowed for names that cannot be stored; anything up to N
            // bytes without NUL must be accepted (otherwise `reject everything` passes).
            let has_nul = s.as_bytes().iter().any(|b| *b == 0);
            assert!(s.len() > N || has_nul, "C35: storable name rejected");
            false
        }
    }
}

//@ prop=C35 tier=quick kind=hold
//@ enc=gmsol_utils::fixed_str::fixed_str_to_bytes::<4>, gmsol_utils::fixed_str::bytes_to_fixed_str::<4>, core::str::from_utf8
//@ bound=every UTF-8 string of length <= 5 bytes against a 4-byte buffer (covers shorter, exactly-full, too-long, interior NUL)
#[kani::proof]
#[kani::unwind(8)]
fn c35_roundtrip_n4() {
    roundtrip::<4, 5>();
}

//@ prop=C35 tier=thorough kind=hold
//@ enc=gmsol_utils::fixed_str::fixed_str_to_bytes::<8>, gmsol_utils::fixed_str::bytes_to_fixed_str::<8>, core::str::from_utf8
//@ bound=every UTF-8 string of length <= 9 bytes against an 8-byte buffer
#[kani::proof]
#[kani::unwind(12)]
fn c35_roundtrip_n8() {
    roundtrip::<8, 9>();
}

/// A string of exactly LEN bytes whose characters have the given (concrete) UTF-8 widths and whose
/// bytes are symbolic within the ranges of well-formed sequences (Unicode Table 3-7; lead bytes are
/// restricted to those whose continuation bytes all range over 80..=BF: C2..=DF, E1..=EC, F1..=F3).
/// Length and character boundaries are concrete, so code that walks characters (chars(), char_indices(),
/// is_char_boundary) stays cheap for the symbolic executor, unlike in `roundtrip` where the length is
/// symbolic; `c35_shapes_are_utf8` proves with the real core::str::from_utf8 that every such buffer is
/// valid UTF-8, which is what justifies from_utf8_unchecked in `shaped_check`.
fn shaped<const LEN: usize>(widths: &[usize]) -> [u8; LEN] {
    let buf: [u8; LEN] = kani::any();
    let mut p = 0;
    for w in widths {
        let lead = buf[p];
        match *w {
            1 => kani::assume(lead >= 1 && lead <= 0x7f),
            2 => kani::assume(lead >= 0xC2 && lead <= 0xDF),
            3 => kani::assume(lead >= 0xE1 && lead <= 0xEC),
            _ => kani::assume(lead >= 0xF1 && lead <= 0xF3),
        }
        let mut k = 1;
        while k < *w {
            kani::assume(buf[p + k] >= 0x80 && buf[p + k] <= 0xBF);
            k += 1;
        }
        p += *w;
    }
    assert!(p == LEN, "harness: widths do not add up to LEN");
    buf
}

fn shaped_check<const N: usize, const LEN: usize>(widths: &[usize]) -> bool {
    let buf = shaped::<LEN>(widths);
    // SAFETY: valid UTF-8 by construction, proved by c35_shapes_are_utf8.
    let s = unsafe { std::str::from_utf8_unchecked(&buf) };
    check::<N>(s)
}

fn shaped_is_utf8<const LEN: usize>(widths: &[usize]) {
    let buf = shaped::<LEN>(widths);
    assert!(std::str::from_utf8(&buf).is_ok(), "harness: shaped buffer is not valid UTF-8");
}

// Names with multi-byte characters around the capacity: byte length and character count differ, so a
// limit counted in characters, a copy cut inside a character or a terminator search that is not
// byte-exact shows up here. (Added after a seeded change -- chars().count() limit + truncating copy --
// made c35_roundtrip_n4 time out instead of failing: see DESIGN.md section 7.)

//@ prop=C35 tier=quick kind=hold
//@ enc=gmsol_utils::fixed_str::fixed_str_to_bytes::<4>, gmsol_utils::fixed_str::bytes_to_fixed_str::<4>, core::str::from_utf8
//@ bound=4-byte buffer; names that fit exactly, built from concrete character widths [1,1,2] [2,2] [1,3] with every well-formed byte value (leads C2..DF, E1..EC, F1..F3, continuations 80..BF, ASCII 01..7F)
#[kani::proof]
#[kani::unwind(8)]
fn c35_multibyte_fits_n4_a() {
    shaped_check::<4, 4>(&[1, 1, 2]);
    shaped_check::<4, 4>(&[2, 2]);
    let accepted = shaped_check::<4, 4>(&[1, 3]);
    kani::cover!(accepted, "a 4-byte name of two characters is accepted");
}

//@ prop=C35 tier=quick kind=hold
//@ enc=gmsol_utils::fixed_str::fixed_str_to_bytes::<4>, gmsol_utils::fixed_str::bytes_to_fixed_str::<4>, core::str::from_utf8
//@ bound=4-byte buffer; names that fit exactly, concrete character widths [3,1] [4], byte values as in c35_multibyte_fits_n4_a
#[kani::proof]
#[kani::unwind(8)]
fn c35_multibyte_fits_n4_b() {
    shaped_check::<4, 4>(&[3, 1]);
    let accepted = shaped_check::<4, 4>(&[4]);
    kani::cover!(accepted, "a name of one 4-byte character is accepted");
}

//@ prop=C35 tier=quick kind=hold
//@ enc=gmsol_utils::fixed_str::fixed_str_to_bytes::<4>, gmsol_utils::fixed_str::bytes_to_fixed_str::<4>, core::str::from_utf8
//@ bound=4-byte buffer; names of 5 and 6 bytes but at most 4 characters, concrete character widths [1,1,1,2] [2,1,1,1] [1,2,2] [2,3] [1,4] [2,2,2] [3,3] with every well-formed byte value as above
#[kani::proof]
#[kani::unwind(8)]
fn c35_multibyte_too_long_n4() {
    shaped_check::<4, 5>(&[1, 1, 1, 2]);
    shaped_check::<4, 5>(&[2, 1, 1, 1]);
    shaped_check::<4, 5>(&[1, 2, 2]);
    shaped_check::<4, 5>(&[2, 3]);
    shaped_check::<4, 5>(&[1, 4]);
    shaped_check::<4, 6>(&[2, 2, 2]);
    let accepted = shaped_check::<4, 6>(&[3, 3]);
    kani::cover!(!accepted, "a 6-byte name of two characters is rejected");
}

//@ prop=C35 tier=quick kind=hold
//@ enc=core::str::from_utf8 (validity of the constructed names used by c35_multibyte_*)
//@ bound=the twelve concrete width shapes used by c35_multibyte_fits_n4_{a,b} / c35_multibyte_too_long_n4, every byte value in the stated ranges
#[kani::proof]
#[kani::unwind(8)]
fn c35_shapes_are_utf8() {
    shaped_is_utf8::<4>(&[1, 1, 2]);
    shaped_is_utf8::<4>(&[2, 2]);
    shaped_is_utf8::<4>(&[1, 3]);
    shaped_is_utf8::<4>(&[3, 1]);
    shaped_is_utf8::<4>(&[4]);
    shaped_is_utf8::<5>(&[1, 1, 1, 2]);
    shaped_is_utf8::<5>(&[2, 1, 1, 1]);
    shaped_is_utf8::<5>(&[1, 2, 2]);
    shaped_is_utf8::<5>(&[2, 3]);
    shaped_is_utf8::<5>(&[1, 4]);
    shaped_is_utf8::<6>(&[2, 2, 2]);
    shaped_is_utf8::<6>(&[3, 3]);
}

//@ prop=C35 tier=thorough kind=hold
//@ enc=gmsol_utils::fixed_str::fixed_str_to_bytes::<8>, gmsol_utils::fixed_str::bytes_to_fixed_str::<8>, core::str::from_utf8
//@ bound=8-byte buffer; names of 8 and 9 bytes with concrete character widths [1x6,2] [2,2,2,2] [4,4] [1,1,3,3] / [1x7,2] [3,3,3] [4,4,1] and every well-formed byte value as above
#[kani::proof]
#[kani::unwind(12)]
fn c35_multibyte_n8() {
    shaped_check::<8, 8>(&[1, 1, 1, 1, 1, 1, 2]);
    shaped_check::<8, 8>(&[2, 2, 2, 2]);
    shaped_check::<8, 8>(&[4, 4]);
    shaped_check::<8, 8>(&[1, 1, 3, 3]);
    shaped_check::<8, 9>(&[1, 1, 1, 1, 1, 1, 1, 2]);
    shaped_check::<8, 9>(&[3, 3, 3]);
    let accepted = shaped_check::<8, 9>(&[4, 4, 1]);
    kani::cover!(!accepted, "a 9-byte name of three characters is rejected");
}
