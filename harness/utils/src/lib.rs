//! Kani harnesses over the real `gmsol-utils` / `gmsol-chainlink-datastreams` sources.
//!
//! Harness metadata is carried in `//@` comment lines directly above each `#[kani::proof]`
//! and parsed by `/verif/lib/vcheck.py`:
//!   //@ prop=C27 tier=quick kind=hold|finding[:key]|witness
//!   //@ enc=<functions symbolically executed>
//!   //@ bound=<stated bounds>
#![allow(clippy::all)]
#![allow(unused)]

#[cfg(kani)]
mod c23_action_state;
#[cfg(kani)]
mod c26_decimal;
#[cfg(kani)]
mod c26_triples;
#[cfg(kani)]
mod c27_openness;
#[cfg(kani)]
mod c28_chainlink;
#[cfg(kani)]
mod c28_convert;
#[cfg(kani)]
mod c34_fixed_map;
#[cfg(kani)]
mod c35_names;
#[cfg(kani)]
mod c36_instruction;
