use gmsol_chainlink_datastreams::report::{decode_full_report, ExtendedMarketStatus, Report};
use gmsol_chainlink_datastreams::FromChainlinkReport;
use gmsol_utils::price::{feed_price::PriceFeedPrice, U192};

fn be64(b: &[u8]) -> u64 {
    u64::from_be_bytes([b[0], b[1], b[2], b[3], b[4], b[5], b[6], b[7]])
}

fn full_report<const CAP: usize>() {
    let buf: [u8; CAP] = kani::any();
    let len: usize = kani::any();
    kani::assume(len <= CAP);
    let payload = &buf[..len];
    // must not panic for any payload (Kani checks every slice index / arithmetic overflow)
    match decode_full_report(payload) {
        Ok((ctx, blob)) => {
            assert!(len >= 128);
            let off = be64(&payload[120..128]) as usize;
            assert!(off >= 128 && off + 32 <= len, "C28: length word outside the payload");
            let blen = be64(&payload[off + 24..off + 32]) as usize;
            assert!(off + 32 + blen <= len, "C28: blob exceeds the payload");
            assert!(blob.len() == blen, "C28: blob length differs from the ABI length word");
            // blob is the slice at [off+32, off+32+blen): same start address
            assert!(blob.as_ptr() == payload[off + 32..].as_ptr(), "C28: blob does not start after the length word");
            let idx: usize = kani::any();
            kani::assume(idx < 96);
            assert!(ctx[idx / 32][idx % 32] == payload[idx], "C28: report context differs from the first three words");
            kani::cover!(blen > 0, "non-empty blob decoded");
        }
        Err(_) => {
            kani::cover!(len >= 128, "long payload rejected");
        }
    }
}

//@ prop=C28 tier=quick kind=hold
//@ enc=gmsol_chainlink_datastreams::report::decode_full_report
//@ bound=every payload of every length 0..=168 bytes (128-byte head + length word + up to 8 blob bytes); unwind 10
#[kani::proof]
#[kani::unwind(10)]
fn c28_decode_full_report_168() {
    full_report::<168>();
}

//@ prop=C28 tier=thorough kind=hold
//@ enc=gmsol_chainlink_datastreams::report::decode_full_report
//@ bound=every payload of every length 0..=256 bytes; unwind 10
#[kani::proof]
#[kani::unwind(10)]
fn c28_decode_full_report_256() {
    full_report::<256>();
}

fn any_ext() -> Option<ExtendedMarketStatus> {
    let v: u8 = kani::any();
    match v {
        0 => None,
        1 => Some(ExtendedMarketStatus::Unknown),
        2 => Some(ExtendedMarketStatus::PreMarket),
        3 => Some(ExtendedMarketStatus::RegularHours),
        4 => Some(ExtendedMarketStatus::PostMarket),
        5 => Some(ExtendedMarketStatus::Overnight),
        _ => Some(ExtendedMarketStatus::Closed),
    }
}

fn status_byte(e: Option<ExtendedMarketStatus>) -> u8 {
    // PriceFeedPrice status numbering: 0 Disabled 1 Unknown 2 PreMarket 3 RegularHours 4 PostMarket 5 Overnight 6 Closed
    match e {
        None => 0,
        Some(ExtendedMarketStatus::Unknown) => 1,
        Some(ExtendedMarketStatus::PreMarket) => 2,
        Some(ExtendedMarketStatus::RegularHours) => 3,
        Some(ExtendedMarketStatus::PostMarket) => 4,
        Some(ExtendedMarketStatus::Overnight) => 5,
        Some(ExtendedMarketStatus::Closed) => 6,
    }
}

fn k0(_n: &U192) -> u8 {
    0
}
fn k1(_n: &U192) -> u8 {
    1
}

fn from_report(k: u8) {
    let (p, b, a): (u128, u128, u128) = (kani::any(), kani::any(), kani::any());
    let (sp, sb, sa): (bool, bool, bool) = (kani::any(), kani::any(), kani::any());
    let obs: u32 = kani::any();
    let lut: Option<u64> = if kani::any() { Some(kani::any()) } else { None };
    let ext = any_ext();
    // k = 0: values are the u128s themselves. k = 1: values are v*2^8 (top limb = low byte.. see below)
    let mk = |v: u128| {
        if k == 0 {
            U192::from(v)
        } else {
            // any value in [2^128, 2^136): limbs (lo, hi, top) with 1 <= top < 256; those need exactly one
            // decimal to be dropped (2^136 < u128::MAX * 10)
            U192::from_limbs([v as u64, (v >> 64) as u64, 1 + ((v >> 57) as u64 & 0x7f)])
        }
    };
    let (pu, bu, au) = (mk(p), mk(b), mk(a));
    let report = Report::verif_new(obs, lut, (sp, pu), (sb, bu), (sa, au), ext);
    match PriceFeedPrice::from_chainlink_report(&report) {
        Ok(fp) => {
            assert!(sp && sb && sa, "C28: negative bid/price/ask accepted");
            assert!(bu <= pu && pu <= au, "C28: misordered bid/price/ask accepted");
            assert!(fp.min_price() <= fp.price() && fp.price() <= fp.max_price(), "C28: bid <= price <= ask not preserved");
            let img: [u8; 64] = bytemuck::cast(fp);
            assert!(img[0] == 18 - k, "C28: decimals differ from Report::DECIMALS - divisor_decimals");
            if k == 0 {
                assert!(*fp.min_price() == b && *fp.price() == p && *fp.max_price() == a, "C28: values not scaled by the same power of ten");
            } else {
                // same power of ten for all three: x/10 exactly (checked by multiplication in 192 bits:
                // 10*q <= x < 10*q + 10)
                let ok = |q: u128, x: U192| {
                    let q10 = U192::from(q) * U192::from(10u8);
                    q10 <= x && x - q10 < U192::from(10u8)
                };
                assert!(ok(*fp.price(), pu), "C28: price not divided by 10^k");
                assert!(ok(*fp.min_price(), bu), "C28: bid not divided by 10^k");
                assert!(ok(*fp.max_price(), au), "C28: ask not divided by 10^k");
            }
            assert!(fp.ts() == obs as i64);
            assert!(img[2] == status_byte(ext), "C28: market status not preserved");
            match lut {
                None => {
                    assert!(img[1] == 0b001, "C28: flags without last-update tracking must be {Open}");
                    assert!(fp.last_update_diff_secs().is_none());
                }
                Some(l) => {
                    let obs_ns = obs as u128 * 1_000_000_000;
                    assert!((l as u128) < obs_ns + 1_000_000_000, "C28: last update later than the observation by >= 1s accepted");
                    let diff_ns = if obs_ns >= l as u128 { obs_ns - l as u128 } else { 0 };
                    let diff_s = (diff_ns + 999_999_999) / 1_000_000_000;
                    if diff_s <= u32::MAX as u128 {
                        assert!(img[1] == 0b111);
                        assert!(fp.last_update_diff_secs() == Some(diff_s as u32), "C28: last-update age mis-rounded");
                    } else {
                        assert!(img[1] == 0b110 && fp.last_update_diff_secs() == Some(u32::MAX));
                    }
                    kani::cover!(diff_s > 0 && diff_s <= u32::MAX as u128, "tracked last update");
                }
            }
            kani::cover!(true, "report accepted");
        }
        Err(_) => {
            let obs_ns = obs as u128 * 1_000_000_000;
            let late = matches!(lut, Some(l) if l as u128 >= obs_ns + 1_000_000_000);
            assert!(!(sp && sb && sa) || !(bu <= pu && pu <= au) || late, "C28: well-formed report rejected");
        }
    }
}

//@ prop=C28 tier=experimental kind=hold
//@ enc=<PriceFeedPrice as FromChainlinkReport>::from_chainlink_report, Report::{non_negative_price,non_negative_bid,non_negative_ask,last_update_timestamp,extended_market_status}, canonical_market_status, PriceFeedPrice::{new,set_flag,set_market_status}, ruint U192 pow/div (divisor 1)
//@ bound=bid/price/ask any values below 2^128 (divisor decimals 0), any signs, any u32 observation timestamp, any optional u64 last-update timestamp, any status
//@ stubs=find_divisor_decimals stubbed to the constant 0 (its own contract is decided by c26_find_divisor_decimals; for values < 2^128 it returns 0); Report built through the cfg(gmsol_verif) hook Report::verif_new (ABI/bigint decoding not executed)
//@ args=-Z,stubbing,--cbmc-args,--unwindset,memcmp.0:26
#[kani::proof]
#[kani::stub(gmsol_utils::price::find_divisor_decimals, k0)]
#[kani::unwind(8)]
fn c28_from_report_k0() {
    from_report(0);
}

//@ prop=C28 tier=experimental kind=hold
//@ enc=<PriceFeedPrice as FromChainlinkReport>::from_chainlink_report with ruint U192 pow/div by 10
//@ bound=bid/price/ask any values in [2^128, 2^128+2^135) shape (top limb 1..=128), divisor decimals 1
//@ stubs=find_divisor_decimals stubbed to the constant 1 (values in that range need exactly one decimal dropped); Report::verif_new hook
//@ args=-Z,stubbing,--cbmc-args,--unwindset,memcmp.0:26
#[kani::proof]
#[kani::stub(gmsol_utils::price::find_divisor_decimals, k1)]
#[kani::unwind(8)]
fn c28_from_report_k1() {
    from_report(1);
}
