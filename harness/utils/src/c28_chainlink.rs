use gmsol_chainlink_datastreams::report::decode_full_report;

fn be64(b: &[u8]) -> u64 {
    u64::from_be_bytes([b[0], b[1], b[2], b[3], b[4], b[5], b[6], b[7]])
}

fn full_report<const CAP: usize>() {
    let buf: [u8; CAP] = kani::any();
    let len: usize = kani::any();
    kani::assume(len <= CAP);
    let payload = &buf[..len];
    // must not panic for any payload (Kani checks every slice index / arithmetic overflow)
    match decode_full_report(payload) {
        Ok((ctx, blob)) => {
            assert!(len >= 128);
            let off = be64(&payload[120..128]) as usize;
            assert!(off >= 128 && off + 32 <= len, "C28: length word outside the payload");
            let blen = be64(&payload[off + 24..off + 32]) as usize;
            assert!(off + 32 + blen <= len, "C28: blob exceeds the payload");
            assert!(blob.len() == blen, "C28: blob length differs from the ABI length word");
            // blob is the slice at [off+32, off+32+blen): same start address
            assert!(blob.as_ptr() == payload[off + 32..].as_ptr(), "C28: blob does not start after the length word");
            let idx: usize = kani::any();
            kani::assume(idx < 96);
            assert!(ctx[idx / 32][idx % 32] == payload[idx], "C28: report context differs from the first three words");
            kani::cover!(blen > 0, "non-empty blob decoded");
        }
        Err(_) => {
            kani::cover!(len >= 128, "long payload rejected");
        }
    }
}

//@ prop=C28 tier=quick kind=hold
//@ enc=gmsol_chainlink_datastreams::report::decode_full_report
//@ bound=every payload of every length 0..=168 bytes (128-byte head + length word + up to 8 blob bytes); unwind 10
#[kani::proof]
#[kani::unwind(10)]
fn c28_decode_full_report_168() {
    full_report::<168>();
}

//@ prop=C28 tier=thorough kind=hold
//@ enc=gmsol_chainlink_datastreams::report::decode_full_report
//@ bound=every payload of every length 0..=256 bytes; unwind 10
#[kani::proof]
#[kani::unwind(10)]
fn c28_decode_full_report_256() {
    full_report::<256>();
}

// The report -> PriceFeedPrice conversion harnesses (formerly c28_from_report_k0/k1 here, which did not
// finish) are in c28_convert.rs.
