//! C28, conversion part: `PriceFeedPrice::from_chainlink_report` (crates/chainlink-datastreams/src/gmsol.rs)
//! on a `Report` built through the cfg(gmsol_verif) hook `Report::verif_new` (ABI / bigint decoding is
//! not executed). The divisor exponent `k = find_divisor_decimals(ask)` is made concrete per harness:
//! the real `find_divisor_decimals` is replaced by the constant `k` and `ask` is restricted to exactly
//! the interval on which the real function returns `k` (`BOUNDS[k-1] < ask <= BOUNDS[k]`, decided for the
//! real function by `c26_find_divisor_decimals_exact`), so the ruint `TEN.pow(k)` / `x / divisor` run
//! with a constant divisor.
use gmsol_chainlink_datastreams::report::{ExtendedMarketStatus, Report};
use gmsol_chainlink_datastreams::FromChainlinkReport;
use gmsol_utils::price::{feed_price::PriceFeedPrice, U192};

fn any_ext() -> Option<ExtendedMarketStatus> {
    let v: u8 = kani::any();
    match v {
        0 => None,
        1 => Some(ExtendedMarketStatus::Unknown),
        2 => Some(ExtendedMarketStatus::PreMarket),
        3 => Some(ExtendedMarketStatus::RegularHours),
        4 => Some(ExtendedMarketStatus::PostMarket),
        5 => Some(ExtendedMarketStatus::Overnight),
        _ => Some(ExtendedMarketStatus::Closed),
    }
}

fn status_byte(e: Option<ExtendedMarketStatus>) -> u8 {
    // PriceFeedPrice status numbering: 0 Disabled 1 Unknown 2 PreMarket 3 RegularHours 4 PostMarket 5 Overnight 6 Closed
    match e {
        None => 0,
        Some(ExtendedMarketStatus::Unknown) => 1,
        Some(ExtendedMarketStatus::PreMarket) => 2,
        Some(ExtendedMarketStatus::RegularHours) => 3,
        Some(ExtendedMarketStatus::PostMarket) => 4,
        Some(ExtendedMarketStatus::Overnight) => 5,
        Some(ExtendedMarketStatus::Closed) => 6,
    }
}

pub(crate) fn k0(_n: &U192) -> u8 {
    0
}
pub(crate) fn k1(_n: &U192) -> u8 {
    1
}
pub(crate) fn k2(_n: &U192) -> u8 {
    2
}
pub(crate) fn k18(_n: &U192) -> u8 {
    18
}
pub(crate) fn k19(_n: &U192) -> u8 {
    19
}

/// 192-bit value as (hi: top 64 bits, lo: low 128 bits).
#[derive(Clone, Copy)]
struct W {
    hi: u64,
    lo: u128,
}

impl W {
    fn u192(self) -> U192 {
        U192::from_limbs([self.lo as u64, (self.lo >> 64) as u64, self.hi])
    }
    fn le(self, o: W) -> bool {
        self.hi < o.hi || (self.hi == o.hi && self.lo <= o.lo)
    }
    fn lt(self, o: W) -> bool {
        self.hi < o.hi || (self.hi == o.hi && self.lo < o.lo)
    }
}

/// `u128::MAX * 10^k` as a 192-bit value, `k <= 19` (exact: `(2^128 - 1) * p = p * 2^128 - p`).
const fn bound(k: u32) -> W {
    let p = 10u128.pow(k);
    // p * 2^128 - p  =  (p - 1) * 2^128 + (2^128 - p)
    W { hi: (p - 1) as u64, lo: 0u128.wrapping_sub(p) }
}

/// Shape of the three report values: each limb is either a literal constant (so that ruint's
/// limb-count dispatch `rposition(|x| x != 0)` is decided during symbolic execution) or a fresh
/// symbolic value below `2^bits`.
#[derive(Clone, Copy)]
pub(crate) enum L {
    /// literal limb
    C(u64),
    /// symbolic limb below 2^bits (bits <= 64)
    S(u32),
}

fn limb(l: L) -> u64 {
    match l {
        L::C(c) => c,
        L::S(bits) => {
            let v: u64 = kani::any();
            if bits < 64 {
                kani::assume(v < (1u64 << bits));
            }
            v
        }
    }
}

fn any_value(shape: [L; 3]) -> (W, U192) {
    let l = [limb(shape[0]), limb(shape[1]), limb(shape[2])];
    (W { hi: l[2], lo: ((l[1] as u128) << 64) | l[0] as u128 }, U192::from_limbs(l))
}

const M: u128 = u64::MAX as u128;

/// `q * d + r` for a 3-limb `q` and one-limb `d`, `r`: the 4 result limbs (exact, no overflow:
/// every partial sum is below 2^66).
fn mul_add(q: [u64; 3], d: u64, r: u64) -> [u64; 4] {
    let p0 = q[0] as u128 * d as u128;
    let p1 = q[1] as u128 * d as u128;
    let p2 = q[2] as u128 * d as u128;
    let s0 = (p0 & M) + r as u128;
    let s1 = (p0 >> 64) + (p1 & M) + (s0 >> 64);
    let s2 = (p1 >> 64) + (p2 & M) + (s1 >> 64);
    let s3 = (p2 >> 64) + (s2 >> 64);
    [s0 as u64, s1 as u64, s2 as u64, s3 as u64]
}

/// Specification model of ruint's in-place limb division `ruint::algorithms::div::div(numerator,
/// divisor)` (quotient left in `numerator`, remainder in `divisor`) for the only shape
/// `from_chainlink_report` produces: 3-limb operands, divisor a non-zero single limb (10^k, k <= 19).
/// The quotient/remainder are arbitrary values satisfying the defining equation
/// `q * d + r == n, r < d` (ruint's Knuth/reciprocal algorithm itself is trusted, not re-verified).
pub(crate) fn div_spec(numerator: &mut [u64], divisor: &mut [u64]) {
    assert!(numerator.len() == 3 && divisor.len() == 3, "harness model: unexpected limb count");
    let d = divisor[0];
    assert!(d != 0 && divisor[1] == 0 && divisor[2] == 0, "harness model: divisor is not a non-zero single limb");
    let q: [u64; 3] = kani::any();
    let r: u64 = kani::any();
    kani::assume(r < d);
    let s = mul_add(q, d, r);
    kani::assume(s[3] == 0 && s[0] == numerator[0] && s[1] == numerator[1] && s[2] == numerator[2]);
    numerator[0] = q[0];
    numerator[1] = q[1];
    numerator[2] = q[2];
    divisor[0] = r;
}

/// Exact check that the u128 `q` is `floor(x / 10^k)`: `x - q * 10^k` is in `[0, 10^k)`.
fn is_quotient(q: u128, x: W, k: u32) -> bool {
    let p = 10u64.pow(k);
    let s = mul_add([q as u64, (q >> 64) as u64, 0], p, 0);
    if s[3] != 0 {
        return false;
    }
    let qp = W { hi: s[2], lo: ((s[1] as u128) << 64) | s[0] as u128 };
    if !qp.le(x) {
        return false;
    }
    let (dlo, borrow) = x.lo.overflowing_sub(qp.lo);
    let dhi = x.hi - qp.hi - borrow as u64;
    dhi == 0 && dlo < p as u128
}

/// One call of the real conversion with divisor exponent `k` (the caller stubs
/// `find_divisor_decimals` to the same constant).
pub(crate) fn convert(k: u32, shape: [L; 3]) {
    let (sp, sb, sa): (bool, bool, bool) = (kani::any(), kani::any(), kani::any());
    let obs: u32 = kani::any();
    let lut: Option<u64> = if kani::any() { Some(kani::any()) } else { None };
    let ext = any_ext();
    let ((p, pu), (b, bu), (a, au)) = (any_value(shape), any_value(shape), any_value(shape));
    // the interval on which the real find_divisor_decimals(ask) returns k
    if sa {
        kani::assume(a.le(bound(k)));
        if k > 0 {
            kani::assume(bound(k - 1).lt(a));
        }
    }
    let report = Report::verif_new(obs, lut, (sp, pu), (sb, bu), (sa, au), ext);
    let obs_ns = obs as u128 * 1_000_000_000;
    let late = matches!(lut, Some(l) if l as u128 >= obs_ns + 1_000_000_000);
    match PriceFeedPrice::from_chainlink_report(&report) {
        Ok(fp) => {
            assert!(sp && sb && sa, "C28: negative bid/price/ask accepted");
            assert!(k <= 18, "C28: unrepresentable ask accepted");
            assert!(b.le(p) && p.le(a), "C28: misordered bid/price/ask accepted");
            assert!(!late, "C28: last update later than the observation by >= 1s accepted");
            assert!(fp.min_price() <= fp.price() && fp.price() <= fp.max_price(), "C28: bid <= price <= ask not preserved");
            let img: [u8; 64] = bytemuck::cast(fp);
            assert!(img[0] as u32 == 18 - k, "C28: decimals differ from Report::DECIMALS - divisor_decimals");
            // all three divided by the same 10^k, exactly (floor)
            if k == 0 {
                assert!(p.hi == 0 && *fp.price() == p.lo, "C28: price changed although the divisor is 1");
                assert!(b.hi == 0 && *fp.min_price() == b.lo, "C28: bid changed although the divisor is 1");
                assert!(a.hi == 0 && *fp.max_price() == a.lo, "C28: ask changed although the divisor is 1");
            } else {
                assert!(is_quotient(*fp.price(), p, k), "C28: price not divided by 10^k");
                assert!(is_quotient(*fp.min_price(), b, k), "C28: bid not divided by 10^k");
                assert!(is_quotient(*fp.max_price(), a, k), "C28: ask not divided by 10^k");
            }
            assert!(fp.ts() == obs as i64, "C28: timestamp changed");
            assert!(img[2] == status_byte(ext), "C28: market status not preserved");
            match lut {
                None => {
                    assert!(img[1] == 0b001, "C28: flags without last-update tracking must be {Open}");
                    assert!(fp.last_update_diff_secs().is_none());
                }
                Some(l) => {
                    let diff_ns = if obs_ns >= l as u128 { obs_ns - l as u128 } else { 0 };
                    let diff_s = (diff_ns + 999_999_999) / 1_000_000_000;
                    // obs < 2^32 s, so the age is below 2^32 s: always representable, always open
                    assert!(img[1] == 0b111, "C28: flags with last-update tracking must be {Open, Enabled, Secs}");
                    assert!(fp.last_update_diff_secs() == Some(diff_s as u32), "C28: last-update age mis-rounded");
                    kani::cover!(diff_s > 0, "tracked last update with a positive age");
                }
            }
            kani::cover!(b.lt(p) && p.lt(a), "report accepted with bid < price < ask");
        }
        Err(_) => {
            // k > 18: the ask exceeds u128::MAX * 10^18, i.e. it has no u128 representation with >= 0 decimals
            assert!(!(sp && sb && sa) || !(b.le(p) && p.le(a)) || late || k > 18, "C28: well-formed report rejected");
            kani::cover!(sp && sb && sa && a.lt(p), "ask < price rejected");
            kani::cover!(sp && sb && sa && p.lt(b), "price < bid rejected");
            kani::cover!(!sb, "negative bid rejected");
            kani::cover!(late, "late last-update rejected");
        }
    }
}

#[kani::proof]
#[kani::stub(gmsol_utils::price::find_divisor_decimals, k0)]
#[kani::stub(ruint::algorithms::div::div, div_spec)]
#[kani::unwind(5)]
fn c28_p0() {
    convert(0, [L::S(64), L::S(64), L::C(0)]);
}

#[kani::proof]
#[kani::stub(gmsol_utils::price::find_divisor_decimals, k1)]
#[kani::stub(ruint::algorithms::div::div, div_spec)]
#[kani::unwind(5)]
fn c28_p1() {
    convert(1, [L::S(64), L::S(64), L::S(64)]);
}
