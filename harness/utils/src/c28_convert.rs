//! C28, conversion part: `PriceFeedPrice::from_chainlink_report` (crates/chainlink-datastreams/src/gmsol.rs)
//! on a `Report` built through the cfg(gmsol_verif) hook `Report::verif_new` (ABI / bigint decoding is
//! not executed). The divisor exponent `k = find_divisor_decimals(ask)` is made concrete per harness:
//! the real `find_divisor_decimals` is replaced by the constant `k` and `ask` is restricted to exactly
//! the interval on which the real function returns `k` (`BOUNDS[k-1] < ask <= BOUNDS[k]`, decided for the
//! real function by `c26_find_divisor_decimals_exact`), so the ruint `TEN.pow(k)` / `x / divisor` run
//! with a constant divisor.
use gmsol_chainlink_datastreams::report::{ExtendedMarketStatus, Report};
use gmsol_chainlink_datastreams::FromChainlinkReport;
use gmsol_utils::price::{feed_price::PriceFeedPrice, U192};

fn any_ext() -> Option<ExtendedMarketStatus> {
    let v: u8 = kani::any();
    match v {
        0 => None,
        1 => Some(ExtendedMarketStatus::Unknown),
        2 => Some(ExtendedMarketStatus::PreMarket),
        3 => Some(ExtendedMarketStatus::RegularHours),
        4 => Some(ExtendedMarketStatus::PostMarket),
        5 => Some(ExtendedMarketStatus::Overnight),
        _ => Some(ExtendedMarketStatus::Closed),
    }
}

fn status_byte(e: Option<ExtendedMarketStatus>) -> u8 {
    // PriceFeedPrice status numbering: 0 Disabled 1 Unknown 2 PreMarket 3 RegularHours 4 PostMarket 5 Overnight 6 Closed
    match e {
        None => 0,
        Some(ExtendedMarketStatus::Unknown) => 1,
        Some(ExtendedMarketStatus::PreMarket) => 2,
        Some(ExtendedMarketStatus::RegularHours) => 3,
        Some(ExtendedMarketStatus::PostMarket) => 4,
        Some(ExtendedMarketStatus::Overnight) => 5,
        Some(ExtendedMarketStatus::Closed) => 6,
    }
}

/// The argument the conversion passed to (the stub of) `find_divisor_decimals`, and whether it
/// was called: the divisor exponent must be derived from the largest value, `ask`.
static mut FDD_ARG: [u64; 3] = [0; 3];
static mut FDD_CALLED: bool = false;
fn record(n: &U192) {
    unsafe {
        FDD_ARG = *n.as_limbs();
        FDD_CALLED = true;
    }
}

pub(crate) fn k0(_n: &U192) -> u8 {
    record(_n);
    0
}
pub(crate) fn k1(_n: &U192) -> u8 {
    record(_n);
    1
}
pub(crate) fn k2(_n: &U192) -> u8 {
    record(_n);
    2
}
pub(crate) fn k3(_n: &U192) -> u8 {
    record(_n);
    3
}
pub(crate) fn k4(_n: &U192) -> u8 {
    record(_n);
    4
}
pub(crate) fn k18(_n: &U192) -> u8 {
    record(_n);
    18
}
pub(crate) fn k19(_n: &U192) -> u8 {
    record(_n);
    19
}

/// 192-bit value as (hi: top 64 bits, lo: low 128 bits).
#[derive(Clone, Copy)]
struct W {
    hi: u64,
    lo: u128,
}

impl W {
    fn u192(self) -> U192 {
        U192::from_limbs([self.lo as u64, (self.lo >> 64) as u64, self.hi])
    }
    fn le(self, o: W) -> bool {
        self.hi < o.hi || (self.hi == o.hi && self.lo <= o.lo)
    }
    fn lt(self, o: W) -> bool {
        self.hi < o.hi || (self.hi == o.hi && self.lo < o.lo)
    }
}

/// `u128::MAX * 10^k` as a 192-bit value, `k <= 19` (exact: `(2^128 - 1) * p = p * 2^128 - p`).
const fn bound(k: u32) -> W {
    let p = 10u128.pow(k);
    // p * 2^128 - p  =  (p - 1) * 2^128 + (2^128 - p)
    W { hi: (p - 1) as u64, lo: 0u128.wrapping_sub(p) }
}

/// Shape of the three report values: each limb is either a literal constant (so that ruint's
/// limb-count dispatch `rposition(|x| x != 0)` is decided during symbolic execution) or a fresh
/// symbolic value below `2^bits`.
#[derive(Clone, Copy)]
pub(crate) enum L {
    /// literal limb
    C(u64),
    /// symbolic limb below 2^bits (bits <= 64)
    S(u32),
}

fn limb(l: L) -> u64 {
    match l {
        L::C(c) => c,
        L::S(bits) => {
            let v: u64 = kani::any();
            if bits < 64 {
                kani::assume(v < (1u64 << bits));
            }
            v
        }
    }
}

fn any_value(shape: [L; 3]) -> (W, U192) {
    let l = [limb(shape[0]), limb(shape[1]), limb(shape[2])];
    (W { hi: l[2], lo: ((l[1] as u128) << 64) | l[0] as u128 }, U192::from_limbs(l))
}

const M: u128 = u64::MAX as u128;

/// `q * d + r` for a 3-limb `q` and one-limb `d`, `r`: the 4 result limbs (exact, no overflow:
/// every partial sum is below 2^66).
fn mul_add(q: [u64; 3], d: u64, r: u64) -> [u64; 4] {
    let p0 = q[0] as u128 * d as u128;
    let p1 = q[1] as u128 * d as u128;
    let p2 = q[2] as u128 * d as u128;
    let s0 = (p0 & M) + r as u128;
    let s1 = (p0 >> 64) + (p1 & M) + (s0 >> 64);
    let s2 = (p1 >> 64) + (p2 & M) + (s1 >> 64);
    let s3 = (p2 >> 64) + (s2 >> 64);
    [s0 as u64, s1 as u64, s2 as u64, s3 as u64]
}

/// Specification model of ruint's in-place limb division `ruint::algorithms::div::div(numerator,
/// divisor)` (quotient left in `numerator`, remainder in `divisor`) for the only shape
/// `from_chainlink_report` produces: 3-limb operands, divisor a non-zero single limb (10^k, k <= 19).
/// The quotient/remainder are arbitrary values satisfying the defining equation
/// `q * d + r == n, r < d` (ruint's Knuth/reciprocal algorithm itself is trusted, not re-verified).
pub(crate) fn div_spec(numerator: &mut [u64], divisor: &mut [u64]) {
    assert!(numerator.len() == 3 && divisor.len() == 3, "harness model: unexpected limb count");
    let d = divisor[0];
    assert!(d != 0 && divisor[1] == 0 && divisor[2] == 0, "harness model: divisor is not a non-zero single limb");
    let q: [u64; 3] = kani::any();
    let r: u64 = kani::any();
    kani::assume(r < d);
    let s = mul_add(q, d, r);
    kani::assume(s[3] == 0 && s[0] == numerator[0] && s[1] == numerator[1] && s[2] == numerator[2]);
    numerator[0] = q[0];
    numerator[1] = q[1];
    numerator[2] = q[2];
    divisor[0] = r;
}

/// Exact check that the u128 `q` is `floor(x / 10^k)`: `x - q * 10^k` is in `[0, 10^k)`.
fn is_quotient(q: u128, x: W, k: u32) -> bool {
    let p = 10u64.pow(k);
    let s = mul_add([q as u64, (q >> 64) as u64, 0], p, 0);
    if s[3] != 0 {
        return false;
    }
    let qp = W { hi: s[2], lo: ((s[1] as u128) << 64) | s[0] as u128 };
    if !qp.le(x) {
        return false;
    }
    let (dlo, borrow) = x.lo.overflowing_sub(qp.lo);
    let dhi = x.hi - qp.hi - borrow as u64;
    dhi == 0 && dlo < p as u128
}

/// One call of the real conversion with divisor exponent `k` (the caller stubs
/// `find_divisor_decimals` to the same constant).
/// One call of the real conversion with divisor exponent `k <= 18` (the caller stubs
/// `find_divisor_decimals` to the same constant and the ruint limb division to its specification).
/// `track`: false = report without last-update timestamp; true = any optional u64 timestamp (its age
/// is checked for zero-ness here and exactly in [`last_update_age_window`]).
pub(crate) fn convert(k: u32, shape: [L; 3], track: bool) {
    // For k >= 2 the order of the three results is not asserted separately: each result is checked to be
    // exactly floor(x / 10^k), and floor division by a common positive divisor is monotone (the direct
    // SAT proof of that monotonicity over two 192-bit quotients does not finish for large 10^k).
    let order_check = k <= 1;
    let (sp, sb, sa): (bool, bool, bool) = (kani::any(), kani::any(), kani::any());
    let obs: u32 = kani::any();
    let lut: Option<u64> = if track && kani::any() { Some(kani::any()) } else { None };
    let ext = any_ext();
    let ((p, pu), (b, bu), (a, au)) = (any_value(shape), any_value(shape), any_value(shape));
    // the interval on which the real find_divisor_decimals(ask) returns k
    if sa {
        kani::assume(a.le(bound(k)));
        if k > 0 {
            kani::assume(bound(k - 1).lt(a));
        }
    }
    let ask_limbs = *au.as_limbs();
    let report = Report::verif_new(obs, lut, (sp, pu), (sb, bu), (sa, au), ext);
    let obs_ns = obs as u128 * 1_000_000_000;
    let late = matches!(lut, Some(l) if l as u128 >= obs_ns + 1_000_000_000);
    let mut w_age = !track;
    match PriceFeedPrice::from_chainlink_report(&report) {
        Ok(fp) => {
            // the common divisor must be chosen for the largest of the three values (ask)
            unsafe {
                assert!(FDD_CALLED && FDD_ARG[0] == ask_limbs[0] && FDD_ARG[1] == ask_limbs[1] && FDD_ARG[2] == ask_limbs[2],
                    "C28 [stub-observed]: the divisor exponent was not derived from ask");
            }
            assert!(sp && sb && sa, "C28: negative bid/price/ask accepted");
            assert!(b.le(p) && p.le(a), "C28: misordered bid/price/ask accepted");
            assert!(!late, "C28: last update later than the observation by >= 1s accepted");
            if order_check {
                assert!(fp.min_price() <= fp.price() && fp.price() <= fp.max_price(), "C28: bid <= price <= ask not preserved");
            }
            let img: [u8; 64] = bytemuck::cast(fp);
            assert!(img[0] as u32 == 18 - k, "C28: decimals differ from Report::DECIMALS - divisor_decimals");
            // all three divided by the same 10^k, exactly (floor)
            if k == 0 {
                assert!(p.hi == 0 && *fp.price() == p.lo, "C28: price changed although the divisor is 1");
                assert!(b.hi == 0 && *fp.min_price() == b.lo, "C28: bid changed although the divisor is 1");
                assert!(a.hi == 0 && *fp.max_price() == a.lo, "C28: ask changed although the divisor is 1");
            } else {
                assert!(is_quotient(*fp.price(), p, k), "C28: price not divided by 10^k");
                assert!(is_quotient(*fp.min_price(), b, k), "C28: bid not divided by 10^k");
                assert!(is_quotient(*fp.max_price(), a, k), "C28: ask not divided by 10^k");
            }
            assert!(fp.ts() == obs as i64, "C28: timestamp changed");
            assert!(img[2] == status_byte(ext), "C28: market status not preserved");
            match lut {
                None => {
                    assert!(img[1] == 0b001, "C28: flags without last-update tracking must be (Open)");
                    assert!(fp.last_update_diff_secs().is_none());
                }
                Some(l) => {
                    let diff_ns = if obs_ns >= l as u128 { obs_ns - l as u128 } else { 0 };
                    // obs < 2^32 s, so the age is below 2^32 s: always representable, always open
                    assert!(img[1] == 0b111, "C28: flags with last-update tracking must be (Open, Enabled, Secs)");
                    match fp.last_update_diff_secs() {
                        Some(secs) => {
                            assert!((secs == 0) == (diff_ns == 0), "C28: last-update age zero-ness wrong");
                            w_age = secs > 0;
                        }
                        None => assert!(false, "C28: tracked last update lost"),
                    }
                }
            }
            kani::cover!(w_age, "tracked last update with a positive age");
            kani::cover!(b.lt(p) && p.lt(a), "report accepted with bid < price < ask");
            kani::cover!(b.le(p) && p.le(a) && !b.lt(a), "report accepted with bid = price = ask");
        }
        Err(_) => {
            assert!(!(sp && sb && sa) || !(b.le(p) && p.le(a)) || late, "C28: well-formed report rejected");
            kani::cover!(sp && sb && sa && a.lt(p), "ask < price rejected");
            kani::cover!(sp && sb && sa && p.lt(b), "price < bid rejected");
            kani::cover!(!sb, "negative bid rejected");
            kani::cover!(!track || late, "late last-update rejected");
        }
    }
}

/// `k = 19`: the ask exceeds `u128::MAX * 10^18`, i.e. it has no u128 representation with a
/// non-negative number of decimals: every report must be rejected (never a panic, never a wrong price).
pub(crate) fn convert_unrepresentable(shape: [L; 3]) {
    let (sp, sb, sa): (bool, bool, bool) = (kani::any(), kani::any(), kani::any());
    let obs: u32 = kani::any();
    let ext = any_ext();
    let ((p, pu), (b, bu), (a, au)) = (any_value(shape), any_value(shape), any_value(shape));
    kani::assume(bound(18).lt(a) && a.le(bound(19)));
    let report = Report::verif_new(obs, None, (sp, pu), (sb, bu), (sa, au), ext);
    let r = PriceFeedPrice::from_chainlink_report(&report);
    assert!(r.is_err(), "C28: a report whose ask has no u128 representation was accepted");
    kani::cover!(sp && sb && sa && b.le(p) && p.le(a), "otherwise well-formed report");
    std::mem::forget(r);
}

/// Exact age of the last update for a concrete number of seconds `s` and EVERY nanosecond offset of
/// that second: `last = obs_ns - delta` with `delta` in `((s-1)*1e9, s*1e9]` (s >= 1) must give age `s`
/// (rounded up, never down); `s = 0`: `last` in `[obs_ns, obs_ns + 1e9)` (up to < 1 s ahead) gives 0.
pub(crate) fn last_update_age_window(s: u32) {
    const NS: u64 = 1_000_000_000;
    let obs: u32 = kani::any();
    let obs_ns = obs as u64 * NS;
    let off: u64 = kani::any();
    kani::assume(off < NS);
    let lut = if s == 0 {
        kani::assume(obs_ns <= u64::MAX - off);
        obs_ns + off
    } else {
        let delta = s as u64 * NS - off; // in ((s-1)*1e9, s*1e9]
        kani::assume(obs_ns >= delta);
        obs_ns - delta
    };
    let v = U192::from_limbs([5, 0, 0]);
    let report = Report::verif_new(obs, Some(lut), (true, v), (true, v), (true, v), None);
    match PriceFeedPrice::from_chainlink_report(&report) {
        Ok(fp) => {
            assert!(fp.last_update_diff_secs() == Some(s), "C28: last-update age mis-rounded");
            let img: [u8; 64] = bytemuck::cast(fp);
            assert!(img[1] == 0b111, "C28: flags with last-update tracking must be (Open, Enabled, Secs)");
        }
        Err(_) => assert!(false, "C28: well-formed report rejected"),
    }
    kani::cover!(off == 0, "whole second");
    kani::cover!(off == NS - 1, "one nanosecond into the second");
}

const TWO: [L; 3] = [L::S(64), L::S(64), L::C(0)];
const THREE: [L; 3] = [L::S(64), L::S(64), L::S(64)];

//@ prop=C28 tier=quick kind=hold
//@ enc=<PriceFeedPrice as FromChainlinkReport>::from_chainlink_report, Report::{non_negative_price,non_negative_bid,non_negative_ask,last_update_timestamp,extended_market_status}, canonical_market_status, PriceFeedPrice::{new,set_flag,set_market_status}, ruint U192 cmp / pow / TryFrom<U192> for u128
//@ bound=divisor exponent 0: bid/price/ask any values below 2^128 (ask <= u128::MAX), any signs, any u32 observation timestamp, any status, no last-update timestamp; unwind 7
//@ stubs=find_divisor_decimals replaced by the constant 0 with ask restricted to exactly the interval on which the real function returns 0 (decided by c26_find_divisor_decimals_exact); ruint::algorithms::div::div replaced by its specification (arbitrary q, r with q*d + r == n, r < d; ruint's division algorithm is trusted); Report built through the cfg(gmsol_verif) hook Report::verif_new (ABI/bigint decoding not executed)
//@ args=--cbmc-args,--unwindset,memcmp.0:26
#[kani::proof]
#[kani::stub(gmsol_utils::price::find_divisor_decimals, k0)]
#[kani::stub(ruint::algorithms::div::div, div_spec)]
#[kani::unwind(7)]
fn c28_convert_k00() {
    convert(0, TWO, false);
}

//@ prop=C28 tier=quick kind=hold
//@ enc=<PriceFeedPrice as FromChainlinkReport>::from_chainlink_report, ruint U192 cmp / pow(10, 1) / TryFrom<U192> for u128
//@ bound=divisor exponent 1: ask any value in (u128::MAX, u128::MAX*10], bid/price any 192-bit values, any signs / timestamp / status, no last-update timestamp; all three results checked to be floor(x / 10) exactly; unwind 7
//@ stubs=find_divisor_decimals replaced by the constant 1 on exactly its interval; ruint::algorithms::div::div replaced by its specification; Report::verif_new hook
//@ args=--cbmc-args,--unwindset,memcmp.0:26
#[kani::proof]
#[kani::stub(gmsol_utils::price::find_divisor_decimals, k1)]
#[kani::stub(ruint::algorithms::div::div, div_spec)]
#[kani::unwind(7)]
fn c28_convert_k01() {
    convert(1, THREE, false);
}

//@ prop=C28 tier=experimental kind=hold
//@ enc=<PriceFeedPrice as FromChainlinkReport>::from_chainlink_report, ruint U192 cmp / pow(10, 18)
//@ bound=divisor exponent 18 (the largest accepted: decimals 0): ask in (u128::MAX*10^17, u128::MAX*10^18], bid/price any 192-bit values; results floor(x / 10^18) exactly; unwind 7. DOES NOT FINISH (600 s, also with only the top limb symbolic): the cost grows steeply with the size of 10^k (k=1: 60 s, k=2: 150 s)
//@ stubs=find_divisor_decimals replaced by the constant 18 on exactly its interval; ruint::algorithms::div::div replaced by its specification; Report::verif_new hook
//@ args=--cbmc-args,--unwindset,memcmp.0:26
#[kani::proof]
#[kani::stub(gmsol_utils::price::find_divisor_decimals, k18)]
#[kani::stub(ruint::algorithms::div::div, div_spec)]
#[kani::unwind(7)]
fn c28_convert_k18() {
    convert(18, THREE, false);
}

//@ prop=C28 tier=quick kind=hold
//@ enc=<PriceFeedPrice as FromChainlinkReport>::from_chainlink_report
//@ bound=divisor exponent 19: ask in (u128::MAX*10^18, u128::MAX*10^19], bid/price any 192-bit values, any signs: always rejected; unwind 7
//@ stubs=find_divisor_decimals replaced by the constant 19 on exactly its interval; ruint::algorithms::div::div replaced by its specification; Report::verif_new hook
//@ args=--cbmc-args,--unwindset,memcmp.0:26
#[kani::proof]
#[kani::stub(gmsol_utils::price::find_divisor_decimals, k19)]
#[kani::stub(ruint::algorithms::div::div, div_spec)]
#[kani::unwind(7)]
fn c28_convert_k19_rejected() {
    convert_unrepresentable(THREE);
}

//@ prop=C28 tier=quick kind=hold
//@ enc=<PriceFeedPrice as FromChainlinkReport>::from_chainlink_report (last-update timestamp handling), PriceFeedPrice::last_update_diff_secs
//@ bound=bid = price = ask = 5 (concrete), any u32 observation timestamp; last update exactly s in {0,1,3600} seconds old up to EVERY nanosecond offset within that second (s = 0 includes up to < 1 s ahead of the observation): age == s; unwind 7
//@ stubs=find_divisor_decimals replaced by the constant 0 (ask = 5); ruint::algorithms::div::div replaced by its specification; Report::verif_new hook
//@ args=--cbmc-args,--unwindset,memcmp.0:26
#[kani::proof]
#[kani::stub(gmsol_utils::price::find_divisor_decimals, k0)]
#[kani::stub(ruint::algorithms::div::div, div_spec)]
#[kani::unwind(7)]
fn c28_last_update_age_windows() {
    last_update_age_window(0);
    last_update_age_window(1);
    last_update_age_window(3600);
}

//@ prop=C28 tier=thorough kind=hold
//@ enc=<PriceFeedPrice as FromChainlinkReport>::from_chainlink_report incl. last-update timestamp handling
//@ bound=divisor exponent 0, values below 2^128, any optional u64 last-update timestamp: flags, rejection of a timestamp >= 1 s ahead, age zero <=> not older than the observation (exact age: c28_last_update_age_windows); unwind 7
//@ stubs=find_divisor_decimals constant 0 on its interval; ruint::algorithms::div::div specification; Report::verif_new hook
//@ args=--cbmc-args,--unwindset,memcmp.0:26
//@ timeout=1800
#[kani::proof]
#[kani::stub(gmsol_utils::price::find_divisor_decimals, k0)]
#[kani::stub(ruint::algorithms::div::div, div_spec)]
#[kani::unwind(7)]
fn c28_convert_k00_tracked() {
    convert(0, TWO, true);
}

//@ prop=C28 tier=thorough kind=hold
//@ enc=<PriceFeedPrice as FromChainlinkReport>::from_chainlink_report incl. last-update timestamp handling
//@ bound=divisor exponent 1, any 192-bit values on the interval, any optional u64 last-update timestamp; unwind 7
//@ stubs=find_divisor_decimals constant 1 on its interval; ruint::algorithms::div::div specification; Report::verif_new hook
//@ args=--cbmc-args,--unwindset,memcmp.0:26
//@ timeout=1800
#[kani::proof]
#[kani::stub(gmsol_utils::price::find_divisor_decimals, k1)]
#[kani::stub(ruint::algorithms::div::div, div_spec)]
#[kani::unwind(7)]
fn c28_convert_k01_tracked() {
    convert(1, THREE, true);
}

//@ prop=C28 tier=thorough kind=hold
//@ enc=<PriceFeedPrice as FromChainlinkReport>::from_chainlink_report, ruint U192 cmp / pow(10, 2)
//@ bound=divisor exponent 2: ask in (u128::MAX*10^1, u128::MAX*10^2], bid/price any 192-bit values; results floor(x / 10^2) exactly; unwind 7
//@ stubs=find_divisor_decimals constant 2 on its interval; ruint::algorithms::div::div specification; Report::verif_new hook
//@ args=--cbmc-args,--unwindset,memcmp.0:26
//@ timeout=1800
#[kani::proof]
#[kani::stub(gmsol_utils::price::find_divisor_decimals, k2)]
#[kani::stub(ruint::algorithms::div::div, div_spec)]
#[kani::unwind(7)]
fn c28_convert_k02() {
    convert(2, THREE, false);
}

//@ prop=C28 tier=thorough kind=hold
//@ enc=<PriceFeedPrice as FromChainlinkReport>::from_chainlink_report, ruint U192 cmp / pow(10, 3)
//@ bound=divisor exponent 3: ask in (u128::MAX*10^2, u128::MAX*10^3], bid/price any 192-bit values; results floor(x / 10^3) exactly; unwind 7
//@ stubs=find_divisor_decimals constant 3 on its interval; ruint::algorithms::div::div specification; Report::verif_new hook
//@ args=--cbmc-args,--unwindset,memcmp.0:26
//@ timeout=1800
#[kani::proof]
#[kani::stub(gmsol_utils::price::find_divisor_decimals, k3)]
#[kani::stub(ruint::algorithms::div::div, div_spec)]
#[kani::unwind(7)]
fn c28_convert_k03() {
    convert(3, THREE, false);
}

//@ prop=C28 tier=experimental kind=hold
//@ enc=<PriceFeedPrice as FromChainlinkReport>::from_chainlink_report, ruint U192 cmp / pow(10, 4)
//@ bound=divisor exponent 4: ask in (u128::MAX*10^3, u128::MAX*10^4], bid/price any 192-bit values; results floor(x / 10^4) exactly; unwind 7
//@ stubs=find_divisor_decimals constant 4 on its interval; ruint::algorithms::div::div specification; Report::verif_new hook
//@ args=--cbmc-args,--unwindset,memcmp.0:26
//@ timeout=1800
#[kani::proof]
#[kani::stub(gmsol_utils::price::find_divisor_decimals, k4)]
#[kani::stub(ruint::algorithms::div::div, div_spec)]
#[kani::unwind(7)]
fn c28_convert_k04() {
    convert(4, THREE, false);
}
