use gmsol_utils::action::ActionState;

fn any_state() -> ActionState {
    let v: u8 = kani::any();
    kani::assume(v <= 2);
    ActionState::try_from(v).unwrap()
}

//@ prop=C23 tier=quick kind=hold
//@ enc=ActionState::{completed, cancelled, is_pending, is_completed, is_cancelled, is_completed_or_cancelled, try_from}
//@ bound=every state value, every sequence of up to 4 transition attempts (terminal states are absorbing, so longer sequences add nothing)
#[kani::proof]
#[kani::unwind(6)]
fn c23_state_machine() {
    let mut s = any_state();
    let mut transitions = 0u8;
    let mut i = 0;
    while i < 4 {
        let pending = matches!(s, ActionState::Pending);
        assert!(s.is_pending() == pending);
        assert!(s.is_completed_or_cancelled() == !pending);
        assert!(s.is_completed() == matches!(s, ActionState::Completed));
        assert!(s.is_cancelled() == matches!(s, ActionState::Cancelled));
        let complete: bool = kani::any();
        let r = if complete { s.completed() } else { s.cancelled() };
        match r {
            Ok(n) => {
                assert!(pending, "C23: transition out of a terminal state");
                assert!(if complete { matches!(n, ActionState::Completed) } else { matches!(n, ActionState::Cancelled) },
                    "C23: transition reached the wrong terminal state");
                s = n;
                transitions += 1;
            }
            Err(_) => assert!(!pending, "C23: pending action could not be completed/cancelled"),
        }
        i += 1;
    }
    kani::cover!(transitions == 1, "one transition");
    assert!(transitions <= 1, "C23: more than one transition out of pending");
    // u8 encoding is stable: 0 pending, 1 completed, 2 cancelled
    assert!(u8::from(ActionState::Pending) == 0 && u8::from(ActionState::Completed) == 1 && u8::from(ActionState::Cancelled) == 2);
    let bad: u8 = kani::any();
    kani::assume(bad > 2);
    assert!(ActionState::try_from(bad).is_err());
}
