//! C22 — market vault solvency, function level: the real `ValidateMarketBalances` code accepts a
//! market state exactly when the recorded token balance (minus the excluded amount) covers the
//! liquidity + swap-impact + claimable-fee amounts and, separately, the total collateral.
//!
//! The subject is the blanket implementation in `states/market/utils.rs` together with the real
//! `Market` pool accessors and `gmsol_model::BaseMarketExt`. It is driven through a thin view type
//! that supplies what the program supplies through `RevertibleMarket`: the market meta and the
//! recorded balances (`Bank::balance`, restated here: long balance for the long token or a pure
//! market, short balance otherwise). `RevertibleMarket` itself needs Anchor account loaders and
//! is outside the claim.
use std::borrow::Borrow;
use std::ops::Deref;

use anchor_lang::prelude::Pubkey;
use gmsol_model::{Balance, BaseMarket, PnlFactorKind, PoolKind};
use gmsol_store::states::market::pool::Pool;
use gmsol_store::states::market::revertible::verif_hooks as rv;
use gmsol_store::states::market::utils::ValidateMarketBalances;
use gmsol_store::states::market::{HasMarketMeta, Market, MarketMeta};

struct View {
    market: Market,
    meta: MarketMeta,
    long_balance: u64,
    short_balance: u64,
}

impl HasMarketMeta for View {
    fn market_meta(&self) -> &MarketMeta {
        &self.meta
    }
}

impl gmsol_model::Bank<Pubkey> for View {
    type Num = u64;
    fn record_transferred_in_by_token<Q: Borrow<Pubkey> + ?Sized>(&mut self, _t: &Q, _a: &u64) -> gmsol_model::Result<()> {
        unreachable!()
    }
    fn record_transferred_out_by_token<Q: Borrow<Pubkey> + ?Sized>(&mut self, _t: &Q, _a: &u64) -> gmsol_model::Result<()> {
        unreachable!()
    }
    fn balance<Q: Borrow<Pubkey> + ?Sized>(&self, token: &Q) -> gmsol_model::Result<u64> {
        let is_long = self.meta.to_token_side(token.borrow()).map_err(|_| gmsol_model::Error::InvalidArgument("token"))?;
        Ok(if is_long || self.is_pure() { self.long_balance } else { self.short_balance })
    }
}

impl BaseMarket<20> for View {
    type Num = u128;
    type Signed = i128;
    type Pool = Pool;
    fn liquidity_pool(&self) -> gmsol_model::Result<&Pool> { self.market.liquidity_pool() }
    fn claimable_fee_pool(&self) -> gmsol_model::Result<&Pool> { self.market.claimable_fee_pool() }
    fn swap_impact_pool(&self) -> gmsol_model::Result<&Pool> { self.market.swap_impact_pool() }
    fn open_interest_pool(&self, is_long: bool) -> gmsol_model::Result<&Pool> { self.market.open_interest_pool(is_long) }
    fn open_interest_in_tokens_pool(&self, is_long: bool) -> gmsol_model::Result<&Pool> { self.market.open_interest_in_tokens_pool(is_long) }
    fn collateral_sum_pool(&self, is_long: bool) -> gmsol_model::Result<&Pool> { self.market.collateral_sum_pool(is_long) }
    fn virtual_inventory_for_swaps_pool(&self) -> gmsol_model::Result<Option<impl Deref<Target = Pool>>> { Ok(None::<&Pool>) }
    fn virtual_inventory_for_positions_pool(&self) -> gmsol_model::Result<Option<impl Deref<Target = Pool>>> { Ok(None::<&Pool>) }
    fn usd_to_amount_divisor(&self) -> u128 { self.market.usd_to_amount_divisor() }
    fn max_pool_amount(&self, l: bool) -> gmsol_model::Result<u128> { self.market.max_pool_amount(l) }
    fn pnl_factor_config(&self, k: PnlFactorKind, l: bool) -> gmsol_model::Result<u128> { self.market.pnl_factor_config(k, l) }
    fn reserve_factor(&self) -> gmsol_model::Result<u128> { self.market.reserve_factor() }
    fn open_interest_reserve_factor(&self) -> gmsol_model::Result<u128> { self.market.open_interest_reserve_factor() }
    fn max_open_interest(&self, l: bool) -> gmsol_model::Result<u128> { self.market.max_open_interest(l) }
    fn ignore_open_interest_for_usage_factor(&self) -> gmsol_model::Result<bool> { self.market.ignore_open_interest_for_usage_factor() }
}

const BALANCE_POOLS: [PoolKind; 5] = [
    PoolKind::Primary,
    PoolKind::SwapImpact,
    PoolKind::ClaimableFee,
    PoolKind::CollateralSumForLong,
    PoolKind::CollateralSumForShort,
];

/// (long-side amount, short-side amount) of a stored pool, in exact arithmetic from its raw fields.
fn sides(pure: bool, long_field: u128, short_field: u128) -> (u128, u128) {
    if pure {
        (long_field / 2 + (long_field & 1), long_field / 2)
    } else {
        (long_field, short_field)
    }
}

fn any_view(pure: bool) -> (Box<View>, [(u128, u128); 5], bool) {
    let mut view: Box<View> = Box::new(View {
        market: bytemuck::Zeroable::zeroed(),
        meta: MarketMeta {
            market_token_mint: Pubkey::new_from_array([9; 32]),
            index_token_mint: Pubkey::new_from_array([8; 32]),
            long_token_mint: Pubkey::new_from_array([1; 32]),
            short_token_mint: Pubkey::new_from_array([1; 32]),
        },
        long_balance: kani::any(),
        short_balance: kani::any(),
    });
    let long_mint = Pubkey::new_from_array([1; 32]);
    let short_mint = if pure { long_mint } else { Pubkey::new_from_array([2; 32]) };
    let mut amounts = [(0u128, 0u128); 5];
    let mut i = 0;
    while i < 5 {
        let (l, s): (u128, u128) = (kani::any(), kani::any());
        // a pure pool keeps everything in its first field (representation invariant, see C15)
        let s = if pure { 0 } else { s };
        let ps = rv::raw_pool_storage_mut(&mut view.market, BALANCE_POOLS[i], false).expect("pool storage");
        let w: [u128; 4] = [0, if pure { 1 } else { 0 }, l, s];
        *ps = unsafe { std::mem::transmute::<[u128; 4], gmsol_store::states::PoolStorage>(w) };
        amounts[i] = sides(pure, l, s);
        i += 1;
    }
    view.meta.short_token_mint = short_mint;
    (view, amounts, pure)
}

/// The solvency condition for one token, exactly as the property states it.
fn covered(balance: u64, excluded: u64, min_balance: Option<u128>, collateral: Option<u128>) -> bool {
    let Some(b) = balance.checked_sub(excluded) else { return false };
    let (Some(min_balance), Some(collateral)) = (min_balance, collateral) else { return false };
    (b as u128) >= min_balance && (b as u128) >= collateral
}

fn add3(a: u128, b: u128, c: u128) -> Option<u128> {
    a.checked_add(b)?.checked_add(c)
}

fn balances_validate_exactly_when_covered(pure: bool) {
    let (v, a, pure) = any_view(pure);
    let (ex_long, ex_short): (u64, u64) = (kani::any(), kani::any());
    let r = v.validate_market_balances(ex_long, ex_short);
    let ok = r.is_ok();
    std::mem::forget(r);
    // [0] liquidity, [1] swap impact, [2] claimable fee, [3]/[4] collateral of long/short positions
    let want = if pure {
        // one token: both halves of every pool are backed by the single recorded balance
        let min_balance = add3(a[0].0, a[1].0, a[2].0).and_then(|x| add3(a[0].1, a[1].1, a[2].1).and_then(|y| x.checked_add(y)));
        let collateral = a[3].0.checked_add(a[4].0).and_then(|x| a[3].1.checked_add(a[4].1).and_then(|y| x.checked_add(y)));
        match ex_long.checked_add(ex_short) {
            Some(ex) => covered(v.long_balance, ex, min_balance, collateral),
            None => false,
        }
    } else {
        covered(v.long_balance, ex_long, add3(a[0].0, a[1].0, a[2].0), a[3].0.checked_add(a[4].0))
            && covered(v.short_balance, ex_short, add3(a[0].1, a[1].1, a[2].1), a[3].1.checked_add(a[4].1))
    };
    assert!(ok == want, "C22: balance validation disagrees with the solvency condition");
    kani::cover!(ok && v.long_balance > 0);
}

//@ prop=C22 tier=thorough kind=hold
//@ enc=ValidateMarketBalances::{validate_market_balance_for_the_given_token, validate_market_balances, validate_market_balances_excluding_the_given_token_amounts}, BaseMarketExt::{expected_min_token_balance_excluding_collateral_amount_for_one_token_side, total_collateral_amount_for_one_token_side}, impl BaseMarket for Market (pool accessors), Pool::{long_amount, short_amount}, Bank::balance_excluding
//@ bound=none on values: all u128 liquidity / swap-impact / claimable-fee / collateral-sum amounts, all u64 recorded balances and excluded amounts, a non-pure market (two distinct constant mints); unwind 34 (32-byte key compares)
//@ stubs=alloc::fmt::format, sol_log, CoreError::name/Display, u128::_fmt/u64::_fmt empty (error texts are not the subject); Bank::balance restated in the harness view type
//@ args=--default-unwind,34
//@ timeout=1500
#[kani::proof]
#[kani::stub(alloc::fmt::format, crate::stubs::fmt_format)]
#[kani::stub(gmsol_store::CoreError::name, crate::stubs::core_error_name)]
#[kani::stub(<gmsol_store::CoreError as std::fmt::Display>::fmt, crate::stubs::fmt_core_error)]
#[kani::stub(anchor_lang::solana_program::log::sol_log, crate::stubs::sol_log)]
#[kani::stub(u128::_fmt, crate::stubs::u128_fmt)]
#[kani::stub(u64::_fmt, crate::stubs::u64_fmt)]
fn c22_two_token_market_validates_exactly_when_covered() {
    balances_validate_exactly_when_covered(false)
}

//@ prop=C22 tier=experimental kind=hold
//@ enc=ValidateMarketBalances::{validate_market_balance_for_the_given_token, validate_market_balances, validate_market_balances_excluding_the_given_token_amounts}, BaseMarketExt::{expected_min_token_balance_excluding_collateral_amount_for_one_token_side, total_collateral_amount_for_one_token_side}, impl BaseMarket for Market (pool accessors), Pool::{long_amount, short_amount}, Bank::balance_excluding
//@ bound=none on values: all u128 liquidity / swap-impact / claimable-fee / collateral-sum amounts, all u64 recorded balances and excluded amounts, a pure (single-token) market; unwind 34 (32-byte key compares)
//@ stubs=alloc::fmt::format, sol_log, CoreError::name/Display, u128::_fmt/u64::_fmt empty (error texts are not the subject); Bank::balance restated in the harness view type
//@ args=--default-unwind,34
//@ timeout=1500
#[kani::proof]
#[kani::stub(alloc::fmt::format, crate::stubs::fmt_format)]
#[kani::stub(gmsol_store::CoreError::name, crate::stubs::core_error_name)]
#[kani::stub(<gmsol_store::CoreError as std::fmt::Display>::fmt, crate::stubs::fmt_core_error)]
#[kani::stub(anchor_lang::solana_program::log::sol_log, crate::stubs::sol_log)]
#[kani::stub(u128::_fmt, crate::stubs::u128_fmt)]
#[kani::stub(u64::_fmt, crate::stubs::u64_fmt)]
fn c22_single_token_market_validates_exactly_when_covered() {
    balances_validate_exactly_when_covered(true)
}

fn one_token_validates_exactly_when_covered() {
    let (v, a, _) = any_view(false);
    let excluded: u64 = kani::any();
    let long_side: bool = kani::any();
    let token = if long_side { v.meta.long_token_mint } else { v.meta.short_token_mint };
    let r = v.validate_market_balance_for_the_given_token(&token, excluded);
    let ok = r.is_ok();
    std::mem::forget(r);
    let want = if long_side {
        covered(v.long_balance, excluded, add3(a[0].0, a[1].0, a[2].0), a[3].0.checked_add(a[4].0))
    } else {
        covered(v.short_balance, excluded, add3(a[0].1, a[1].1, a[2].1), a[3].1.checked_add(a[4].1))
    };
    assert!(ok == want, "C22: balance validation disagrees with the solvency condition");
    kani::cover!(ok && excluded > 0);
}

//@ prop=C22 tier=quick kind=hold
//@ enc=ValidateMarketBalances::validate_market_balance_for_the_given_token, BaseMarketExt::{expected_min_token_balance_excluding_collateral_amount_for_one_token_side, total_collateral_amount_for_one_token_side}, impl BaseMarket for Market (pool accessors), Pool::{long_amount, short_amount}, Bank::balance_excluding
//@ bound=none on values: all u128 liquidity / swap-impact / claimable-fee / collateral-sum amounts, all u64 recorded balances and excluded amounts, either token of a two-token market (two distinct constant mints); unwind 34
//@ stubs=alloc::fmt::format, sol_log, CoreError::name/Display, u128::_fmt/u64::_fmt empty (error texts are not the subject); Bank::balance restated in the harness view type
//@ args=--default-unwind,34
//@ timeout=1500
#[kani::proof]
#[kani::stub(alloc::fmt::format, crate::stubs::fmt_format)]
#[kani::stub(gmsol_store::CoreError::name, crate::stubs::core_error_name)]
#[kani::stub(<gmsol_store::CoreError as std::fmt::Display>::fmt, crate::stubs::fmt_core_error)]
#[kani::stub(anchor_lang::solana_program::log::sol_log, crate::stubs::sol_log)]
#[kani::stub(u128::_fmt, crate::stubs::u128_fmt)]
#[kani::stub(u64::_fmt, crate::stubs::u64_fmt)]
fn c22_one_token_validates_exactly_when_covered() {
    one_token_validates_exactly_when_covered()
}

//@ prop=C22 tier=experimental kind=hold
//@ enc=same as c22_one_token_validates_exactly_when_covered (solver experiment: minisat)
//@ bound=same
//@ args=--default-unwind,34
//@ timeout=1500
#[kani::proof]
#[kani::solver(minisat)]
#[kani::stub(alloc::fmt::format, crate::stubs::fmt_format)]
#[kani::stub(gmsol_store::CoreError::name, crate::stubs::core_error_name)]
#[kani::stub(<gmsol_store::CoreError as std::fmt::Display>::fmt, crate::stubs::fmt_core_error)]
#[kani::stub(anchor_lang::solana_program::log::sol_log, crate::stubs::sol_log)]
#[kani::stub(u128::_fmt, crate::stubs::u128_fmt)]
#[kani::stub(u64::_fmt, crate::stubs::u64_fmt)]
fn c22_one_token_minisat() {
    one_token_validates_exactly_when_covered()
}
