//! C33 — referral relationships are write-once; a code changes owner only on acceptance.
//!
//! State level: `Referral::{set_referrer, set_code}`, `UserHeader::{unchecked_transfer_code,
//! unchecked_complete_code_transfer}` on arbitrary account images. The self-referral and
//! mutual-referral checks live in the Anchor account constraints / handler and are outside.
use anchor_lang::prelude::Pubkey;
use gmsol_store::states::user::{ReferralCodeV2, UserHeader};
use gmsol_store::verif_hooks as vh;

const UW: usize = std::mem::size_of::<UserHeader>() / 16;
const CW: usize = std::mem::size_of::<ReferralCodeV2>();
const _: () = assert!(std::mem::size_of::<UserHeader>() % 16 == 0);

fn any_user() -> UserHeader {
    let w: [u128; UW] = kani::any();
    unsafe { std::mem::transmute::<[u128; UW], UserHeader>(w) }
}
fn any_code() -> ReferralCodeV2 {
    let w: [u8; CW] = kani::any();
    bytemuck::pod_read_unaligned(&w)
}
fn user_words(u: &UserHeader) -> [u128; UW] {
    unsafe { std::mem::transmute_copy::<UserHeader, [u128; UW]>(u) }
}
fn code_words(c: &ReferralCodeV2) -> [u8; CW] {
    bytemuck::cast(*c)
}
fn same_user(a: &UserHeader, b: &UserHeader) -> bool {
    let (x, y) = (user_words(a), user_words(b));
    let mut i = 0;
    let mut eq = true;
    while i < UW {
        eq &= x[i] == y[i];
        i += 1;
    }
    eq
}
fn same_code(a: &ReferralCodeV2, b: &ReferralCodeV2) -> bool {
    let (x, y) = (code_words(a), code_words(b));
    let mut i = 0;
    let mut eq = true;
    while i < CW {
        eq &= x[i] == y[i];
        i += 1;
    }
    eq
}
fn is_default(k: &Pubkey) -> bool {
    let b = k.to_bytes();
    let mut i = 0;
    let mut z = true;
    while i < 32 {
        z &= b[i] == 0;
        i += 1;
    }
    z
}
fn key_eq(a: &Pubkey, b: &Pubkey) -> bool {
    let (x, y) = (a.to_bytes(), b.to_bytes());
    let mut i = 0;
    let mut eq = true;
    while i < 32 {
        eq &= x[i] == y[i];
        i += 1;
    }
    eq
}

//@ prop=C33 tier=quick kind=hold
//@ enc=Referral::set_referrer, Referral::referrer
//@ bound=none: arbitrary user and referrer-user account images; one step plus an arbitrary second attempt; unwind 200 (covers the byte-wise comparison of the referral-code image) (32-byte key compares, word loops)
//@ stubs=alloc::fmt::format, sol_log, CoreError::name and CoreError Display are empty (error messages are not the subject)
//@ args=--default-unwind,200
#[kani::proof]
#[kani::stub(alloc::fmt::format, crate::stubs::fmt_format)]
#[kani::stub(gmsol_store::CoreError::name, crate::stubs::core_error_name)]
#[kani::stub(<gmsol_store::CoreError as std::fmt::Display>::fmt, crate::stubs::fmt_core_error)]
#[kani::stub(anchor_lang::solana_program::log::sol_log, crate::stubs::sol_log)]
fn c33_referrer_is_write_once() {
    let mut user = any_user();
    let mut referrer = any_user();
    let (u0, r0) = (user, referrer);
    let had_referrer = !is_default(&vh::referral(&u0).referrer().copied().unwrap_or_default());
    let r = vh::set_referrer(&mut user, &mut referrer);
    let ok = r.is_ok();
    std::mem::forget(r);
    if ok {
        // only an unset referrer can be set, and only to a real (non-default) owner
        assert!(!had_referrer, "C33: a referrer was overwritten");
        assert!(!is_default(&vh::user_owner(&r0)));
        assert!(key_eq(vh::referral(&user).referrer().expect("referrer must be set"), &vh::user_owner(&r0)));
        // the only other effect is the referee count of the referrer
        assert!(key_eq(&vh::user_owner(&user), &vh::user_owner(&u0)));
        assert!(vh::referral(&user).code().copied() == vh::referral(&u0).code().copied());
        assert!(vh::referral(&referrer).code().copied() == vh::referral(&r0).code().copied());
        assert!(vh::referral(&referrer).referrer().copied() == vh::referral(&r0).referrer().copied());
        // write-once: any second attempt, with any referrer, fails and changes nothing
        let mut other = any_user();
        let (u1, o1) = (user, other);
        let r2 = vh::set_referrer(&mut user, &mut other);
        assert!(r2.is_err(), "C33: the referrer was set twice");
        std::mem::forget(r2);
        assert!(same_user(&user, &u1) && same_user(&other, &o1), "C33: a rejected set_referrer changed state");
        kani::cover!(true);
    } else {
        assert!(had_referrer || is_default(&vh::user_owner(&r0)), "C33: a valid first referrer was rejected");
        assert!(same_user(&user, &u0) && same_user(&referrer, &r0), "C33: a rejected set_referrer changed state");
        kani::cover!(had_referrer);
        kani::cover!(!had_referrer);
    }
}

//@ prop=C33 tier=quick kind=hold
//@ enc=Referral::set_code, UserHeader::unchecked_transfer_code, UserHeader::unchecked_complete_code_transfer, ReferralCodeV2::set_next_owner
//@ bound=none: arbitrary sender/receiver user images and referral-code image; one transfer step and one acceptance step; unwind 200 (covers the byte-wise comparison of the referral-code image)
//@ stubs=alloc::fmt::format, sol_log, CoreError::name and CoreError Display are empty (error messages are not the subject)
//@ args=--default-unwind,200
#[kani::proof]
#[kani::stub(alloc::fmt::format, crate::stubs::fmt_format)]
#[kani::stub(gmsol_store::CoreError::name, crate::stubs::core_error_name)]
#[kani::stub(<gmsol_store::CoreError as std::fmt::Display>::fmt, crate::stubs::fmt_core_error)]
#[kani::stub(anchor_lang::solana_program::log::sol_log, crate::stubs::sol_log)]
fn c33_code_changes_owner_only_on_acceptance() {
    let mut sender = any_user();
    let mut receiver = any_user();
    let mut code = any_code();
    let (s0, r0, c0) = (sender, receiver, code);
    let step: bool = kani::any();
    if step {
        // proposing a transfer never changes the owner nor any user's code
        let r = vh::transfer_code(&sender, &mut code, &receiver);
        let ok = r.is_ok();
        std::mem::forget(r);
        assert!(key_eq(&code.owner, &c0.owner), "C33: proposing a transfer changed the code owner");
        if ok {
            assert!(key_eq(code.next_owner(), &vh::user_owner(&r0)));
            assert!(is_default(&vh::referral(&r0).code().copied().unwrap_or_default()), "C33: a transfer was proposed to a user that already has a code");
        } else {
            assert!(same_code(&code, &c0));
        }
        kani::cover!(ok);
        kani::cover!(!ok);
    } else {
        let r = vh::complete_code_transfer(&mut sender, &mut code, &mut receiver);
        let ok = r.is_ok();
        std::mem::forget(r);
        if ok {
            // ownership moves only to the proposed next owner, who had no code; the sender gives its code up
            assert!(key_eq(&vh::user_owner(&r0), c0.next_owner()), "C33: a code was accepted by someone who was not the proposed owner");
            assert!(key_eq(&code.owner, &vh::user_owner(&r0)));
            assert!(is_default(&vh::referral(&r0).code().copied().unwrap_or_default()));
            assert!(vh::referral(&receiver).code().copied() == vh::referral(&s0).code().copied());
            assert!(vh::referral(&sender).code().is_none(), "C33: a code ended up with two users");
            assert!(vh::referral(&sender).referrer().copied() == vh::referral(&s0).referrer().copied());
            assert!(vh::referral(&receiver).referrer().copied() == vh::referral(&r0).referrer().copied());
        } else {
            assert!(same_code(&code, &c0) && same_user(&sender, &s0) && same_user(&receiver, &r0), "C33: a rejected acceptance changed state");
        }
        kani::cover!(ok);
        kani::cover!(!ok);
    }
    // set_code: only an unset code can be set
    let mut u = any_user();
    let u0 = u;
    let k = Pubkey::new_from_array(kani::any());
    let r = vh::set_code(&mut u, &k);
    let ok = r.is_ok();
    std::mem::forget(r);
    if ok {
        assert!(vh::referral(&u0).code().is_none());
        assert!(key_eq(&vh::referral(&u).code().copied().unwrap_or_default(), &k));
    } else {
        assert!(vh::referral(&u0).code().is_some());
        assert!(same_user(&u, &u0));
    }
}
