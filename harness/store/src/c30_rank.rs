//! C30 — a user's rank is the number of rank thresholds at or below their GT balance.
//!
//! Kani complement to the MIR→SMT part (`mir2smt/props/C30.py`): the real
//! `GtState::unchecked_update_rank` is *executed* here, so the check is independent of how the
//! function is written (the translator needs a callee model per library routine it meets).
use gmsol_store::states::gt::GtState;
use gmsol_store::states::user::UserHeader;
use gmsol_store::verif_hooks as vh;

const GW: usize = std::mem::size_of::<GtState>() / 16;
const UW: usize = std::mem::size_of::<UserHeader>() / 16;
const _: () = assert!(std::mem::size_of::<GtState>() % 16 == 0 && std::mem::size_of::<UserHeader>() % 16 == 0);

//@ prop=C30 tier=quick kind=hold
//@ enc=GtState::unchecked_update_rank, GtState::ranks
//@ bound=every GT state image whose rank table has max_rank <= 4 strictly increasing thresholds (the table invariant GtState::init establishes; at most 15 in production), every user image (every u64 balance, every stored rank); unwind 8
//@ stubs=alloc::fmt::format and sol_log empty (the rank-change message)
//@ args=--default-unwind,8
#[kani::proof]
#[kani::stub(alloc::fmt::format, crate::stubs::fmt_format)]
#[kani::stub(anchor_lang::solana_program::log::sol_log, crate::stubs::sol_log)]
#[kani::stub(u64::_fmt, crate::stubs::u64_fmt)]
fn c30_rank_is_the_number_of_thresholds_at_or_below_the_balance() {
    // `max_rank` sits right in front of the threshold table (repr(C): `max_rank: u64, ranks: [u64; 15]`);
    // its offset is taken from the real accessor on a zero image, and the invariant max_rank <= 15
    // (here <= 4) is imposed on the arbitrary image before the accessor is used.
    let zero: GtState = bytemuck::Zeroable::zeroed();
    let off = vh::gt_ranks(&zero).as_ptr() as usize - (&zero as *const GtState as usize);
    assert!(off >= 8 && off % 8 == 0 && off + 15 * 8 <= std::mem::size_of::<GtState>());
    let gw: [u128; GW] = kani::any();
    let mut gt: GtState = unsafe { std::mem::transmute::<[u128; GW], GtState>(gw) };
    let max_rank: u64 = kani::any();
    kani::assume(max_rank <= 4);
    unsafe { *((&mut gt as *mut GtState as *mut u8).add(off - 8) as *mut u64) = max_rank };
    let uw: [u128; UW] = kani::any();
    let mut user: UserHeader = unsafe { std::mem::transmute::<[u128; UW], UserHeader>(uw) };
    let ranks = vh::gt_ranks(&gt);
    let n = ranks.len();
    assert!(n as u64 == max_rank);
    let mut sorted = true;
    let mut i = 1;
    while i < 4 {
        if i < n {
            sorted &= ranks[i - 1] < ranks[i];
        }
        i += 1;
    }
    kani::assume(sorted);
    let amount = vh::user_gt_amount(&user);
    let mut want: u8 = 0;
    let mut i = 0;
    while i < 4 {
        if i < n && ranks[i] <= amount {
            want += 1;
        }
        i += 1;
    }
    let before = user;
    gt.verif_update_rank(&mut user);
    assert!(user.gt().rank() == want, "C30: rank is not the number of thresholds at or below the balance");
    assert!(vh::user_gt_amount(&user) == vh::user_gt_amount(&before), "C30: updating the rank changed the balance");
    kani::cover!(n == 4 && want == 4);
    kani::cover!(n >= 2 && amount == ranks[1]);
    kani::cover!(want == 0 && n > 0);
}
