//! A hand-built account (aligned buffer + `AccountInfo`) so that the real `AccountLoader` /
//! `RevertibleMarket` code can run on an arbitrary market image.
use anchor_lang::prelude::*;
use anchor_lang::Discriminator;
use gmsol_store::states::market::Market;

pub const MARKET_SIZE: usize = std::mem::size_of::<Market>();
pub const MARKET_WORDS: usize = MARKET_SIZE / 16;

/// `data` starts 8 bytes into a 16-aligned block, so the account body (after the 8-byte
/// discriminator) is 16-aligned as `bytemuck` requires for `Market`.
#[repr(C, align(16))]
pub struct MarketAccountData {
    _pad: [u8; 8],
    pub disc: [u8; 8],
    pub body: [u128; MARKET_WORDS],
}

impl MarketAccountData {
    pub fn any() -> Box<Self> {
        let mut disc = [0u8; 8];
        disc.copy_from_slice(Market::DISCRIMINATOR);
        Box::new(Self { _pad: [0; 8], disc, body: kani::any() })
    }
    pub fn zeroed() -> Box<Self> {
        let mut disc = [0u8; 8];
        disc.copy_from_slice(Market::DISCRIMINATOR);
        Box::new(Self { _pad: [0; 8], disc, body: [0; MARKET_WORDS] })
    }
    pub fn bytes_mut(&mut self) -> &mut [u8] {
        let p = &mut self.disc as *mut [u8; 8] as *mut u8;
        unsafe { std::slice::from_raw_parts_mut(p, 8 + MARKET_SIZE) }
    }
    pub fn market(&self) -> &Market {
        unsafe { &*(&self.body as *const [u128; MARKET_WORDS] as *const Market) }
    }
    pub fn market_mut(&mut self) -> &mut Market {
        unsafe { &mut *(&mut self.body as *mut [u128; MARKET_WORDS] as *mut Market) }
    }
}
