//! C21 — uncommitted market operations never leak into stored state.
//!
//! The real `RevertibleBuffer` of an in-memory `Market` (arbitrary account image) is driven
//! through the `cfg(gmsol_verif)` entries in `states::market::revertible::verif_hooks`.
//! Representation invariant `inv`: no buffered copy carries a revision above the buffer's
//! (`start_revertible_operation` only increments it, a write stamps the copy with the current
//! one). Every harness is one inductive step from an arbitrary image satisfying `inv`.
use anchor_lang::prelude::*;
use gmsol_model::PoolKind;
use gmsol_store::states::market::revertible::verif_hooks as rv;
use gmsol_store::states::market::pool::Pool;
use gmsol_store::states::market::{Clocks, Market};
use gmsol_store::states::OtherState;


const KINDS: [PoolKind; 16] = [
    PoolKind::Primary,
    PoolKind::SwapImpact,
    PoolKind::ClaimableFee,
    PoolKind::OpenInterestForLong,
    PoolKind::OpenInterestForShort,
    PoolKind::OpenInterestInTokensForLong,
    PoolKind::OpenInterestInTokensForShort,
    PoolKind::PositionImpact,
    PoolKind::BorrowingFactor,
    PoolKind::FundingAmountPerSizeForLong,
    PoolKind::FundingAmountPerSizeForShort,
    PoolKind::ClaimableFundingAmountPerSizeForLong,
    PoolKind::ClaimableFundingAmountPerSizeForShort,
    PoolKind::CollateralSumForLong,
    PoolKind::CollateralSumForShort,
    PoolKind::TotalBorrowing,
];

/// A market whose buffer revision is arbitrary and whose stored and buffered copies of the
/// selected pools (`pools`, indices into `KINDS`), and optionally clocks / other state, are
/// arbitrary; everything else is zero (a zero copy carries revision 0, which `inv` admits).
/// Written field-wise through typed raw accessors: far cheaper for CBMC than reinterpreting an
/// 8 KB symbolic image. The buffer code addresses each pool, the clocks and the other state
/// separately, so the untouched parts being concrete does not restrict the step under test.
fn market_with(pools: &[usize], clocks_and_other: bool) -> Market {
    let mut m: Market = bytemuck::Zeroable::zeroed();
    *rv::raw_buffer_rev_mut(&mut m) = kani::any();
    let mut n = 0;
    while n < pools.len() {
        let mut b = 0;
        while b < 2 {
            let ps = rv::raw_pool_storage_mut(&mut m, KINDS[pools[n]], b == 1).expect("pool storage");
            let w: [u128; 4] = kani::any();
            *ps = unsafe { std::mem::transmute::<[u128; 4], gmsol_store::states::PoolStorage>(w) };
            b += 1;
        }
        n += 1;
    }
    if clocks_and_other {
        let mut b = 0;
        while b < 2 {
            let c: [u64; 10] = kani::any();
            *rv::raw_clocks_mut(&mut m, b == 1) = unsafe { std::mem::transmute::<[u64; 10], Clocks>(c) };
            // OtherState: padding 16, rev u64, trade_count u64, balances 2 x u64, funding factor i128, reserved 256
            let o: [u128; 4] = kani::any();
            let mut ow = [0u128; OTHER_WORDS];
            ow[0] = o[0];
            ow[1] = o[1];
            ow[2] = o[2];
            ow[3] = o[3];
            *rv::raw_other_mut(&mut m, b == 1) = unsafe { std::mem::transmute::<[u128; OTHER_WORDS], OtherState>(ow) };
            b += 1;
        }
    }
    m
}
const OTHER_WORDS: usize = std::mem::size_of::<OtherState>() / 16;
const _: () = assert!(std::mem::size_of::<OtherState>() % 16 == 0 && std::mem::size_of::<gmsol_store::states::PoolStorage>() == 64);
fn addr<T>(r: &T) -> usize {
    r as *const T as usize
}
fn pool_words(p: &Pool) -> [u128; 3] {
    unsafe { std::mem::transmute_copy::<Pool, [u128; 3]>(p) }
}
const _: () = assert!(std::mem::size_of::<Pool>() == 48);
fn same_pool(a: &Pool, b: &Pool) -> bool {
    let (x, y) = (pool_words(a), pool_words(b));
    x[0] == y[0] && x[1] == y[1] && x[2] == y[2]
}

fn inv(m: &Market) -> bool {
    let rev = rv::rev(m);
    let mut ok = rv::clocks_revs(m).1 <= rev && rv::other_revs(m).1 <= rev;
    let mut i = 0;
    while i < 16 {
        ok &= rv::pool_revs(m, KINDS[i]).expect("every pool kind is buffered").1 <= rev;
        i += 1;
    }
    ok
}

fn new_operation_reads_only_stored_state(lo: usize, hi: usize) {
    let mut i = lo;
    while i < hi {
        let mut m = market_with(&[i], i == lo);
        kani::assume(inv(&m));
        kani::assume(rv::rev(&m) < u64::MAX);
        let old_rev = rv::rev(&m);
        rv::start(&mut m);
        assert!(rv::rev(&m) == old_rev + 1);
        // whatever an earlier (committed or abandoned) operation left in the buffer is invisible now
        let seen = rv::pool(&m, KINDS[i]).expect("pool");
        let stored = m.try_pool(KINDS[i]).ok().expect("stored pool");
        assert!(addr(seen) == addr(stored), "C21: a new operation read a pool left behind by an earlier one");
        assert!(addr(rv::clocks(&m)) == addr(rv::storage_clocks(&m)), "C21: a new operation read buffered clocks");
        assert!(addr(rv::other(&m)) == addr(rv::storage_other(&m)), "C21: a new operation read buffered state");
        assert!(inv(&m));
        kani::cover!(old_rev > 0 && i + 1 == hi);
        i += 1;
    }
}


//@ prop=C21 tier=quick kind=hold
//@ enc=RevertibleBuffer::{start_revertible_operation, pool, clocks, other, rev}, Cache::cache_get_with, Pools::get
//@ bound=one step from every state of (buffer revision, stored and buffered copy of the pool under observation, clocks, other state) satisfying the revision invariant with rev < u64::MAX (at u64::MAX the code panics "rev overflow" by design); pool kinds 0..4 of 16 (enumerated); other pools zero; unwind 18
#[kani::proof]
#[kani::unwind(18)]
fn c21_a_new_operation_reads_only_stored_state_00_03() {
    new_operation_reads_only_stored_state(0, 4)
}

//@ prop=C21 tier=thorough kind=hold
//@ enc=RevertibleBuffer::{start_revertible_operation, pool, clocks, other, rev}, Cache::cache_get_with, Pools::get
//@ bound=one step from every state of (buffer revision, stored and buffered copy of the pool under observation, clocks, other state) satisfying the revision invariant with rev < u64::MAX (at u64::MAX the code panics "rev overflow" by design); pool kinds 4..10 of 16 (enumerated); other pools zero; unwind 18
#[kani::proof]
#[kani::unwind(18)]
fn c21_a_new_operation_reads_only_stored_state_04_09() {
    new_operation_reads_only_stored_state(4, 10)
}

//@ prop=C21 tier=thorough kind=hold
//@ enc=RevertibleBuffer::{start_revertible_operation, pool, clocks, other, rev}, Cache::cache_get_with, Pools::get
//@ bound=one step from every state of (buffer revision, stored and buffered copy of the pool under observation, clocks, other state) satisfying the revision invariant with rev < u64::MAX (at u64::MAX the code panics "rev overflow" by design); pool kinds 10..16 of 16 (enumerated); other pools zero; unwind 18
#[kani::proof]
#[kani::unwind(18)]
fn c21_a_new_operation_reads_only_stored_state_10_15() {
    new_operation_reads_only_stored_state(10, 16)
}

fn pool_writes_stay_in_the_buffer(lo: usize, hi: usize) {
    let mut i = lo;
    while i < hi {
        let j = (i + 1) % 16;
        let mut m = market_with(&[i, j], false);
        kani::assume(inv(&m));
        let rev = rv::rev(&m);
        let kind = KINDS[i];
        let was_dirty = rv::pool_revs(&m, kind).unwrap().1 == rev;
        let stored_before = *m.try_pool(kind).ok().unwrap();
        let seen_before = *rv::pool(&m, kind).unwrap();
        let other_seen_before = *rv::pool(&m, KINDS[j]).unwrap();
        let other_stored_before = *m.try_pool(KINDS[j]).ok().unwrap();
        // before the first write of this operation the pool is read from storage
        if !was_dirty {
            assert!(same_pool(&seen_before, &stored_before));
        }
        let w = rv::pool_mut(&mut m, kind).expect("pool_mut");
        let waddr = addr(&*w);
        // the writable copy starts as what the operation could read
        assert!(same_pool(&*w, &seen_before), "C21: the writable copy does not start from the visible value");
        // reads in this operation now see the written copy, storage does not
        assert!(addr(rv::pool(&m, kind).unwrap()) == waddr, "C21: a write is not read back within its operation");
        assert!(waddr != addr(m.try_pool(kind).ok().unwrap()), "C21: a write went straight to storage");
        assert!(same_pool(m.try_pool(kind).ok().unwrap(), &stored_before), "C21: stored pool changed before commit");
        assert!(rv::pool_revs(&m, kind).unwrap().1 == rev);
        assert!(rv::rev(&m) == rev);
        assert!(same_pool(rv::pool(&m, KINDS[j]).unwrap(), &other_seen_before), "C21: writing one pool changed what another reads");
        assert!(same_pool(m.try_pool(KINDS[j]).ok().unwrap(), &other_stored_before));
        assert!(inv(&m));
        kani::cover!(was_dirty && i + 1 == hi);
        kani::cover!(!was_dirty && i + 1 == hi);
        i += 1;
    }
}

//@ prop=C21 tier=experimental kind=hold
//@ enc=RevertibleBuffer::{pool, pool_mut}, Cache::{cache_get_with, cache_get_mut_with, is_dirty, set_rev}, Pools::{get,get_mut}
//@ bound=one step from every state of (buffer revision, stored and buffered copies of the written pool and of one other pool) satisfying the revision invariant, in the middle of an operation (each copy written or not); the written pool kind is enumerated (kinds 0..4 of 16 in this harness), the other pool is its successor in declaration order; remaining state zero; unwind 18
#[kani::proof]
#[kani::unwind(18)]
fn c21_pool_writes_stay_in_the_buffer_kinds_00_03() {
    pool_writes_stay_in_the_buffer(0, 4)
}

//@ prop=C21 tier=experimental kind=hold
//@ enc=RevertibleBuffer::{pool, pool_mut}, Cache::{cache_get_with, cache_get_mut_with, is_dirty, set_rev}, Pools::{get,get_mut}
//@ bound=one step from every state of (buffer revision, stored and buffered copies of the written pool and of one other pool) satisfying the revision invariant, in the middle of an operation (each copy written or not); the written pool kind is enumerated (kinds 4..8 of 16 in this harness), the other pool is its successor in declaration order; remaining state zero; unwind 18
#[kani::proof]
#[kani::unwind(18)]
fn c21_pool_writes_stay_in_the_buffer_kinds_04_07() {
    pool_writes_stay_in_the_buffer(4, 8)
}

//@ prop=C21 tier=experimental kind=hold
//@ enc=RevertibleBuffer::{pool, pool_mut}, Cache::{cache_get_with, cache_get_mut_with, is_dirty, set_rev}, Pools::{get,get_mut}
//@ bound=one step from every state of (buffer revision, stored and buffered copies of the written pool and of one other pool) satisfying the revision invariant, in the middle of an operation (each copy written or not); the written pool kind is enumerated (kinds 8..12 of 16 in this harness), the other pool is its successor in declaration order; remaining state zero; unwind 18
#[kani::proof]
#[kani::unwind(18)]
fn c21_pool_writes_stay_in_the_buffer_kinds_08_11() {
    pool_writes_stay_in_the_buffer(8, 12)
}

//@ prop=C21 tier=experimental kind=hold
//@ enc=RevertibleBuffer::{pool, pool_mut}, Cache::{cache_get_with, cache_get_mut_with, is_dirty, set_rev}, Pools::{get,get_mut}
//@ bound=one step from every state of (buffer revision, stored and buffered copies of the written pool and of one other pool) satisfying the revision invariant, in the middle of an operation (each copy written or not); the written pool kind is enumerated (kinds 12..16 of 16 in this harness), the other pool is its successor in declaration order; remaining state zero; unwind 18
#[kani::proof]
#[kani::unwind(18)]
fn c21_pool_writes_stay_in_the_buffer_kinds_12_15() {
    pool_writes_stay_in_the_buffer(12, 16)
}

fn clocks_words(c: &Clocks) -> [u64; 10] {
    unsafe { std::mem::transmute_copy::<Clocks, [u64; 10]>(c) }
}
const _: () = assert!(std::mem::size_of::<Clocks>() == 80);

//@ prop=C21 tier=quick kind=hold
//@ enc=RevertibleBuffer::{clocks, clocks_mut, other, other_mut}, Cache::{cache_get_with, cache_get_mut_with} for Clocks and OtherState
//@ bound=one step from every market state (all stored and buffered pools, clocks, other state, buffer revision arbitrary; config/meta/reserved bytes zero) satisfying the revision invariant, in the middle of an operation; unwind 18
#[kani::proof]
#[kani::unwind(18)]
fn c21_clock_and_state_writes_stay_in_the_buffer() {
    let mut m = market_with(&[], true);
    kani::assume(inv(&m));
    let rev = rv::rev(&m);
    let stored_clocks = clocks_words(rv::storage_clocks(&m));
    let seen = clocks_words(rv::clocks(&m));
    let stored_balance = (rv::storage_other(&m).long_token_balance_raw(), rv::storage_other(&m).short_token_balance_raw(), rv::storage_other(&m).trade_count());
    let seen_other = (rv::other(&m).long_token_balance_raw(), rv::other(&m).short_token_balance_raw(), rv::other(&m).trade_count());
    let which: bool = kani::any();
    if which {
        let w = rv::clocks_mut(&mut m);
        let waddr = addr(&*w);
        let start = clocks_words(&*w);
        let mut k = 2; // words 0,1 are padding and the revision stamp
        while k < 10 {
            assert!(start[k] == seen[k], "C21: the writable clocks do not start from the visible value");
            k += 1;
        }
        assert!(addr(rv::clocks(&m)) == waddr, "C21: a clock write is not read back within its operation");
        assert!(waddr != addr(rv::storage_clocks(&m)), "C21: a clock write went straight to storage");
        let after = clocks_words(rv::storage_clocks(&m));
        let mut k = 0;
        while k < 10 {
            assert!(after[k] == stored_clocks[k], "C21: stored clocks changed before commit");
            k += 1;
        }
        assert!(rv::clocks_revs(&m).1 == rev);
    } else {
        let w = rv::other_mut(&mut m);
        let waddr = addr(&*w);
        assert!((w.long_token_balance_raw(), w.short_token_balance_raw(), w.trade_count()) == seen_other, "C21: the writable state does not start from the visible value");
        assert!(addr(rv::other(&m)) == waddr, "C21: a state write is not read back within its operation");
        assert!(waddr != addr(rv::storage_other(&m)), "C21: a state write went straight to storage");
        let s = rv::storage_other(&m);
        assert!((s.long_token_balance_raw(), s.short_token_balance_raw(), s.trade_count()) == stored_balance, "C21: stored state changed before commit");
        assert!(rv::other_revs(&m).1 == rev);
    }
    assert!(rv::rev(&m) == rev);
    assert!(inv(&m));
    kani::cover!(which);
    kani::cover!(!which);
}

//@ prop=C21 tier=thorough kind=hold
//@ enc=RevertibleBuffer::{pool, pool_mut}, Cache::{cache_get_with, cache_get_mut_with, is_dirty, set_rev}, Pools::{get,get_mut}
//@ bound=one step from every state of (buffer revision, stored and buffered copy of the written pool) satisfying the revision invariant, in the middle of an operation (copy written or not); the pool kind is arbitrary among the 16 but only the liquidity pool (Primary) is written in this harness (the per-kind variants are kept experimental: they do not finish); remaining state zero; unwind 18
//@ timeout=1500
#[kani::proof]
#[kani::unwind(18)]
fn c21_primary_pool_write_stays_in_the_buffer() {
    let mut m = market_with(&[0], false);
    kani::assume(inv(&m));
    let rev = rv::rev(&m);
    let kind = PoolKind::Primary;
    let stored_before = *m.try_pool(kind).ok().unwrap();
    let seen_before = *rv::pool(&m, kind).unwrap();
    let w = rv::pool_mut(&mut m, kind).expect("pool_mut");
    let waddr = addr(&*w);
    assert!(same_pool(&*w, &seen_before), "C21: the writable copy does not start from the visible value");
    assert!(addr(rv::pool(&m, kind).unwrap()) == waddr, "C21: a write is not read back within its operation");
    assert!(waddr != addr(m.try_pool(kind).ok().unwrap()), "C21: a write went straight to storage");
    assert!(same_pool(m.try_pool(kind).ok().unwrap(), &stored_before), "C21: stored pool changed before commit");
    assert!(rv::pool_revs(&m, kind).unwrap().1 == rev);
    assert!(rv::rev(&m) == rev);
}

//@ prop=C21 tier=quick kind=hold
//@ enc=RevertibleBuffer::{pool, pool_mut}, Cache::{cache_get_with, cache_get_mut_with, is_dirty, set_rev}, Pools::{get,get_mut}
//@ bound=one step from every state of (buffer revision, stored and buffered copies of pool #0 and of its successor in declaration order) satisfying the revision invariant, in the middle of an operation (each copy written or not); remaining state zero; unwind 18
#[kani::proof]
#[kani::unwind(18)]
fn c21_pool_write_stays_in_the_buffer_00_primary() {
    pool_writes_stay_in_the_buffer(0, 1)
}

//@ prop=C21 tier=thorough kind=hold
//@ enc=RevertibleBuffer::{pool, pool_mut}, Cache::{cache_get_with, cache_get_mut_with, is_dirty, set_rev}, Pools::{get,get_mut}
//@ bound=one step from every state of (buffer revision, stored and buffered copies of pool #1 and of its successor in declaration order) satisfying the revision invariant, in the middle of an operation (each copy written or not); remaining state zero; unwind 18
#[kani::proof]
#[kani::unwind(18)]
fn c21_pool_write_stays_in_the_buffer_01_swap_impact() {
    pool_writes_stay_in_the_buffer(1, 2)
}

//@ prop=C21 tier=thorough kind=hold
//@ enc=RevertibleBuffer::{pool, pool_mut}, Cache::{cache_get_with, cache_get_mut_with, is_dirty, set_rev}, Pools::{get,get_mut}
//@ bound=one step from every state of (buffer revision, stored and buffered copies of pool #2 and of its successor in declaration order) satisfying the revision invariant, in the middle of an operation (each copy written or not); remaining state zero; unwind 18
#[kani::proof]
#[kani::unwind(18)]
fn c21_pool_write_stays_in_the_buffer_02_claimable_fee() {
    pool_writes_stay_in_the_buffer(2, 3)
}

//@ prop=C21 tier=thorough kind=hold
//@ enc=RevertibleBuffer::{pool, pool_mut}, Cache::{cache_get_with, cache_get_mut_with, is_dirty, set_rev}, Pools::{get,get_mut}
//@ bound=one step from every state of (buffer revision, stored and buffered copies of pool #3 and of its successor in declaration order) satisfying the revision invariant, in the middle of an operation (each copy written or not); remaining state zero; unwind 18
#[kani::proof]
#[kani::unwind(18)]
fn c21_pool_write_stays_in_the_buffer_03_oi_long() {
    pool_writes_stay_in_the_buffer(3, 4)
}

//@ prop=C21 tier=thorough kind=hold
//@ enc=RevertibleBuffer::{pool, pool_mut}, Cache::{cache_get_with, cache_get_mut_with, is_dirty, set_rev}, Pools::{get,get_mut}
//@ bound=one step from every state of (buffer revision, stored and buffered copies of pool #4 and of its successor in declaration order) satisfying the revision invariant, in the middle of an operation (each copy written or not); remaining state zero; unwind 18
#[kani::proof]
#[kani::unwind(18)]
fn c21_pool_write_stays_in_the_buffer_04_oi_short() {
    pool_writes_stay_in_the_buffer(4, 5)
}

//@ prop=C21 tier=thorough kind=hold
//@ enc=RevertibleBuffer::{pool, pool_mut}, Cache::{cache_get_with, cache_get_mut_with, is_dirty, set_rev}, Pools::{get,get_mut}
//@ bound=one step from every state of (buffer revision, stored and buffered copies of pool #5 and of its successor in declaration order) satisfying the revision invariant, in the middle of an operation (each copy written or not); remaining state zero; unwind 18
#[kani::proof]
#[kani::unwind(18)]
fn c21_pool_write_stays_in_the_buffer_05_oi_tokens_long() {
    pool_writes_stay_in_the_buffer(5, 6)
}

//@ prop=C21 tier=thorough kind=hold
//@ enc=RevertibleBuffer::{pool, pool_mut}, Cache::{cache_get_with, cache_get_mut_with, is_dirty, set_rev}, Pools::{get,get_mut}
//@ bound=one step from every state of (buffer revision, stored and buffered copies of pool #6 and of its successor in declaration order) satisfying the revision invariant, in the middle of an operation (each copy written or not); remaining state zero; unwind 18
#[kani::proof]
#[kani::unwind(18)]
fn c21_pool_write_stays_in_the_buffer_06_oi_tokens_short() {
    pool_writes_stay_in_the_buffer(6, 7)
}

//@ prop=C21 tier=thorough kind=hold
//@ enc=RevertibleBuffer::{pool, pool_mut}, Cache::{cache_get_with, cache_get_mut_with, is_dirty, set_rev}, Pools::{get,get_mut}
//@ bound=one step from every state of (buffer revision, stored and buffered copies of pool #7 and of its successor in declaration order) satisfying the revision invariant, in the middle of an operation (each copy written or not); remaining state zero; unwind 18
#[kani::proof]
#[kani::unwind(18)]
fn c21_pool_write_stays_in_the_buffer_07_position_impact() {
    pool_writes_stay_in_the_buffer(7, 8)
}

//@ prop=C21 tier=thorough kind=hold
//@ enc=RevertibleBuffer::{pool, pool_mut}, Cache::{cache_get_with, cache_get_mut_with, is_dirty, set_rev}, Pools::{get,get_mut}
//@ bound=one step from every state of (buffer revision, stored and buffered copies of pool #8 and of its successor in declaration order) satisfying the revision invariant, in the middle of an operation (each copy written or not); remaining state zero; unwind 18
#[kani::proof]
#[kani::unwind(18)]
fn c21_pool_write_stays_in_the_buffer_08_borrowing_factor() {
    pool_writes_stay_in_the_buffer(8, 9)
}

//@ prop=C21 tier=thorough kind=hold
//@ enc=RevertibleBuffer::{pool, pool_mut}, Cache::{cache_get_with, cache_get_mut_with, is_dirty, set_rev}, Pools::{get,get_mut}
//@ bound=one step from every state of (buffer revision, stored and buffered copies of pool #9 and of its successor in declaration order) satisfying the revision invariant, in the middle of an operation (each copy written or not); remaining state zero; unwind 18
#[kani::proof]
#[kani::unwind(18)]
fn c21_pool_write_stays_in_the_buffer_09_funding_long() {
    pool_writes_stay_in_the_buffer(9, 10)
}

//@ prop=C21 tier=thorough kind=hold
//@ enc=RevertibleBuffer::{pool, pool_mut}, Cache::{cache_get_with, cache_get_mut_with, is_dirty, set_rev}, Pools::{get,get_mut}
//@ bound=one step from every state of (buffer revision, stored and buffered copies of pool #10 and of its successor in declaration order) satisfying the revision invariant, in the middle of an operation (each copy written or not); remaining state zero; unwind 18
#[kani::proof]
#[kani::unwind(18)]
fn c21_pool_write_stays_in_the_buffer_10_funding_short() {
    pool_writes_stay_in_the_buffer(10, 11)
}

//@ prop=C21 tier=thorough kind=hold
//@ enc=RevertibleBuffer::{pool, pool_mut}, Cache::{cache_get_with, cache_get_mut_with, is_dirty, set_rev}, Pools::{get,get_mut}
//@ bound=one step from every state of (buffer revision, stored and buffered copies of pool #11 and of its successor in declaration order) satisfying the revision invariant, in the middle of an operation (each copy written or not); remaining state zero; unwind 18
#[kani::proof]
#[kani::unwind(18)]
fn c21_pool_write_stays_in_the_buffer_11_claimable_funding_long() {
    pool_writes_stay_in_the_buffer(11, 12)
}

//@ prop=C21 tier=thorough kind=hold
//@ enc=RevertibleBuffer::{pool, pool_mut}, Cache::{cache_get_with, cache_get_mut_with, is_dirty, set_rev}, Pools::{get,get_mut}
//@ bound=one step from every state of (buffer revision, stored and buffered copies of pool #12 and of its successor in declaration order) satisfying the revision invariant, in the middle of an operation (each copy written or not); remaining state zero; unwind 18
#[kani::proof]
#[kani::unwind(18)]
fn c21_pool_write_stays_in_the_buffer_12_claimable_funding_short() {
    pool_writes_stay_in_the_buffer(12, 13)
}

//@ prop=C21 tier=quick kind=hold
//@ enc=RevertibleBuffer::{pool, pool_mut}, Cache::{cache_get_with, cache_get_mut_with, is_dirty, set_rev}, Pools::{get,get_mut}
//@ bound=one step from every state of (buffer revision, stored and buffered copies of pool #13 and of its successor in declaration order) satisfying the revision invariant, in the middle of an operation (each copy written or not); remaining state zero; unwind 18
#[kani::proof]
#[kani::unwind(18)]
fn c21_pool_write_stays_in_the_buffer_13_collateral_sum_long() {
    pool_writes_stay_in_the_buffer(13, 14)
}

//@ prop=C21 tier=thorough kind=hold
//@ enc=RevertibleBuffer::{pool, pool_mut}, Cache::{cache_get_with, cache_get_mut_with, is_dirty, set_rev}, Pools::{get,get_mut}
//@ bound=one step from every state of (buffer revision, stored and buffered copies of pool #14 and of its successor in declaration order) satisfying the revision invariant, in the middle of an operation (each copy written or not); remaining state zero; unwind 18
#[kani::proof]
#[kani::unwind(18)]
fn c21_pool_write_stays_in_the_buffer_14_collateral_sum_short() {
    pool_writes_stay_in_the_buffer(14, 15)
}

//@ prop=C21 tier=thorough kind=hold
//@ enc=RevertibleBuffer::{pool, pool_mut}, Cache::{cache_get_with, cache_get_mut_with, is_dirty, set_rev}, Pools::{get,get_mut}
//@ bound=one step from every state of (buffer revision, stored and buffered copies of pool #15 and of its successor in declaration order) satisfying the revision invariant, in the middle of an operation (each copy written or not); remaining state zero; unwind 18
#[kani::proof]
#[kani::unwind(18)]
fn c21_pool_write_stays_in_the_buffer_15_total_borrowing() {
    pool_writes_stay_in_the_buffer(15, 16)
}

/// The same statement at the level the program uses it: two consecutive real `RevertibleMarket`s
/// over one market account (hand-built `AccountInfo` + the real `AccountLoader`); the first
/// writes the liquidity pool and is abandoned (dropped without commit), the second must read the
/// stored value.
//@ prop=C21 tier=experimental kind=hold
//@ enc=RevertibleMarket::new (start of an operation), impl BaseMarket/BaseMarketMut for RevertibleMarket (liquidity_pool, liquidity_pool_mut), RevertibleBuffer::{start_revertible_operation, pool, pool_mut}, AccountLoader::{try_from, load_mut}
//@ bound=a zero market account in which the buffer revision (< u64::MAX - 1) and the stored and buffered liquidity pool copies are arbitrary (revision invariant assumed), an arbitrary i128 delta written by the abandoned operation; virtual inventories absent; unwind 40
//@ stubs=alloc::fmt::format, sol_log, CoreError::name/Display, u128::_fmt/u64::_fmt empty
//@ args=--default-unwind,40
//@ timeout=1500
#[kani::proof]
#[kani::stub(alloc::fmt::format, crate::stubs::fmt_format)]
#[kani::stub(gmsol_store::CoreError::name, crate::stubs::core_error_name)]
#[kani::stub(<gmsol_store::CoreError as std::fmt::Display>::fmt, crate::stubs::fmt_core_error)]
#[kani::stub(anchor_lang::solana_program::log::sol_log, crate::stubs::sol_log)]
#[kani::stub(u128::_fmt, crate::stubs::u128_fmt)]
#[kani::stub(u64::_fmt, crate::stubs::u64_fmt)]
fn c21_an_abandoned_market_operation_is_invisible_to_the_next_one() {
    use anchor_lang::prelude::{AccountInfo, AccountLoader};
    use gmsol_model::{BaseMarket, BaseMarketMut, Pool as _};
    let mut acct = crate::acct::MarketAccountData::zeroed();
    {
        let m = acct.market_mut();
        *rv::raw_buffer_rev_mut(m) = kani::any();
        let mut b = 0;
        while b < 2 {
            let ps = rv::raw_pool_storage_mut(m, PoolKind::Primary, b == 1).expect("pool storage");
            let w: [u128; 4] = kani::any();
            *ps = unsafe { std::mem::transmute::<[u128; 4], gmsol_store::states::PoolStorage>(w) };
            b += 1;
        }
        kani::assume(inv(m));
        kani::assume(rv::rev(m) < u64::MAX - 1);
    }
    let stored = *acct.market().try_pool(PoolKind::Primary).ok().unwrap();
    let key = Pubkey::new_from_array([7; 32]);
    let owner = gmsol_store::ID;
    let mut lamports = 1u64;
    let info = AccountInfo::new(&key, false, true, &mut lamports, acct.bytes_mut(), &owner, false, 0);
    let ekey = Pubkey::new_from_array([9; 32]);
    let mut elamports = 1u64;
    let mut edata: [u8; 0] = [];
    let einfo = AccountInfo::new(&ekey, false, false, &mut elamports, &mut edata[..], &owner, false, 0);
    let loader = AccountLoader::<Market>::try_from(&info).expect("loader");
    let delta: i128 = kani::any();
    let mut wrote = false;
    {
        // operation 1: reads the stored pool, writes, and is abandoned
        let mut op1 = gmsol_store::verif_hooks::revertible_market(&loader, &einfo, 255).expect("operation 1");
        assert!(same_pool(op1.liquidity_pool().unwrap(), &stored), "C21: an operation did not start from stored state");
        if let Ok(p) = op1.liquidity_pool_mut() {
            wrote = p.apply_delta_to_long_amount(&delta).is_ok();
        }
    }
    {
        // operation 2 must not see what operation 1 left behind
        let op2 = gmsol_store::verif_hooks::revertible_market(&loader, &einfo, 255).expect("operation 2");
        assert!(same_pool(op2.liquidity_pool().unwrap(), &stored), "C21: an operation read writes left behind by an abandoned one");
    }
    kani::cover!(wrote && delta != 0);
}
