#[kani::proof]
fn smoke() {
    let x: u8 = kani::any();
    assert!(x as u16 <= 255);
}
