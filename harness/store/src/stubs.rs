//! Environment stubs shared by the store harnesses (each use is listed in the harness `stubs=` line).
//!
//! The clock is modelled as a value the harness draws with `kani::any()` and publishes with
//! [`set_clock`]; under Kani `Clock::get` is replaced (`#[kani::stub]`) by [`clock_get`], which
//! returns it. Concrete playback does not apply Kani stubs, so when the driver replays a
//! counterexample natively (`--cfg vh_native`) the same value is served through Solana's own
//! `program_stubs::SyscallStubs` hook instead and the real `Clock::get` runs.
use anchor_lang::prelude::*;

static mut NOW: i64 = 0;
static mut SLOT: u64 = 0;

fn current() -> Clock {
    unsafe {
        Clock {
            slot: SLOT,
            epoch_start_timestamp: 0,
            epoch: 0,
            leader_schedule_epoch: 0,
            unix_timestamp: NOW,
        }
    }
}

/// Publish the (arbitrary) current time and slot.
pub fn set_clock(now: i64, slot: u64) {
    unsafe {
        NOW = now;
        SLOT = slot;
    }
    #[cfg(vh_native)]
    native::install();
}

/// Stub body for `<Clock as Sysvar>::get`.
pub fn clock_get() -> std::result::Result<Clock, ProgramError> {
    Ok(current())
}

/// `msg!`/`sol_log` does nothing.
pub fn sol_log(_m: &str) {}

/// `format!` returns an empty string (error messages are not the subject of any property).
pub fn fmt_format(_a: std::fmt::Arguments<'_>) -> String {
    // not `String::new()`: CBMC sometimes reads the zero capacity of the empty RawVec constant as
    // an unconstrained value and then reports spurious `__rust_dealloc` failures when the string
    // is dropped; a real one-byte allocation avoids that.
    String::with_capacity(1)
}

#[cfg(vh_native)]
mod native {
    use anchor_lang::solana_program::program_stubs::{set_syscall_stubs, SyscallStubs};

    struct Env;
    impl SyscallStubs for Env {
        fn sol_get_clock_sysvar(&self, var_addr: *mut u8) -> u64 {
            unsafe { *(var_addr as *mut anchor_lang::prelude::Clock) = super::current() };
            0
        }
        fn sol_log(&self, _m: &str) {}
    }

    pub fn install() {
        let _ = set_syscall_stubs(Box::new(Env));
    }
}

/// `Display` for integers prints nothing (`require_*!` error values are rendered with
/// `to_string()`; rendering a symbolic u128 is 39 symbolic 128-bit divisions).
pub fn fmt_u128(_v: &u128, _f: &mut std::fmt::Formatter<'_>) -> std::fmt::Result {
    Ok(())
}
pub fn fmt_u64(_v: &u64, _f: &mut std::fmt::Formatter<'_>) -> std::fmt::Result {
    Ok(())
}
pub fn fmt_i64(_v: &i64, _f: &mut std::fmt::Formatter<'_>) -> std::fmt::Result {
    Ok(())
}

/// `CoreError::name()` (the variant name rendered into an anchor `Error`) is empty.
pub fn core_error_name(_e: &gmsol_store::CoreError) -> String {
    String::new()
}
/// `Display` of a `CoreError` prints nothing (error messages are never the subject).
pub fn fmt_core_error(_e: &gmsol_store::CoreError, _f: &mut std::fmt::Formatter<'_>) -> std::fmt::Result {
    Ok(())
}

/// `u128::to_string()` / `u64::to_string()` / `i64::to_string()` (used by `require_gte!`,
/// `require_eq!`, … to render the compared values) bypass `Display::fmt` through a specialised
/// fast path (`_fmt`); rendering a symbolic integer is dozens of symbolic wide divisions. Error
/// texts are never the subject.
pub unsafe fn u128_fmt<'a>(_v: u128, _buf: &'a mut [core::mem::MaybeUninit<u8>]) -> &'a str {
    ""
}
pub unsafe fn u64_fmt<'a>(_v: u64, _buf: &'a mut [core::mem::MaybeUninit<u8>]) -> &'a str {
    ""
}

pub fn general_error_name(_e: &gmsol_utils::GeneralError) -> String {
    String::new()
}
pub fn fmt_general_error(_e: &gmsol_utils::GeneralError, _f: &mut std::fmt::Formatter<'_>) -> std::fmt::Result {
    Ok(())
}

static mut LAST_RESTART_SLOT: u64 = 0;
/// Publish the (arbitrary) last-restart slot reported by the cluster.
pub fn set_last_restart_slot(slot: u64) {
    unsafe { LAST_RESTART_SLOT = slot }
}
/// Stub body for `<LastRestartSlot as Sysvar>::get`.
pub fn last_restart_slot_get() -> std::result::Result<anchor_lang::solana_program::last_restart_slot::LastRestartSlot, anchor_lang::prelude::ProgramError> {
    Ok(anchor_lang::solana_program::last_restart_slot::LastRestartSlot { last_restart_slot: unsafe { LAST_RESTART_SLOT } })
}
