//! C16 — every configuration key reads and writes its own setting (and C40's "same configuration
//! parameters" clause: the SDK `MarketModel` is driven from the same bytes).
//!
//! The market is an arbitrary account image (`bytemuck`), so every statement below holds for any
//! stored configuration, any flags, open and closed markets.
use std::sync::Arc;

use anchor_lang::prelude::Pubkey;
use gmsol_model::{
    BaseMarket, BorrowingFeeMarket, LiquidityMarket, PerpMarket, PnlFactorKind,
    PositionImpactMarket, SwapMarket,
};
use gmsol_store::states::market::config::{MarketConfig, MarketConfigFlag, MarketConfigKey};
use gmsol_store::states::market::Market;
use gmsol_store::states::Store;
use gmsol_store::verif_hooks as vh;
use gmsol_utils::config::{AddressKey, AmountKey, FactorKey};

type SdkMarket = gmsol_programs::gmsol_store::accounts::Market;
type SdkModel = gmsol_programs::model::MarketModel;

pub const MARKET_SIZE: usize = std::mem::size_of::<Market>();
const STORE_SIZE: usize = std::mem::size_of::<Store>();

pub const MARKET_WORDS: usize = MARKET_SIZE / 16;
const STORE_WORDS: usize = STORE_SIZE / 16;
const _: () = assert!(MARKET_SIZE % 16 == 0 && STORE_SIZE % 16 == 0);

/// An arbitrary market account image. The image is drawn as 128-bit words and reinterpreted
/// (the struct is `Pod`, every bit pattern is a valid value): cheaper for CBMC than a byte array.
pub fn any_market() -> Box<Market> {
    let words: [u128; MARKET_WORDS] = kani::any();
    Box::new(unsafe { std::mem::transmute::<[u128; MARKET_WORDS], Market>(words) })
}

pub fn market_word(m: &Market, i: usize) -> u128 {
    let w: &[u128; MARKET_WORDS] = unsafe { &*(m as *const Market as *const [u128; MARKET_WORDS]) };
    w[i]
}

fn any_store() -> Box<Store> {
    let words: [u128; STORE_WORDS] = kani::any();
    Box::new(unsafe { std::mem::transmute::<[u128; STORE_WORDS], Store>(words) })
}

fn store_word(s: &Store, i: usize) -> u128 {
    let w: &[u128; STORE_WORDS] = unsafe { &*(s as *const Store as *const [u128; STORE_WORDS]) };
    w[i]
}

const FLAGS: [MarketConfigFlag; 4] = [
    MarketConfigFlag::SkipBorrowingFeeForSmallerSide,
    MarketConfigFlag::IgnoreOpenInterestForUsageFactor,
    MarketConfigFlag::EnableMarketClosedParams,
    MarketConfigFlag::MarketClosedSkipBorrowingFeeForSmallerSide,
];

fn any_flag() -> MarketConfigFlag {
    let i: usize = kani::any();
    kani::assume(i < 4);
    FLAGS[i]
}

const CONFIG_WORDS: usize = std::mem::size_of::<MarketConfig>() / 16;
const _: () = assert!(std::mem::size_of::<MarketConfig>() % 16 == 0);

fn any_config() -> MarketConfig {
    let words: [u128; CONFIG_WORDS] = kani::any();
    unsafe { std::mem::transmute::<[u128; CONFIG_WORDS], MarketConfig>(words) }
}

fn addr<T>(r: &T) -> usize {
    r as *const T as usize
}

//@ prop=C16 tier=quick kind=hold
//@ enc=MarketConfig::get, MarketConfig::get_mut, MarketConfigKey::try_from(u16)
//@ bound=none: arbitrary config image, every pair of u16 key codes (valid and invalid)
#[kani::proof]
fn c16_config_factor_keys_name_distinct_slots() {
    // get(k) and get_mut(k) name the same 16-byte slot; distinct keys name distinct slots; no
    // slot overlaps the flag word at the head of the struct. Reads and writes through a key
    // therefore observe each other and cannot affect another key or a flag.
    let mut cfg = any_config();
    let base = addr(&cfg);
    let c1: u16 = kani::any();
    let c2: u16 = kani::any();
    match MarketConfigKey::try_from(c1) {
        Ok(k1) => {
            let r = addr(cfg.verif_get(k1).expect("C16: key not readable"));
            let w = addr(&*cfg.verif_get_mut(k1).expect("C16: key not writable"));
            assert!(r == w, "C16: reading and writing a key use different settings");
            assert!(r >= base + 16 && r + 16 <= base + std::mem::size_of::<MarketConfig>() && (r - base) % 16 == 0,
                "C16: a key names storage outside the factor area");
            if let Ok(k2) = MarketConfigKey::try_from(c2) {
                let r2 = addr(cfg.verif_get(k2).unwrap());
                let w2 = addr(&*cfg.verif_get_mut(k2).unwrap());
                assert!((k1 == k2) == (r == r2), "C16: two keys share a setting");
                assert!((k1 == k2) == (w == w2), "C16: two keys share a setting");
            }
            kani::cover!(k1 == MarketConfigKey::MarketClosedBorrowingFeeAboveOptimalUsageFactor);
            kani::cover!(k1 == MarketConfigKey::SwapImpactExponent);
        }
        Err(_) => {
            kani::cover!(true);
        }
    }
}

//@ prop=C16 tier=thorough kind=hold
//@ enc=MarketConfig::get, MarketConfig::get_mut, MarketConfig::flag
//@ bound=none: arbitrary config image, every pair of u16 key codes, every u128 value, all four flags
//@ timeout=1800
#[kani::proof]
fn c16_config_factor_write_is_read_back_and_isolated() {
    let mut cfg = any_config();
    let c1: u16 = kani::any();
    let c2: u16 = kani::any();
    let v: u128 = kani::any();
    let flag = any_flag();
    if let (Ok(k1), Ok(k2)) = (MarketConfigKey::try_from(c1), MarketConfigKey::try_from(c2)) {
        let old2 = cfg.verif_get(k2).copied();
        let oldf = cfg.verif_flag(flag);
        *cfg.verif_get_mut(k1).unwrap() = v;
        assert!(*cfg.verif_get(k1).unwrap() == v, "C16: written value is not read back through the same key");
        if k1 != k2 {
            assert!(cfg.verif_get(k2).copied() == old2, "C16: writing one key changed another key");
        }
        assert!(cfg.verif_flag(flag) == oldf, "C16: writing a factor changed a flag");
        kani::cover!(k1 != k2);
    }
}

//@ prop=C16 tier=quick kind=hold
//@ enc=MarketConfig::flag, MarketConfig::set_flag, MarketConfig::get
//@ bound=none: arbitrary config image, every pair of the four config flags, both values, every u16 key code
#[kani::proof]
fn c16_config_flag_writes_only_its_own_flag() {
    let mut cfg = any_config();
    let before = cfg;
    let f1 = any_flag();
    let f2 = any_flag();
    let value: bool = kani::any();
    let code: u16 = kani::any();
    let old = before.verif_flag(f1);
    let prev = cfg.verif_set_flag(f1, value);
    assert!(prev == old, "C16: set_flag did not report the previous value");
    assert!(cfg.verif_flag(f1) == value, "C16: written flag is not read back");
    if (f1 as u8) != (f2 as u8) {
        assert!(cfg.verif_flag(f2) == before.verif_flag(f2), "C16: writing one flag changed another");
    }
    if let Ok(k) = MarketConfigKey::try_from(code) {
        assert!(cfg.verif_get(k).copied() == before.verif_get(k).copied(), "C16: writing a flag changed a factor");
    }
    kani::cover!(value != old);
}

fn stack_market() -> Market {
    let words: [u128; MARKET_WORDS] = kani::any();
    unsafe { std::mem::transmute::<[u128; MARKET_WORDS], Market>(words) }
}

//@ prop=C16 tier=quick kind=hold
//@ enc=Market::get_config_by_key, Market::get_config_flag_by_key, Market::set_config_flag_by_key
//@ bound=none: arbitrary market account image, every u16 key code, all four flags, both flag values
#[kani::proof]
fn c16_market_reads_and_flag_writes_use_the_config() {
    let mut m = stack_market();
    let code: u16 = kani::any();
    let flag = any_flag();
    let value: bool = kani::any();
    if let Ok(k) = MarketConfigKey::try_from(code) {
        let slot = addr(m.verif_config().verif_get(k).unwrap());
        assert!(addr(m.get_config_by_key(k).expect("C16: key not readable on the market")) == slot);
    }
    assert!(m.get_config_flag_by_key(flag) == m.verif_config().verif_flag(flag));
    let old = m.get_config_flag_by_key(flag);
    let prev = vh::market_set_config_flag(&mut m, flag, value);
    assert!(prev == old);
    assert!(m.verif_config().verif_flag(flag) == value, "C16: the market writes a flag it does not read");
    kani::cover!(value != old);
}

//@ prop=C16 tier=quick kind=hold
//@ enc=Market::get_config_by_key_mut (every key, one at a time), MarketConfig::get_mut
//@ bound=arbitrary market account image; key codes 0..128 enumerated concretely by the harness loop (the config holds at most MAX_MARKET_CONFIG_FACTORS = 128 factors), unwind 130
#[kani::proof]
#[kani::unwind(130)]
fn c16_market_writes_use_the_config_slots() {
    // `get_config_by_key_mut` returns `Result<&mut _, anchor Error>`; with a symbolic key the
    // conditional error construction does not finish in CBMC, so the keys are enumerated here.
    let mut m = stack_market();
    let mut code: u16 = 0;
    let mut seen_last = false;
    while code < 128 {
        if let Ok(k) = MarketConfigKey::try_from(code) {
            let slot = addr(m.verif_config().verif_get(k).unwrap());
            match vh::market_config_mut(&mut m, k) {
                Ok(w) => assert!(addr(&*w) == slot, "C16: the market writes a key to a different setting than it reads"),
                Err(_) => panic!("C16: key not writable on the market"),
            }
            if k == MarketConfigKey::MarketClosedBorrowingFeeAboveOptimalUsageFactor {
                seen_last = true;
            }
        }
        code += 1;
    }
    assert!(seen_last);
}

/// What the market model must observe for `key` (read through the model traits), or `None` when
/// the key is not the active variant under the closed-market switch.
///
/// The table is the documented meaning of each key: which model parameter it names and whether it
/// feeds the long or the short computation.
fn model_read<M>(m: &M, key: MarketConfigKey, use_closed: bool, min_collateral_factor: u128) -> Option<u128>
where
    M: PerpMarket<20, Num = u128, Signed = i128>,
{
    use MarketConfigKey::*;
    let v = match key {
        SwapImpactExponent => *m.swap_impact_params().unwrap().exponent(),
        SwapImpactPositiveFactor => *m.swap_impact_params().unwrap().positive_factor(),
        SwapImpactNegativeFactor => *m.swap_impact_params().unwrap().negative_factor(),
        SwapFeeReceiverFactor => *m.swap_fee_params().unwrap().receiver_factor(),
        SwapFeeFactorForPositiveImpact => *m.swap_fee_params().unwrap().verif_impact_fee_factors().0,
        SwapFeeFactorForNegativeImpact => *m.swap_fee_params().unwrap().verif_impact_fee_factors().1,
        MinPositionSizeUsd => *m.position_params().unwrap().min_position_size_usd(),
        MinCollateralValue => *m.position_params().unwrap().min_collateral_value(),
        MinCollateralFactor => *m.position_params().unwrap().min_collateral_factor(),
        MinCollateralFactorForOpenInterestMultiplierForLong => m.min_collateral_factor_for_open_interest_multiplier(true).unwrap(),
        MinCollateralFactorForOpenInterestMultiplierForShort => m.min_collateral_factor_for_open_interest_multiplier(false).unwrap(),
        MaxPositivePositionImpactFactor => *m.position_params().unwrap().max_positive_position_impact_factor(),
        MaxNegativePositionImpactFactor => *m.position_params().unwrap().max_negative_position_impact_factor(),
        MaxPositionImpactFactorForLiquidations => *m.position_params().unwrap().max_position_impact_factor_for_liquidations(),
        PositionImpactExponent => *m.position_impact_params().unwrap().exponent(),
        PositionImpactPositiveFactor => *m.position_impact_params().unwrap().positive_factor(),
        PositionImpactNegativeFactor => *m.position_impact_params().unwrap().negative_factor(),
        OrderFeeReceiverFactor => *m.order_fee_params().unwrap().receiver_factor(),
        OrderFeeFactorForPositiveImpact => *m.order_fee_params().unwrap().verif_impact_fee_factors().0,
        OrderFeeFactorForNegativeImpact => *m.order_fee_params().unwrap().verif_impact_fee_factors().1,
        LiquidationFeeReceiverFactor => *m.liquidation_fee_params().unwrap().verif_factors().1,
        LiquidationFeeFactor => *m.liquidation_fee_params().unwrap().verif_factors().0,
        PositionImpactDistributeFactor => *m.position_impact_distribution_params().unwrap().distribute_factor(),
        MinPositionImpactPoolAmount => *m.position_impact_distribution_params().unwrap().min_position_impact_pool_amount(),
        BorrowingFeeReceiverFactor => *m.borrowing_fee_params().unwrap().receiver_factor(),
        BorrowingFeeFactorForLong => *m.borrowing_fee_params().unwrap().factor(true),
        BorrowingFeeFactorForShort => *m.borrowing_fee_params().unwrap().factor(false),
        BorrowingFeeExponentForLong => *m.borrowing_fee_params().unwrap().exponent(true),
        BorrowingFeeExponentForShort => *m.borrowing_fee_params().unwrap().exponent(false),
        BorrowingFeeOptimalUsageFactorForLong => *m.borrowing_fee_kink_model_params().unwrap().optimal_usage_factor(true),
        BorrowingFeeOptimalUsageFactorForShort => *m.borrowing_fee_kink_model_params().unwrap().optimal_usage_factor(false),
        BorrowingFeeBaseFactorForLong => {
            if use_closed { return None; }
            *m.borrowing_fee_kink_model_params().unwrap().base_borrowing_factor(true)
        }
        BorrowingFeeBaseFactorForShort => {
            if use_closed { return None; }
            *m.borrowing_fee_kink_model_params().unwrap().base_borrowing_factor(false)
        }
        BorrowingFeeAboveOptimalUsageFactorForLong => {
            if use_closed { return None; }
            *m.borrowing_fee_kink_model_params().unwrap().above_optimal_usage_borrowing_factor(true)
        }
        BorrowingFeeAboveOptimalUsageFactorForShort => {
            if use_closed { return None; }
            *m.borrowing_fee_kink_model_params().unwrap().above_optimal_usage_borrowing_factor(false)
        }
        FundingFeeExponent => *m.funding_fee_params().unwrap().exponent(),
        FundingFeeFactor => *m.funding_fee_params().unwrap().factor(),
        FundingFeeMaxFactorPerSecond => *m.funding_fee_params().unwrap().max_factor_per_second(),
        FundingFeeMinFactorPerSecond => *m.funding_fee_params().unwrap().min_factor_per_second(),
        FundingFeeIncreaseFactorPerSecond => *m.funding_fee_params().unwrap().increase_factor_per_second(),
        FundingFeeDecreaseFactorPerSecond => *m.funding_fee_params().unwrap().decrease_factor_per_second(),
        FundingFeeThresholdForStableFunding => *m.funding_fee_params().unwrap().threshold_for_stable_funding(),
        FundingFeeThresholdForDecreaseFunding => *m.funding_fee_params().unwrap().threshold_for_decrease_funding(),
        ReserveFactor => m.reserve_factor().unwrap(),
        OpenInterestReserveFactor => m.open_interest_reserve_factor().unwrap(),
        MaxPnlFactorForLongDeposit => m.pnl_factor_config(PnlFactorKind::MaxAfterDeposit, true).unwrap(),
        MaxPnlFactorForShortDeposit => m.pnl_factor_config(PnlFactorKind::MaxAfterDeposit, false).unwrap(),
        MaxPnlFactorForLongWithdrawal => m.pnl_factor_config(PnlFactorKind::MaxAfterWithdrawal, true).unwrap(),
        MaxPnlFactorForShortWithdrawal => m.pnl_factor_config(PnlFactorKind::MaxAfterWithdrawal, false).unwrap(),
        MaxPnlFactorForLongTrader => m.pnl_factor_config(PnlFactorKind::MaxForTrader, true).unwrap(),
        MaxPnlFactorForShortTrader => m.pnl_factor_config(PnlFactorKind::MaxForTrader, false).unwrap(),
        MaxPnlFactorForLongAdl => m.pnl_factor_config(PnlFactorKind::ForAdl, true).unwrap(),
        MaxPnlFactorForShortAdl => m.pnl_factor_config(PnlFactorKind::ForAdl, false).unwrap(),
        MinPnlFactorAfterLongAdl => m.pnl_factor_config(PnlFactorKind::MinAfterAdl, true).unwrap(),
        MinPnlFactorAfterShortAdl => m.pnl_factor_config(PnlFactorKind::MinAfterAdl, false).unwrap(),
        MaxPoolAmountForLongToken => m.max_pool_amount(true).unwrap(),
        MaxPoolAmountForShortToken => m.max_pool_amount(false).unwrap(),
        MaxOpenInterestForLong => m.max_open_interest(true).unwrap(),
        MaxOpenInterestForShort => m.max_open_interest(false).unwrap(),
        MinCollateralFactorForLiquidation => {
            if use_closed { return None; }
            let p = m.position_params().unwrap();
            let got = *p.min_collateral_factor_for_liquidation();
            // (a zero setting means "use the min collateral factor": see `expected_for`)
            return Some(got);
        }
        MarketClosedMinCollateralFactorForLiquidation => {
            if !use_closed { return None; }
            let p = m.position_params().unwrap();
            let got = *p.min_collateral_factor_for_liquidation();
            return Some(got);
        }
        MarketClosedBorrowingFeeBaseFactor => {
            if !use_closed { return None; }
            let p = m.borrowing_fee_kink_model_params().unwrap();
            // a closed market uses one setting for both sides
            assert!(*p.base_borrowing_factor(true) == *p.base_borrowing_factor(false));
            *p.base_borrowing_factor(true)
        }
        MarketClosedBorrowingFeeAboveOptimalUsageFactor => {
            if !use_closed { return None; }
            let p = m.borrowing_fee_kink_model_params().unwrap();
            assert!(*p.above_optimal_usage_borrowing_factor(true) == *p.above_optimal_usage_borrowing_factor(false));
            *p.above_optimal_usage_borrowing_factor(true)
        }
        // read outside the model traits (see the dedicated harness)
        MaxPoolValueForDepositForLongToken | MaxPoolValueForDepositForShortToken | MinTokensForFirstDeposit => return None,
        _ => unreachable!("new config key: add the model parameter it names to /verif/harness/store/src/c16_config_keys.rs"),
    };
    Some(v)
}

fn expected_for(key: MarketConfigKey, stored: u128, min_collateral_factor: u128) -> u128 {
    use MarketConfigKey::*;
    match key {
        MinCollateralFactorForLiquidation | MarketClosedMinCollateralFactorForLiquidation => {
            if stored == 0 { min_collateral_factor } else { stored }
        }
        _ => stored,
    }
}

fn market_key_feeds_model(lo: u16, hi: u16) {
    let m = any_market();
    let code: u16 = kani::any();
    kani::assume(code >= lo && code < hi);
    if let Ok(key) = MarketConfigKey::try_from(code) {
        let stored = *m.get_config_by_key(key).unwrap();
        let mcf = *m.get_config_by_key(MarketConfigKey::MinCollateralFactor).unwrap();
        let use_closed = m.is_closed() && m.get_config_flag_by_key(MarketConfigFlag::EnableMarketClosedParams);
        if let Some(got) = model_read(&*m, key, use_closed, mcf) {
            assert!(got == expected_for(key, stored, mcf), "C16: a model parameter does not read the key that names it");
        }
        kani::cover!(use_closed);
        kani::cover!(!use_closed);
    }
}

//@ prop=C16 tier=quick kind=hold
//@ enc=impl SwapMarket/PositionImpactMarket/PerpMarket for Market (states/market/model.rs): swap/position impact params, swap fee params, position params
//@ bound=none: arbitrary market account image (any flags, open and closed), key codes 0..16
#[kani::proof]
fn c16_market_keys_00_15_feed_the_model() {
    market_key_feeds_model(0, 16)
}

//@ prop=C16 tier=quick kind=hold
//@ enc=impl PositionImpactMarket/BorrowingFeeMarket/PerpMarket for Market: position impact, order fee, liquidation fee, distribution, borrowing fee params
//@ bound=none: arbitrary market account image (any flags, open and closed), key codes 16..32
#[kani::proof]
fn c16_market_keys_16_31_feed_the_model() {
    market_key_feeds_model(16, 32)
}

//@ prop=C16 tier=quick kind=hold
//@ enc=impl BorrowingFeeMarket/PerpMarket for Market: kink model params (closed-market switch), funding fee params, reserve factors; MarketConfig::{borrowing_fee_base_factor, borrowing_fee_above_optimal_usage_factor, use_market_closed_params}
//@ bound=none: arbitrary market account image (any flags, open and closed), key codes 32..48
#[kani::proof]
fn c16_market_keys_32_47_feed_the_model() {
    market_key_feeds_model(32, 48)
}

//@ prop=C16 tier=quick kind=hold
//@ enc=impl BaseMarket for Market: pnl_factor_config, max_pool_amount, max_open_interest
//@ bound=none: arbitrary market account image (any flags, open and closed), key codes 48..64
#[kani::proof]
fn c16_market_keys_48_63_feed_the_model() {
    market_key_feeds_model(48, 64)
}

//@ prop=C16 tier=quick kind=hold
//@ enc=impl PerpMarket/BorrowingFeeMarket for Market: min collateral factor for liquidation and the market-closed parameters; MarketConfig::min_collateral_factor_for_liquidation
//@ bound=none: arbitrary market account image (any flags, open and closed), key codes 64 and above (every remaining u16 code)
#[kani::proof]
fn c16_market_keys_64_up_feed_the_model() {
    market_key_feeds_model(64, u16::MAX)
}

//@ prop=C16 tier=quick kind=hold
//@ enc=Market::max_pool_value_for_deposit, BorrowingFeeParams::skip_borrowing_fee_for_smaller_side via Market::borrowing_fee_params, BaseMarket::ignore_open_interest_for_usage_factor for Market, MarketConfig::skip_borrowing_fee_for_smaller_side
//@ bound=none: arbitrary market account image
#[kani::proof]
fn c16_market_flags_and_deposit_caps_feed_the_model() {
    let m = any_market();
    assert!(m.max_pool_value_for_deposit(true).unwrap() == *m.get_config_by_key(MarketConfigKey::MaxPoolValueForDepositForLongToken).unwrap());
    assert!(m.max_pool_value_for_deposit(false).unwrap() == *m.get_config_by_key(MarketConfigKey::MaxPoolValueForDepositForShortToken).unwrap());
    let use_closed = m.is_closed() && m.get_config_flag_by_key(MarketConfigFlag::EnableMarketClosedParams);
    let skip = m.borrowing_fee_params().unwrap().skip_borrowing_fee_for_smaller_side();
    let want = if use_closed {
        m.get_config_flag_by_key(MarketConfigFlag::MarketClosedSkipBorrowingFeeForSmallerSide)
    } else {
        m.get_config_flag_by_key(MarketConfigFlag::SkipBorrowingFeeForSmallerSide)
    };
    assert!(skip == want, "C16: the skip-borrowing-fee flag does not follow the closed-market switch");
    assert!(m.ignore_open_interest_for_usage_factor().unwrap() == m.get_config_flag_by_key(MarketConfigFlag::IgnoreOpenInterestForUsageFactor));
    kani::cover!(use_closed && skip);
    kani::cover!(!use_closed && !skip);
}

/// An arbitrary market account image, decoded by the program and by the SDK from the same words.
pub fn any_market_pair() -> (Box<Market>, SdkModel) {
    assert!(std::mem::size_of::<SdkMarket>() == MARKET_SIZE, "C40: SDK and program market layouts differ in size");
    let words: [u128; MARKET_WORDS] = kani::any();
    let m = Box::new(unsafe { std::mem::transmute::<[u128; MARKET_WORDS], Market>(words) });
    let sdk: SdkMarket = unsafe { std::mem::transmute_copy::<[u128; MARKET_WORDS], SdkMarket>(&words) };
    (m, SdkModel::from_parts(Arc::new(sdk), kani::any()))
}

fn sdk_model_reads_what_the_program_reads(lo: u16, hi: u16) {
    let (m, sdk) = any_market_pair();
    let code: u16 = kani::any();
    kani::assume(code >= lo && code < hi);
    if let Ok(key) = MarketConfigKey::try_from(code) {
        let mcf = *m.get_config_by_key(MarketConfigKey::MinCollateralFactor).unwrap();
        let use_closed = m.is_closed() && m.get_config_flag_by_key(MarketConfigFlag::EnableMarketClosedParams);
        let a = model_read(&*m, key, use_closed, mcf);
        let b = model_read(&sdk, key, use_closed, mcf);
        assert!(a == b, "SDK market model and program market read different values for the same key");
        kani::cover!(a.is_some() && use_closed);
        kani::cover!(a.is_some() && !use_closed);
    }
    std::mem::forget(sdk);
}

fn sdk_model_reads_the_same_flags_and_caps() {
    let (m, sdk) = any_market_pair();
    assert!(sdk.max_pool_value_for_deposit(true).unwrap() == m.max_pool_value_for_deposit(true).unwrap());
    assert!(sdk.max_pool_value_for_deposit(false).unwrap() == m.max_pool_value_for_deposit(false).unwrap());
    assert!(
        sdk.borrowing_fee_params().unwrap().skip_borrowing_fee_for_smaller_side()
            == m.borrowing_fee_params().unwrap().skip_borrowing_fee_for_smaller_side()
    );
    assert!(sdk.ignore_open_interest_for_usage_factor().unwrap() == m.ignore_open_interest_for_usage_factor().unwrap());
    assert!(sdk.is_pure() == m.is_pure());
    kani::cover!(m.is_pure());
    kani::cover!(m.is_closed());
    std::mem::forget(sdk);
}

//@ prop=C40 tier=quick kind=hold
//@ enc=impl SwapMarket/PositionImpactMarket/BorrowingFeeMarket/PerpMarket for gmsol_programs::model::MarketModel vs the program Market impls, on the same words; size_of equality of the two layouts
//@ bound=none: arbitrary market account image, key codes 0..32
#[kani::proof]
fn c40_sdk_model_keys_00_31() {
    sdk_model_reads_what_the_program_reads(0, 32)
}

//@ prop=C40 tier=quick kind=hold
//@ enc=impl BaseMarket/BorrowingFeeMarket/PerpMarket for gmsol_programs::model::MarketModel vs the program Market impls (incl. the closed-market parameter switch), on the same words
//@ bound=none: arbitrary market account image, key codes 32 and above
#[kani::proof]
fn c40_sdk_model_keys_32_up() {
    sdk_model_reads_what_the_program_reads(32, u16::MAX)
}

//@ prop=C40 tier=quick kind=hold
//@ enc=LiquidityMarket::max_pool_value_for_deposit, borrowing_fee_params (skip flag), ignore_open_interest_for_usage_factor, is_pure for the SDK model vs the program Market
//@ bound=none: arbitrary market account image
#[kani::proof]
fn c40_sdk_model_flags_and_caps() {
    sdk_model_reads_the_same_flags_and_caps()
}

const AMOUNT_KEYS: [AmountKey; 9] = [
    AmountKey::ClaimableTimeWindow,
    AmountKey::RecentTimeWindow,
    AmountKey::RequestExpiration,
    AmountKey::OracleMaxAge,
    AmountKey::OracleMaxTimestampRange,
    AmountKey::OracleMaxFutureTimestampExcess,
    AmountKey::AdlPricesMaxStaleness,
    AmountKey::MinPositionAgeForManualClose,
    AmountKey::MarketClosedPricesMaxStaleness,
];
const FACTOR_KEYS: [FactorKey; 3] = [
    FactorKey::OracleRefPriceDeviation,
    FactorKey::OrderFeeDiscountForReferredUser,
    FactorKey::MaxBuilderFeeFactor,
];

//@ prop=C16 tier=quick kind=hold
//@ enc=Amounts::{get,get_mut}, Factors::{get,get_mut}, Addresses::{get,get_mut}, Store::{get_amount_by_key, get_factor_by_key, get_address_by_key, holding}
//@ bound=none: arbitrary store account image, every pair of amount keys / factor keys / the address key
#[kani::proof]
fn c16_store_keys_name_distinct_slots() {
    // Same statement as for the market config: a key is read and written at one address, and
    // distinct keys (of any family) have disjoint storage.
    let mut s = any_store();
    let i: usize = kani::any();
    let j: usize = kani::any();
    let f: usize = kani::any();
    let g: usize = kani::any();
    kani::assume(i < 9 && j < 9 && f < 3 && g < 3);
    let ai = addr(s.get_amount_by_key(AMOUNT_KEYS[i]).expect("C16: amount key not readable"));
    let aj = addr(s.get_amount_by_key(AMOUNT_KEYS[j]).unwrap());
    let fi = addr(s.get_factor_by_key(FACTOR_KEYS[f]).expect("C16: factor key not readable"));
    let fj = addr(s.get_factor_by_key(FACTOR_KEYS[g]).unwrap());
    let h = addr(s.get_address_by_key(AddressKey::Holding).expect("C16: address key not readable"));
    assert!(addr(&*s.verif_amount_mut(AMOUNT_KEYS[i]).expect("C16: amount key not writable")) == ai);
    assert!(addr(&*s.verif_factor_mut(FACTOR_KEYS[f]).expect("C16: factor key not writable")) == fi);
    assert!(addr(&*s.verif_address_mut(AddressKey::Holding).expect("C16: address key not writable")) == h);
    assert!(addr(s.holding()) == h, "C16: the holding address is not what the Holding key stores");
    assert!((i == j) == (ai == aj), "C16: two amount keys share a setting");
    assert!((f == g) == (fi == fj), "C16: two factor keys share a setting");
    // families are disjoint: [a, a+8), [f, f+16), [h, h+32)
    assert!(ai + 8 <= fi || fi + 16 <= ai);
    assert!(ai + 8 <= h || h + 32 <= ai);
    assert!(fi + 16 <= h || h + 32 <= fi);
    kani::cover!(i != j && f != g);
}
