//! Kani harnesses over the real `gmsol-store` program crate and the SDK-side `gmsol-programs`.
#![allow(clippy::all)]
#![allow(unused)]

#[cfg(kani)]
mod smoke;
