//! Kani harnesses over the real `gmsol-store` program crate and the SDK-side `gmsol-programs`.
//! Harness metadata (`//@` lines) is documented in `/verif/harness/utils/src/lib.rs`.
#![allow(clippy::all)]
#![allow(unused)]

#[cfg(kani)]
mod stubs;
#[cfg(kani)]
mod c15_pure_pool;
#[cfg(kani)]
mod c17_defaults;
#[cfg(kani)]
mod c25_price_feed;
#[cfg(kani)]
mod c16_config_keys;
#[cfg(kani)]
mod c33_referral;
#[cfg(kani)]
mod c20_permissions;
#[cfg(kani)]
mod c32_builder_fee;
#[cfg(kani)]
mod acct;
#[cfg(kani)]
mod c21_revertible;
#[cfg(kani)]
mod c22_balances;
#[cfg(kani)]
mod c45_glv;
#[cfg(kani)]
mod c18_roles;
#[cfg(kani)]
mod c30_rank;
