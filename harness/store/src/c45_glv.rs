//! C45 — GLV composition, program-state part: a market is admitted to a GLV only if it is an
//! enabled market of the same store whose long and short tokens are the GLV's.
//!
//! (The balance caps `validate_market_token_balance` and the GLV pricing functions of
//! `gmsol-model` are decided by the MIR→SMT part and the `liq` harness crate.)
use anchor_lang::prelude::Pubkey;
use gmsol_store::states::market::Market;
use gmsol_utils::market::MarketFlag;
use gmsol_store::states::Glv;
use gmsol_store::verif_hooks as vh;

fn key(tag: u8) -> Pubkey {
    let mut b = [0u8; 32];
    b[0] = kani::any();
    b[31] = tag;
    Pubkey::new_from_array(b)
}
fn key_eq(a: &Pubkey, b: &Pubkey) -> bool {
    let (x, y) = (a.to_bytes(), b.to_bytes());
    let mut i = 0;
    let mut eq = true;
    while i < 32 {
        eq &= x[i] == y[i];
        i += 1;
    }
    eq
}
/// Overwrite a key located through a read accessor (the fields are crate-private; the accounts
/// here are harness-owned plain memory): the write goes through the owner's `&mut`.
fn poke<T>(owner: &mut T, slot: usize, value: Pubkey) {
    let base = owner as *mut T as usize;
    assert!(slot >= base && slot + 32 <= base + std::mem::size_of::<T>());
    unsafe { *((owner as *mut T as *mut u8).add(slot - base) as *mut Pubkey) = value }
}
fn at<T>(r: &T) -> usize {
    r as *const T as usize
}

//@ prop=C45 tier=experimental kind=hold
//@ enc=Glv::insert_market, Market::validated_meta, Market::validate_with_options, GlvMarkets::insert_with_options, Glv::{contains, num_markets}
//@ bound=an empty GLV with arbitrary long/short tokens (one symbolic byte each, so equal and different tokens both occur) and an otherwise zero market whose store, mints, enabled and closed flags are arbitrary; unwind 34 (32-byte key compares)
//@ stubs=alloc::fmt::format, sol_log, CoreError::name/Display empty (error texts are not the subject)
//@ args=--default-unwind,34
#[kani::proof]
#[kani::stub(alloc::fmt::format, crate::stubs::fmt_format)]
#[kani::stub(gmsol_store::CoreError::name, crate::stubs::core_error_name)]
#[kani::stub(<gmsol_store::CoreError as std::fmt::Display>::fmt, crate::stubs::fmt_core_error)]
#[kani::stub(anchor_lang::solana_program::log::sol_log, crate::stubs::sol_log)]
fn c45_only_markets_with_the_glv_tokens_are_admitted() {
    let mut glv: Box<Glv> = Box::new(bytemuck::Zeroable::zeroed());
    let (glv_long, glv_short) = (key(1), key(1));
    let (a, b) = (at(glv.long_token()), at(glv.short_token()));
    poke(&mut *glv, a, glv_long);
    poke(&mut *glv, b, glv_short);
    let store = key(2);
    let mut m: Box<Market> = Box::new(bytemuck::Zeroable::zeroed());
    let (m_long, m_short, m_token) = (key(1), key(1), key(3));
    m.store = key(2);
    let (a, b, c) = (at(&m.meta().long_token_mint), at(&m.meta().short_token_mint), at(&m.meta().market_token_mint));
    poke(&mut *m, a, m_long);
    poke(&mut *m, b, m_short);
    poke(&mut *m, c, m_token);
    m.set_enabled(kani::any());
    m.set_flag(MarketFlag::Closed, kani::any());
    let r = vh::glv_insert_market(&mut glv, &store, &m);
    let ok = r.is_ok();
    std::mem::forget(r);
    if ok {
        assert!(key_eq(&m_long, &glv_long) && key_eq(&m_short, &glv_short), "C45: a market with other tokens was admitted to the GLV");
        assert!(key_eq(&m.store, &store), "C45: a market of another store was admitted");
        assert!(m.is_enabled(), "C45: a disabled market was admitted");
        assert!(glv.contains(&m_token) && glv.num_markets() == 1);
    } else {
        assert!(glv.num_markets() == 0 && !glv.contains(&m_token), "C45: a rejected market changed the GLV");
        // rejection has a reason the property names
        assert!(!key_eq(&m_long, &glv_long) || !key_eq(&m_short, &glv_short) || !key_eq(&m.store, &store) || !m.is_enabled() || m.is_closed(),
            "C45: a matching, enabled market of the same store was rejected");
    }
    kani::cover!(ok);
    kani::cover!(!ok && key_eq(&m_long, &glv_long) && !key_eq(&m_short, &glv_short));
}
