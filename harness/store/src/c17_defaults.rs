//! C17 — a newly created market starts from the documented default configuration.
//!
//! The real `Market::init` runs on a zero-initialised account image (what Anchor's `zero`/`init`
//! constraint hands to the instruction) with symbolic bump, store, mints, enabled flag and clock.
//! The expectation is the table below: one documented `DEFAULT_*` constant per config key/flag
//! (the constants are the real ones from `gmsol_store::constants`, referenced by name).
use anchor_lang::prelude::*;
use gmsol_model::{Balance, ClockKind, PoolKind};
use gmsol_store::constants::*;
use gmsol_store::states::market::config::{MarketConfigFlag, MarketConfigKey};
use gmsol_store::states::market::Market;
use gmsol_store::states::Factor;

/// Key -> documented default (`programs/store/src/constants/market.rs`). The `MarketClosed*` keys
/// have no constant of their own; their documented initial value is the open-market default of
/// the setting they shadow.
fn documented_default(key: MarketConfigKey) -> Factor {
    use MarketConfigKey::*;
    match key {
        SwapImpactExponent => DEFAULT_SWAP_IMPACT_EXPONENT,
        SwapImpactPositiveFactor => DEFAULT_SWAP_IMPACT_POSITIVE_FACTOR,
        SwapImpactNegativeFactor => DEFAULT_SWAP_IMPACT_NEGATIVE_FACTOR,
        SwapFeeReceiverFactor => DEFAULT_RECEIVER_FACTOR,
        SwapFeeFactorForPositiveImpact => DEFAULT_SWAP_FEE_FACTOR_FOR_POSITIVE_IMPACT,
        SwapFeeFactorForNegativeImpact => DEFAULT_SWAP_FEE_FACTOR_FOR_NEGATIVE_IMPACT,
        MinPositionSizeUsd => DEFAULT_MIN_POSITION_SIZE_USD,
        MinCollateralValue => DEFAULT_MIN_COLLATERAL_VALUE,
        MinCollateralFactor => DEFAULT_MIN_COLLATERAL_FACTOR,
        MinCollateralFactorForOpenInterestMultiplierForLong => DEFAULT_MIN_COLLATERAL_FACTOR_FOR_OPEN_INTEREST_FOR_LONG,
        MinCollateralFactorForOpenInterestMultiplierForShort => DEFAULT_MIN_COLLATERAL_FACTOR_FOR_OPEN_INTEREST_FOR_SHORT,
        MaxPositivePositionImpactFactor => DEFAULT_MAX_POSITIVE_POSITION_IMPACT_FACTOR,
        MaxNegativePositionImpactFactor => DEFAULT_MAX_NEGATIVE_POSITION_IMPACT_FACTOR,
        MaxPositionImpactFactorForLiquidations => DEFAULT_MAX_POSITION_IMPACT_FACTOR_FOR_LIQUIDATIONS,
        PositionImpactExponent => DEFAULT_POSITION_IMPACT_EXPONENT,
        PositionImpactPositiveFactor => DEFAULT_POSITION_IMPACT_POSITIVE_FACTOR,
        PositionImpactNegativeFactor => DEFAULT_POSITION_IMPACT_NEGATIVE_FACTOR,
        OrderFeeReceiverFactor => DEFAULT_RECEIVER_FACTOR,
        OrderFeeFactorForPositiveImpact => DEFAULT_ORDER_FEE_FACTOR_FOR_POSITIVE_IMPACT,
        OrderFeeFactorForNegativeImpact => DEFAULT_ORDER_FEE_FACTOR_FOR_NEGATIVE_IMPACT,
        LiquidationFeeReceiverFactor => DEFAULT_RECEIVER_FACTOR,
        LiquidationFeeFactor => DEFAULT_LIQUIDATION_FEE_FACTOR,
        PositionImpactDistributeFactor => DEFAULT_POSITION_IMPACT_DISTRIBUTE_FACTOR,
        MinPositionImpactPoolAmount => DEFAULT_MIN_POSITION_IMPACT_POOL_AMOUNT,
        BorrowingFeeReceiverFactor => DEFAULT_RECEIVER_FACTOR,
        BorrowingFeeFactorForLong => DEFAULT_BORROWING_FEE_FACTOR_FOR_LONG,
        BorrowingFeeFactorForShort => DEFAULT_BORROWING_FEE_FACTOR_FOR_SHORT,
        BorrowingFeeExponentForLong => DEFAULT_BORROWING_FEE_EXPONENT_FOR_LONG,
        BorrowingFeeExponentForShort => DEFAULT_BORROWING_FEE_EXPONENT_FOR_SHORT,
        BorrowingFeeOptimalUsageFactorForLong => DEFAULT_BORROWING_FEE_OPTIMAL_USAGE_FACTOR_FOR_LONG,
        BorrowingFeeOptimalUsageFactorForShort => DEFAULT_BORROWING_FEE_OPTIMAL_USAGE_FACTOR_FOR_SHORT,
        BorrowingFeeBaseFactorForLong => DEFAULT_BORROWING_FEE_BASE_FACTOR_FOR_LONG,
        BorrowingFeeBaseFactorForShort => DEFAULT_BORROWING_FEE_BASE_FACTOR_FOR_SHORT,
        BorrowingFeeAboveOptimalUsageFactorForLong => DEFAULT_BORROWING_FEE_ABOVE_OPTIMAL_USAGE_FACTOR_FOR_LONG,
        BorrowingFeeAboveOptimalUsageFactorForShort => DEFAULT_BORROWING_FEE_ABOVE_OPTIMAL_USAGE_FACTOR_FOR_SHORT,
        FundingFeeExponent => DEFAULT_FUNDING_FEE_EXPONENT,
        FundingFeeFactor => DEFAULT_FUNDING_FEE_FACTOR,
        FundingFeeMaxFactorPerSecond => DEFAULT_FUNDING_FEE_MAX_FACTOR_PER_SECOND,
        FundingFeeMinFactorPerSecond => DEFAULT_FUNDING_FEE_MIN_FACTOR_PER_SECOND,
        FundingFeeIncreaseFactorPerSecond => DEFAULT_FUNDING_FEE_INCREASE_FACTOR_PER_SECOND,
        FundingFeeDecreaseFactorPerSecond => DEFAULT_FUNDING_FEE_DECREASE_FACTOR_PER_SECOND,
        FundingFeeThresholdForStableFunding => DEFAULT_FUNDING_FEE_THRESHOLD_FOR_STABLE_FUNDING,
        FundingFeeThresholdForDecreaseFunding => DEFAULT_FUNDING_FEE_THRESHOLD_FOR_DECREASE_FUNDING,
        ReserveFactor => DEFAULT_RESERVE_FACTOR,
        OpenInterestReserveFactor => DEFAULT_OPEN_INTEREST_RESERVE_FACTOR,
        MaxPnlFactorForLongDeposit => DEFAULT_MAX_PNL_FACTOR_FOR_LONG_DEPOSIT,
        MaxPnlFactorForShortDeposit => DEFAULT_MAX_PNL_FACTOR_FOR_SHORT_DEPOSIT,
        MaxPnlFactorForLongWithdrawal => DEFAULT_MAX_PNL_FACTOR_FOR_LONG_WITHDRAWAL,
        MaxPnlFactorForShortWithdrawal => DEFAULT_MAX_PNL_FACTOR_FOR_SHORT_WITHDRAWAL,
        MaxPnlFactorForLongTrader => DEFAULT_MAX_PNL_FACTOR_FOR_LONG_TRADER,
        MaxPnlFactorForShortTrader => DEFAULT_MAX_PNL_FACTOR_FOR_SHORT_TRADER,
        MaxPnlFactorForLongAdl => DEFAULT_MAX_PNL_FACTOR_FOR_LONG_ADL,
        MaxPnlFactorForShortAdl => DEFAULT_MAX_PNL_FACTOR_FOR_SHORT_ADL,
        MinPnlFactorAfterLongAdl => DEFAULT_MIN_PNL_FACTOR_AFTER_LONG_ADL,
        MinPnlFactorAfterShortAdl => DEFAULT_MIN_PNL_FACTOR_AFTER_SHORT_ADL,
        MaxPoolAmountForLongToken => DEFAULT_MAX_POOL_AMOUNT_FOR_LONG_TOKEN,
        MaxPoolAmountForShortToken => DEFAULT_MAX_POOL_AMOUNT_FOR_SHORT_TOKEN,
        MaxPoolValueForDepositForLongToken => DEFAULT_MAX_POOL_VALUE_FOR_DEPOSIT_LONG_TOKEN,
        MaxPoolValueForDepositForShortToken => DEFAULT_MAX_POOL_VALUE_FOR_DEPOSIT_SHORT_TOKEN,
        MaxOpenInterestForLong => DEFAULT_MAX_OPEN_INTEREST_FOR_LONG,
        MaxOpenInterestForShort => DEFAULT_MAX_OPEN_INTEREST_FOR_SHORT,
        MinTokensForFirstDeposit => DEFAULT_MIN_TOKENS_FOR_FIRST_DEPOSIT,
        MinCollateralFactorForLiquidation => DEFAULT_MIN_COLLATERAL_FACTOR_FOR_LIQUIDATION,
        MarketClosedMinCollateralFactorForLiquidation => DEFAULT_MIN_COLLATERAL_FACTOR_FOR_LIQUIDATION,
        MarketClosedBorrowingFeeBaseFactor => DEFAULT_BORROWING_FEE_BASE_FACTOR_FOR_LONG,
        MarketClosedBorrowingFeeAboveOptimalUsageFactor => DEFAULT_BORROWING_FEE_ABOVE_OPTIMAL_USAGE_FACTOR_FOR_LONG,
        _ => unreachable!("new config key: add its documented default to /verif/harness/store/src/c17_defaults.rs"),
    }
}

fn documented_flag_default(flag: MarketConfigFlag) -> bool {
    match flag {
        MarketConfigFlag::SkipBorrowingFeeForSmallerSide => DEFAULT_SKIP_BORROWING_FEE_FOR_SMALLER_SIDE,
        MarketConfigFlag::IgnoreOpenInterestForUsageFactor => DEFAULT_IGNORE_OPEN_INTEREST_FOR_USAGE_FACTOR,
        MarketConfigFlag::EnableMarketClosedParams => false,
        MarketConfigFlag::MarketClosedSkipBorrowingFeeForSmallerSide => DEFAULT_SKIP_BORROWING_FEE_FOR_SMALLER_SIDE,
        _ => unreachable!("new config flag: add its documented default"),
    }
}

fn any_pubkey() -> Pubkey {
    Pubkey::new_from_array(kani::any())
}

/// A freshly initialised market: symbolic store / mints (so both pure and impure), bump, enabled
/// flag; concrete one-character name (name encoding is C35's subject).
fn fresh_market(force_pure: Option<bool>) -> (Box<Market>, bool) {
    let mut m: Box<Market> = Box::new(bytemuck::Zeroable::zeroed());
    let long = any_pubkey();
    let short = match force_pure {
        Some(true) => long,
        _ => any_pubkey(),
    };
    let pure = long == short;
    if let Some(p) = force_pure {
        kani::assume(pure == p);
    }
    crate::stubs::set_clock(kani::any(), kani::any());
    let r = m.init(kani::any(), any_pubkey(), "m", any_pubkey(), any_pubkey(), long, short, kani::any());
    assert!(r.is_ok());
    (m, pure)
}

//@ prop=C17 tier=quick kind=hold
//@ enc=Market::init, MarketConfig::init, MarketConfig::get, Market::get_config_by_key, MarketConfigKey::try_from(u16)
//@ bound=every u16 key code (all config keys and every invalid code), pure and impure markets, any bump/store/mints/enabled flag/clock; unwind 34 (32-byte Pubkey compare)
//@ stubs=Clock::get returns the arbitrary clock drawn by the harness (stubs::set_clock); name fixed to "m"
//@ args=--default-unwind,34
#[kani::proof]
#[kani::stub(<anchor_lang::prelude::Clock as anchor_lang::prelude::SolanaSysvar>::get, crate::stubs::clock_get)]
fn c17_every_key_has_its_documented_default() {
    let (m, _pure) = fresh_market(None);
    let code: u16 = kani::any();
    match MarketConfigKey::try_from(code) {
        Ok(key) => {
            let got = m.get_config_by_key(key);
            assert!(got.is_some());
            assert!(*got.unwrap() == documented_default(key));
            kani::cover!(key == MarketConfigKey::ReserveFactor);
            kani::cover!(key == MarketConfigKey::MarketClosedBorrowingFeeAboveOptimalUsageFactor);
        }
        Err(_) => {
            kani::cover!(true);
        }
    }
}

//@ prop=C17 tier=quick kind=hold
//@ enc=Market::init, MarketConfig::init, MarketConfig::set_flag, Market::get_config_flag_by_key, Market::flag, Market::is_enabled, Market::is_pure, Clocks::init_to_current
//@ bound=all four config flags, all market flags, all five clocks, pure and impure markets, any enabled flag and clock; unwind 34
//@ stubs=Clock::get returns the arbitrary clock drawn by the harness (stubs::set_clock); name fixed to "m"
//@ args=--default-unwind,34
#[kani::proof]
#[kani::stub(<anchor_lang::prelude::Clock as anchor_lang::prelude::SolanaSysvar>::get, crate::stubs::clock_get)]
fn c17_flags_and_market_state_defaults() {
    let (m, pure) = fresh_market(None);
    let flags = [
        MarketConfigFlag::SkipBorrowingFeeForSmallerSide,
        MarketConfigFlag::IgnoreOpenInterestForUsageFactor,
        MarketConfigFlag::EnableMarketClosedParams,
        MarketConfigFlag::MarketClosedSkipBorrowingFeeForSmallerSide,
    ];
    let i: usize = kani::any();
    kani::assume(i < 4);
    assert!(m.get_config_flag_by_key(flags[i]) == documented_flag_default(flags[i]));
    assert!(m.is_pure() == pure);
    assert!(!m.is_adl_enabled(true) && !m.is_adl_enabled(false));
    assert!(!m.is_gt_minting_enabled());
    assert!(!m.is_closed());
    // the three running clocks start together at "now"; ADL clocks start at zero
    let now = m.clock(ClockKind::Funding).unwrap();
    assert!(m.clock(ClockKind::Borrowing) == Some(now));
    assert!(m.clock(ClockKind::PriceImpactDistribution) == Some(now));
    assert!(m.clock(ClockKind::AdlForLong) == Some(0));
    assert!(m.clock(ClockKind::AdlForShort) == Some(0));
    kani::cover!(pure);
    kani::cover!(!pure && m.is_enabled());
}

//@ prop=C17 tier=quick kind=hold
//@ enc=Market::init, Pools::init, Pools::get, Market::pool, Pool::{long_amount, short_amount}
//@ bound=every u8 pool-kind code (all 16 pools and every invalid code), pure and impure markets; unwind 34
//@ stubs=Clock::get returns the arbitrary clock drawn by the harness (stubs::set_clock); name fixed to "m"
//@ args=--default-unwind,34
#[kani::proof]
#[kani::stub(<anchor_lang::prelude::Clock as anchor_lang::prelude::SolanaSysvar>::get, crate::stubs::clock_get)]
fn c17_pools_start_empty_with_the_right_purity() {
    let (m, pure) = fresh_market(None);
    let code: u8 = kani::any();
    if let Ok(kind) = PoolKind::try_from(code) {
        let pool = m.pool(kind).expect("every pool kind is backed by storage");
        assert!(pool.long_amount().unwrap() == 0);
        assert!(pool.short_amount().unwrap() == 0);
        let always_impure = matches!(kind, PoolKind::PositionImpact | PoolKind::BorrowingFactor | PoolKind::TotalBorrowing);
        let flag = bytemuck::bytes_of(&pool)[0] != 0;
        assert!(flag == (pure && !always_impure));
        // everything but the flag byte is zero (padding, both amounts)
        let b = bytemuck::bytes_of(&pool);
        let mut i = 1;
        while i < 16 {
            assert!(b[i] == 0);
            i += 1;
        }
        assert!(crate::c15_pure_pool::u128_at(b, 16) == 0 && crate::c15_pure_pool::u128_at(b, 32) == 0);
        kani::cover!(pure && always_impure);
        kani::cover!(pure && !always_impure);
        kani::cover!(!pure);
    }
}
