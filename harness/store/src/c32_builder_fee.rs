//! C32 — builder fees, Kani side (the full-width arithmetic of the fee helpers is decided by the
//! MIR→SMT engine, see /verif/mir2smt/props/C32.py): the recorded fee accumulates exactly, and
//! the collateral-withdrawal estimate is gated on the fee factor and the swap type.
use gmsol_model::action::decrease_position::DecreasePositionSwapType;
use gmsol_model::price::Price;
use gmsol_store::ops::order::verif_hooks as bf;
use gmsol_store::states::order::Order;
use gmsol_store::verif_hooks as vh;

const OW: usize = std::mem::size_of::<Order>() / 16;
const _: () = assert!(std::mem::size_of::<Order>() % 16 == 0);

fn any_order() -> Order {
    let w: [u128; OW] = kani::any();
    unsafe { std::mem::transmute::<[u128; OW], Order>(w) }
}
fn order_word(o: &Order, i: usize) -> u128 {
    let w: [u128; OW] = unsafe { std::mem::transmute_copy::<Order, [u128; OW]>(o) };
    w[i]
}

//@ prop=C32 tier=quick kind=hold
//@ enc=Order::record_builder_fee, Order::builder_fee_amount
//@ bound=none: arbitrary order account image, every u64 amount, two consecutive recordings, every 16-byte word of the account
//@ stubs=alloc::fmt::format, sol_log, CoreError::name and CoreError Display are empty (error messages are not the subject)
#[kani::proof]
#[kani::stub(alloc::fmt::format, crate::stubs::fmt_format)]
#[kani::stub(gmsol_store::CoreError::name, crate::stubs::core_error_name)]
#[kani::stub(<gmsol_store::CoreError as std::fmt::Display>::fmt, crate::stubs::fmt_core_error)]
#[kani::stub(anchor_lang::solana_program::log::sol_log, crate::stubs::sol_log)]
fn c32_recorded_fee_accumulates_exactly() {
    let mut o = any_order();
    let o0 = o;
    let a: u64 = kani::any();
    let probe: usize = kani::any();
    kani::assume(probe < OW);
    let before = o0.builder_fee_amount();
    let r = vh::record_builder_fee(&mut o, a);
    let ok = r.is_ok();
    std::mem::forget(r);
    match before.checked_add(a) {
        Some(sum) => {
            assert!(ok, "C32: a representable recorded fee was rejected");
            assert!(o.builder_fee_amount() == sum, "C32: the recorded builder fee is not the sum of what was recorded");
        }
        None => {
            assert!(!ok, "C32: an overflowing recorded fee was accepted");
            assert!(o.builder_fee_amount() == before);
        }
    }
    // nothing but the recorded amount changes: restoring it restores the account image
    let mut restored = o;
    restored.verif_restore_builder_fee(before);
    assert!(order_word(&restored, probe) == order_word(&o0, probe), "C32: recording a builder fee changed other order state");
    kani::cover!(ok && a > 0);
    kani::cover!(!ok);
}

//@ prop=C32 tier=experimental kind=hold
//@ enc=estimate_builder_fee_for_collateral_withdrawal, compute_builder_fee_amount (zero-factor and zero-size paths), clamp_builder_fee_amount
//@ bound=every u128 withdrawal amount, factor, available amount and min/max price, all three swap types; every size; the branch "non-zero factor with an allowed swap type" (amount + fee) is not entered: its arithmetic is decided at full width by the MIR->SMT part
//@ stubs=alloc::fmt::format, sol_log, CoreError::name and CoreError Display are empty
#[kani::proof]
#[kani::stub(alloc::fmt::format, crate::stubs::fmt_format)]
#[kani::stub(gmsol_store::CoreError::name, crate::stubs::core_error_name)]
#[kani::stub(<gmsol_store::CoreError as std::fmt::Display>::fmt, crate::stubs::fmt_core_error)]
#[kani::stub(anchor_lang::solana_program::log::sol_log, crate::stubs::sol_log)]
fn c32_withdrawal_estimate_is_gated_on_factor_and_swap_type() {
    let amount: u128 = kani::any();
    let factor: u128 = kani::any();
    let price = Price { min: kani::any(), max: kani::any() };
    let which: u8 = kani::any();
    kani::assume(which < 3);
    let swap = match which {
        0 => DecreasePositionSwapType::NoSwap,
        1 => DecreasePositionSwapType::PnlTokenToCollateralToken,
        _ => DecreasePositionSwapType::CollateralToPnlToken,
    };
    // with a non-zero factor and an allowed swap type the result is `amount + fee`; that arithmetic
    // (256-bit) is the MIR->SMT part's subject and does not finish in CBMC, so it is not entered here
    kani::assume(factor == 0 || which == 2);
    let size: u128 = kani::any();
    let r = bf::estimate_builder_fee_for_collateral_withdrawal(amount, size, factor, &price, swap);
    if factor == 0 {
        // no builder fee: the withdrawal is untouched whatever the swap type, size and price
        assert!(matches!(r, Ok(v) if v == amount));
    } else {
        assert!(r.is_err(), "C32: collateral-to-pnl-token swap accepted with a non-zero builder fee factor");
    }
    kani::cover!(factor != 0 && which == 2);
    kani::cover!(factor == 0 && which == 2);
    std::mem::forget(r);
    let (fee, available): (u128, u128) = (kani::any(), kani::any());
    let c = bf::clamp_builder_fee_amount(fee, available);
    assert!(c <= available && c <= fee && (c == fee || c == available), "C32: clamped fee exceeds what is available");
}
