//! C25 — a custom price feed never moves backwards in time or stores an invalid price.
//!
//! One inductive step of the real `PriceFeed::update` (through the `cfg(gmsol_verif)` hook
//! `verif_update`) from an arbitrary feed account image that satisfies the invariant
//! `min <= price <= max`, with an arbitrary new price, clock and slot. Histories of any length
//! follow by induction: the invariant is re-established and the price timestamp is monotone.
use gmsol_store::states::{PriceFeed, PriceFeedPrice};

const N: usize = std::mem::size_of::<PriceFeed>();

fn any_price() -> PriceFeedPrice {
    bytemuck::pod_read_unaligned(&kani::any::<[u8; 64]>())
}

fn well_formed(p: &PriceFeedPrice) -> bool {
    p.min_price() <= p.price() && p.price() <= p.max_price()
}

fn same_price(a: &PriceFeedPrice, b: &PriceFeedPrice) -> bool {
    let (x, y): ([u64; 8], [u64; 8]) = (bytemuck::pod_read_unaligned(bytemuck::bytes_of(a)), bytemuck::pod_read_unaligned(bytemuck::bytes_of(b)));
    x[0] == y[0] && x[1] == y[1] && x[2] == y[2] && x[3] == y[3] && x[4] == y[4] && x[5] == y[5] && x[6] == y[6] && x[7] == y[7]
}

/// (last_published_at_slot, last_published_at) live right after the four 32-byte keys.
fn published(f: &PriceFeed) -> (u64, i64) {
    let b = bytemuck::bytes_of(f);
    let mut s = [0u8; 8];
    let mut t = [0u8; 8];
    let mut i = 0;
    while i < 8 {
        s[i] = b[144 + i];
        t[i] = b[152 + i];
        i += 1;
    }
    (u64::from_le_bytes(s), i64::from_le_bytes(t))
}

//@ prop=C25 tier=quick kind=hold
//@ enc=PriceFeed::update, PriceFeed::price, PriceFeedPrice::{ts, price, min_price, max_price}, i64::saturating_add_unsigned
//@ bound=none on values: every feed image with a well-formed stored price (all i64 timestamps, u64 slots, u128 prices), every 64-byte new price image, every clock (i64 now, u64 slot), every u64 max_future_excess, both modes; one step (inductive)
//@ stubs=Clock::get returns the arbitrary clock drawn by the harness (stubs::set_clock); the head of the account (bump, provider, keys) and the reserved tail are zero (update does not read them); format!, sol_log, CoreError::name, and Display for CoreError/u128/u64/i64 and the integer to_string fast paths (u128::_fmt, u64::_fmt) have empty bodies (error texts are not the subject)
#[kani::proof]
#[kani::stub(<anchor_lang::prelude::Clock as anchor_lang::prelude::SolanaSysvar>::get, crate::stubs::clock_get)]
#[kani::stub(alloc::fmt::format, crate::stubs::fmt_format)]
#[kani::stub(gmsol_store::CoreError::name, crate::stubs::core_error_name)]
#[kani::stub(<gmsol_store::CoreError as std::fmt::Display>::fmt, crate::stubs::fmt_core_error)]
#[kani::stub(<u128 as std::fmt::Display>::fmt, crate::stubs::fmt_u128)]
#[kani::stub(<u64 as std::fmt::Display>::fmt, crate::stubs::fmt_u64)]
#[kani::stub(<i64 as std::fmt::Display>::fmt, crate::stubs::fmt_i64)]
#[kani::stub(anchor_lang::solana_program::log::sol_log, crate::stubs::sol_log)]
#[kani::stub(u128::_fmt, crate::stubs::u128_fmt)]
#[kani::stub(u64::_fmt, crate::stubs::u64_fmt)]
fn c25_update_step() {
    // pre-state: arbitrary (slot, published_at, price); everything else zero
    let mut img = [0u8; N];
    let tail: [u8; 80] = kani::any();
    let mut i = 0;
    while i < 80 {
        img[144 + i] = tail[i];
        i += 1;
    }
    let mut feed: PriceFeed = bytemuck::pod_read_unaligned(&img);
    let old = *feed.price();
    kani::assume(well_formed(&old));
    let (old_slot, old_pub) = published(&feed);

    let new = any_price();
    let now: i64 = kani::any();
    let slot: u64 = kani::any();
    crate::stubs::set_clock(now, slot);
    let excess: u64 = kani::any();
    let idempotent: bool = kani::any();

    let r = feed.verif_update(&new, excess, idempotent);

    // exact acceptance condition, in wide arithmetic
    let clock_ok = slot >= old_slot && now >= old_pub;
    let horizon = (now as i128 + excess as i128).min(i64::MAX as i128);
    let fresh = new.ts() >= old.ts();
    let accept = clock_ok && fresh && (new.ts() as i128) <= horizon && well_formed(&new);
    let skipped = clock_ok && idempotent && new.ts() < old.ts();

    let cur = *feed.price();
    let (cur_slot, cur_pub) = published(&feed);
    match &r {
        Ok(true) => {
            assert!(accept, "C25: an update that should be rejected was applied");
            assert!(same_price(&cur, &new), "C25: stored price differs from the accepted update");
            assert!(cur_slot == slot && cur_pub == now);
        }
        Ok(false) => {
            assert!(skipped, "C25: update skipped outside idempotent mode / for a newer price");
            assert!(same_price(&cur, &old) && cur_slot == old_slot && cur_pub == old_pub, "C25: a skipped update changed the feed");
        }
        Err(_) => {
            assert!(!accept && !skipped, "C25: a valid update was rejected");
            assert!(same_price(&cur, &old) && cur_slot == old_slot && cur_pub == old_pub, "C25: a rejected update changed the feed");
        }
    }
    // the invariants the property names, whatever happened
    assert!(cur.ts() >= old.ts(), "C25: price timestamp moved backwards");
    assert!(well_formed(&cur), "C25: stored price violates min <= price <= max");
    assert!(cur_slot >= old_slot && cur_pub >= old_pub);
    kani::cover!(matches!(r, Ok(true)) && new.ts() > old.ts());
    kani::cover!(matches!(r, Ok(false)));
    kani::cover!(r.is_err() && clock_ok && fresh && well_formed(&new), "rejected for being too far in the future");
    kani::cover!(r.is_err() && !idempotent && new.ts() < old.ts(), "strict mode rejects an older price");
    std::mem::forget(r);
}
