//! C15 — single-token ("pure") pools account for every token exactly once.
//!
//! The real `gmsol_store::states::market::pool::Pool` (program) and the SDK's
//! `gmsol_programs::gmsol_store::types::Pool` are driven from an arbitrary 48-byte image with the
//! pure flag set and the representation invariant `short_token_amount == 0` (the pool code
//! debug-asserts it; every operation below is shown to preserve it), at full u128 width.
use gmsol_model::{Balance, Delta, Pool as _};

type OnChain = gmsol_store::states::market::pool::Pool;
type Sdk = gmsol_programs::gmsol_store::types::Pool;

pub fn u128_at(bytes: &[u8], off: usize) -> u128 {
    let mut b = [0u8; 16];
    let mut i = 0;
    while i < 16 {
        b[i] = bytes[off + i];
        i += 1;
    }
    u128::from_le_bytes(b)
}

trait PoolImage: gmsol_model::Pool<Num = u128, Signed = i128> + bytemuck::Pod {}
impl PoolImage for OnChain {}
impl PoolImage for Sdk {}

fn mk<P: PoolImage>() -> P {
    let mut img: [u8; 48] = kani::any();
    kani::assume(img[0] != 0); // pure flag (any non-zero byte reads as pure)
    let mut i = 32;
    while i < 48 {
        img[i] = 0; // representation invariant: a pure pool never uses the short field
        i += 1;
    }
    bytemuck::pod_read_unaligned(&img)
}
fn total<P: PoolImage>(p: &P) -> u128 {
    u128_at(bytemuck::bytes_of(p), 16)
}
fn short<P: PoolImage>(p: &P) -> u128 {
    u128_at(bytemuck::bytes_of(p), 32)
}
fn flag<P: PoolImage>(p: &P) -> u8 {
    bytemuck::bytes_of(p)[0]
}
fn same_image<P: PoolImage>(a: &P, b: &P) -> bool {
    flag(a) == flag(b) && total(a) == total(b) && short(a) == short(b)
}
/// exact `t + d` over the integers, `None` when it leaves `0..=u128::MAX`
fn exact_add(t: u128, d: i128) -> Option<u128> {
    if d >= 0 { t.checked_add(d as u128) } else { t.checked_sub(d.unsigned_abs()) }
}

fn views_sum_to_total<P: PoolImage>() {
    let p: P = mk();
    let t = total(&p);
    let l = p.long_amount().unwrap();
    let s = p.short_amount().unwrap();
    // both views are <= 2^127, the sum cannot wrap
    assert!(l.checked_add(s) == Some(t));
    assert!(l == t / 2 + (t & 1));
    assert!(s == t / 2);
    kani::cover!(t == u128::MAX);
    kani::cover!(t & 1 == 0 && t > 0);
}

fn delta_moves_total_exactly<P: PoolImage>() {
    let mut p: P = mk();
    let before = p;
    let t = total(&p);
    let d: i128 = kani::any();
    let on_long: bool = kani::any();
    let r = if on_long { p.apply_delta_to_long_amount(&d) } else { p.apply_delta_to_short_amount(&d) };
    match exact_add(t, d) {
        Some(nt) => {
            assert!(r.is_ok());
            assert!(total(&p) == nt);
            assert!(short(&p) == 0);
            assert!(flag(&p) == flag(&before));
            let l = p.long_amount().unwrap();
            let s = p.short_amount().unwrap();
            assert!(l.checked_add(s) == Some(nt));
        }
        None => {
            assert!(r.is_err());
            assert!(same_image(&p, &before));
        }
    }
    kani::cover!(r.is_ok() && d < 0 && !on_long);
    kani::cover!(r.is_err() && d > 0);
    kani::cover!(r.is_err() && d < 0);
    std::mem::forget(r);
}

fn checked_apply_delta_is_exact<P: PoolImage>() {
    let p: P = mk();
    let t = total(&p);
    let dl: i128 = kani::any();
    let ds: i128 = kani::any();
    let has_l: bool = kani::any();
    let has_s: bool = kani::any();
    let delta = Delta::new(if has_l { Some(&dl) } else { None }, if has_s { Some(&ds) } else { None });
    let r = p.checked_apply_delta(delta);
    // the code applies long first, then short; each intermediate total must be representable
    let mut expect = Some(t);
    if has_l {
        expect = expect.and_then(|t| exact_add(t, dl));
    }
    if has_s {
        expect = expect.and_then(|t| exact_add(t, ds));
    }
    match (expect, &r) {
        (Some(nt), Ok(q)) => {
            assert!(total(q) == nt);
            assert!(short(q) == 0);
            assert!(flag(q) == flag(&p));
        }
        (None, Err(_)) => {}
        _ => assert!(false, "checked_apply_delta success/failure differs from exact arithmetic"),
    }
    // the input pool is never modified (checked_* works on a copy)
    assert!(total(&p) == t);
    kani::cover!(has_l && has_s && expect.is_some());
    kani::cover!(has_l && has_s && expect.is_none());
    std::mem::forget(r);
}

fn cancel_leaves_parity<P: PoolImage>() {
    let p: P = mk();
    let t = total(&p);
    let r = p.checked_cancel_amounts();
    match &r {
        Ok(q) => {
            assert!(total(q) == (t & 1));
            assert!(short(q) == 0);
            assert!(flag(q) == flag(&p));
            assert!(q.long_amount().unwrap() == (t & 1));
            assert!(q.short_amount().unwrap() == 0);
        }
        Err(_) => assert!(false, "netting a pure pool cannot fail"),
    }
    kani::cover!(t == u128::MAX);
    kani::cover!(t == 0);
    std::mem::forget(r);
}

//@ prop=C15 tier=quick kind=hold
//@ enc=program Pool::long_amount, Pool::short_amount (Balance impl)
//@ bound=none: every pure pool image (any non-zero flag byte, any padding, any u128 total)
#[kani::proof]
fn c15_onchain_views_sum_to_total() {
    views_sum_to_total::<OnChain>()
}

//@ prop=C15 tier=quick kind=hold
//@ enc=program Pool::apply_delta_to_long_amount, Pool::apply_delta_to_short_amount
//@ bound=none: every pure pool image, every i128 delta, either side
#[kani::proof]
fn c15_onchain_delta_moves_total_exactly() {
    delta_moves_total_exactly::<OnChain>()
}

//@ prop=C15 tier=quick kind=hold
//@ enc=program Pool::checked_apply_delta
//@ bound=none: every pure pool image, every optional i128 delta on each side
#[kani::proof]
fn c15_onchain_checked_apply_delta() {
    checked_apply_delta_is_exact::<OnChain>()
}

//@ prop=C15 tier=quick kind=hold
//@ enc=program Pool::checked_cancel_amounts (override)
//@ bound=none: every pure pool image
#[kani::proof]
fn c15_onchain_cancel_leaves_parity() {
    cancel_leaves_parity::<OnChain>()
}

//@ prop=C15 tier=quick kind=hold
//@ enc=SDK gmsol_programs Pool::long_amount, Pool::short_amount (Balance impl)
//@ bound=none: every pure pool image
#[kani::proof]
fn c15_sdk_views_sum_to_total() {
    views_sum_to_total::<Sdk>()
}

//@ prop=C15 tier=quick kind=hold
//@ enc=SDK Pool::apply_delta_to_long_amount, Pool::apply_delta_to_short_amount
//@ bound=none: every pure pool image, every i128 delta, either side
#[kani::proof]
fn c15_sdk_delta_moves_total_exactly() {
    delta_moves_total_exactly::<Sdk>()
}

//@ prop=C15 tier=quick kind=hold
//@ enc=SDK Pool::checked_apply_delta
//@ bound=none: every pure pool image, every optional i128 delta on each side
#[kani::proof]
fn c15_sdk_checked_apply_delta() {
    checked_apply_delta_is_exact::<Sdk>()
}

//@ prop=C15 tier=quick kind=hold
//@ enc=SDK Pool::checked_cancel_amounts (gmsol_model default impl through checked_apply_delta, Unsigned::diff, to_opposite_signed)
//@ bound=none: every pure pool image
#[kani::proof]
fn c15_sdk_cancel_leaves_parity() {
    cancel_leaves_parity::<Sdk>()
}
