//! C18 — role membership behaves like a set of grants gated by enabled roles.
//!
//! Bounded history (pattern P3) on the real `RoleStore`, starting from the zero-initialised
//! account, compared after every step with a reference model kept in the harness.
//!
//! Shape restriction forced by a CBMC 6.11 defect (see DESIGN.md §0.1): a `memcmp` through an
//! element reference obtained with a symbolic index into an array nested at a non-zero offset
//! reads wrong bytes, which hits `fixed_map!` lookups in the `members` map as soon as it holds
//! two entries. Mutating operations therefore use ONE address (`X`); a second address (`Y`) is
//! only ever observed as a non-member. The `roles` map sits at offset 0 and is not affected.
use anchor_lang::prelude::Pubkey;
use gmsol_store::states::roles::RoleStore;
use gmsol_store::states::Store;

const NAMES: [&str; 3] = ["A", "B", "C"]; // "C" is never enabled

/// `fixed_map::to_key` (sha256 of the role name) replaced by an injective encoding of short names.
pub fn to_key_stub(key: &str) -> [u8; 32] {
    let b = key.as_bytes();
    let mut out = [0u8; 32];
    let mut i = 0;
    while i < 32 && i < b.len() {
        out[i] = b[i];
        i += 1;
    }
    out[31] = b.len() as u8;
    out
}

#[derive(Clone, Copy)]
struct Model {
    exists: [bool; 2],
    enabled: [bool; 2],
    granted: [bool; 2], // to X
}

impl Model {
    /// Returns whether the operation must succeed, and applies it if so.
    fn apply(&mut self, op: u8, r: usize) -> bool {
        match op {
            // enable
            0 => {
                if r >= 2 { return true_for_new_role_c(); }
                if self.exists[r] {
                    if self.enabled[r] { false } else { self.enabled[r] = true; true }
                } else {
                    self.exists[r] = true;
                    self.enabled[r] = true;
                    true
                }
            }
            // disable: a no-op on an unknown role, an error on a disabled one
            1 => {
                if r >= 2 || !self.exists[r] { return true; }
                if self.enabled[r] { self.enabled[r] = false; true } else { false }
            }
            // grant to X: the role must be enabled and not yet held
            2 => {
                if r >= 2 || !self.exists[r] || !self.enabled[r] || self.granted[r] { return false; }
                self.granted[r] = true;
                true
            }
            // revoke from X: the role must exist (enabled or not) and be held
            _ => {
                if r >= 2 || !self.exists[r] || !self.granted[r] { return false; }
                self.granted[r] = false;
                true
            }
        }
    }
    fn holds(&self, r: usize) -> bool {
        r < 2 && self.exists[r] && self.enabled[r] && self.granted[r]
    }
    fn members(&self) -> usize {
        if self.granted[0] || self.granted[1] { 1 } else { 0 }
    }
}

/// Role "C" is excluded from `enable` (see `step`), so this is never reached.
fn true_for_new_role_c() -> bool {
    unreachable!()
}

fn holds_real(s: &RoleStore, a: &Pubkey, role: &str) -> bool {
    let r = s.has_role(a, role);
    let h = matches!(r, Ok(true));
    std::mem::forget(r);
    h
}

fn step(s: &mut RoleStore, m: &mut Model, x: &Pubkey, y: &Pubkey) {
    let op: u8 = kani::any();
    let r: usize = kani::any();
    kani::assume(op < 4 && r < 3);
    kani::assume(!(op == 0 && r == 2));
    let before = *m;
    let res = match op {
        0 => s.enable_role(NAMES[r]),
        1 => s.disable_role(NAMES[r]),
        2 => s.grant(x, NAMES[r]),
        _ => s.revoke(x, NAMES[r]),
    };
    let ok = res.is_ok();
    std::mem::forget(res);
    let want = m.apply(op, r);
    assert!(ok == want, "C18: an operation succeeded/failed contrary to the grant-set model");
    if !ok {
        // a failed operation has no side effects (observable state below is compared with the
        // unchanged model)
        assert!(m.exists == before.exists && m.enabled == before.enabled && m.granted == before.granted);
    }
    // membership is exactly "enabled and granted and not revoked since"
    assert!(holds_real(s, x, "A") == m.holds(0), "C18: has_role(X, A) disagrees with the model");
    assert!(holds_real(s, x, "B") == m.holds(1), "C18: has_role(X, B) disagrees with the model");
    assert!(!holds_real(s, x, "C"));
    assert!(!holds_real(s, y, "A") && !holds_real(s, y, "B"), "C18: an address that was never granted a role holds one");
    assert!(s.num_members() == m.members(), "C18: membership count disagrees (last revoke must remove the member)");
    assert!(s.num_roles() == (m.exists[0] as usize) + (m.exists[1] as usize));
}

/// Concrete reachable pre-states (built with the real operations, mirrored in the model), from
/// which one arbitrary operation is then taken.
const PREFIXES: [&[(u8, usize)]; 8] = [
    &[],
    &[(0, 0)],
    &[(0, 0), (1, 0)],
    &[(0, 0), (2, 0)],
    &[(0, 0), (2, 0), (1, 0)],
    &[(0, 0), (0, 1), (2, 0)],
    &[(0, 0), (0, 1), (2, 0), (2, 1)],
    &[(0, 0), (0, 1), (2, 0), (2, 1), (1, 1)],
];

fn one_step_after(prefix: usize) {
    let mut s: Box<RoleStore> = Box::new(bytemuck::Zeroable::zeroed());
    let mut m = Model { exists: [false; 2], enabled: [false; 2], granted: [false; 2] };
    let x = Pubkey::new_from_array([1; 32]);
    let y = Pubkey::new_from_array([2; 32]);
    let ops = PREFIXES[prefix];
    let mut i = 0;
    while i < ops.len() {
        let (op, r) = ops[i];
        let res = match op {
            0 => s.enable_role(NAMES[r]),
            1 => s.disable_role(NAMES[r]),
            2 => s.grant(&x, NAMES[r]),
            _ => s.revoke(&x, NAMES[r]),
        };
        assert!(res.is_ok() && m.apply(op, r));
        std::mem::forget(res);
        i += 1;
    }
    step(&mut s, &mut m, &x, &y);
    kani::cover!(true);
}

//@ prop=C18 tier=experimental kind=hold
//@ enc=RoleStore::{enable_role, disable_role, grant, revoke, has_role, role_index, enabled_role_index, num_roles, num_members}, RoleMetadata::{new, name, enable, disable}, fixed_map! RoleMap/Members insert/get/remove, bytes_to_fixed_str
//@ bound=one arbitrary operation (enable/disable/grant/revoke over role names {A, B, C (never enabled)}, grants/revokes on one address X) from the reachable state #0 (empty store: built from the zero-initialised store with the real operations); a second address Y is observed only; unwind 40
//@ stubs=fixed_map::to_key (sha256) replaced by an injective copy of the short name; alloc::fmt::format, sol_log, CoreError/GeneralError name+Display empty
//@ args=--default-unwind,40
#[kani::proof]
#[kani::stub(gmsol_utils::fixed_map::to_key, to_key_stub)]
#[kani::stub(alloc::fmt::format, crate::stubs::fmt_format)]
#[kani::stub(gmsol_store::CoreError::name, crate::stubs::core_error_name)]
#[kani::stub(<gmsol_store::CoreError as std::fmt::Display>::fmt, crate::stubs::fmt_core_error)]
#[kani::stub(gmsol_utils::GeneralError::name, crate::stubs::general_error_name)]
#[kani::stub(<gmsol_utils::GeneralError as std::fmt::Display>::fmt, crate::stubs::fmt_general_error)]
#[kani::stub(anchor_lang::solana_program::log::sol_log, crate::stubs::sol_log)]
fn c18_one_step_from_0_empty_store() {
    one_step_after(0)
}

//@ prop=C18 tier=experimental kind=hold
//@ enc=RoleStore::{enable_role, disable_role, grant, revoke, has_role, role_index, enabled_role_index, num_roles, num_members}, RoleMetadata::{new, name, enable, disable}, fixed_map! RoleMap/Members insert/get/remove, bytes_to_fixed_str
//@ bound=one arbitrary operation (enable/disable/grant/revoke over role names {A, B, C (never enabled)}, grants/revokes on one address X) from the reachable state #1 (a enabled: built from the zero-initialised store with the real operations); a second address Y is observed only; unwind 40
//@ stubs=fixed_map::to_key (sha256) replaced by an injective copy of the short name; alloc::fmt::format, sol_log, CoreError/GeneralError name+Display empty
//@ args=--default-unwind,40
#[kani::proof]
#[kani::stub(gmsol_utils::fixed_map::to_key, to_key_stub)]
#[kani::stub(alloc::fmt::format, crate::stubs::fmt_format)]
#[kani::stub(gmsol_store::CoreError::name, crate::stubs::core_error_name)]
#[kani::stub(<gmsol_store::CoreError as std::fmt::Display>::fmt, crate::stubs::fmt_core_error)]
#[kani::stub(gmsol_utils::GeneralError::name, crate::stubs::general_error_name)]
#[kani::stub(<gmsol_utils::GeneralError as std::fmt::Display>::fmt, crate::stubs::fmt_general_error)]
#[kani::stub(anchor_lang::solana_program::log::sol_log, crate::stubs::sol_log)]
fn c18_one_step_from_1_a_enabled() {
    one_step_after(1)
}

//@ prop=C18 tier=experimental kind=hold
//@ enc=RoleStore::{enable_role, disable_role, grant, revoke, has_role, role_index, enabled_role_index, num_roles, num_members}, RoleMetadata::{new, name, enable, disable}, fixed_map! RoleMap/Members insert/get/remove, bytes_to_fixed_str
//@ bound=one arbitrary operation (enable/disable/grant/revoke over role names {A, B, C (never enabled)}, grants/revokes on one address X) from the reachable state #2 (a disabled: built from the zero-initialised store with the real operations); a second address Y is observed only; unwind 40
//@ stubs=fixed_map::to_key (sha256) replaced by an injective copy of the short name; alloc::fmt::format, sol_log, CoreError/GeneralError name+Display empty
//@ args=--default-unwind,40
#[kani::proof]
#[kani::stub(gmsol_utils::fixed_map::to_key, to_key_stub)]
#[kani::stub(alloc::fmt::format, crate::stubs::fmt_format)]
#[kani::stub(gmsol_store::CoreError::name, crate::stubs::core_error_name)]
#[kani::stub(<gmsol_store::CoreError as std::fmt::Display>::fmt, crate::stubs::fmt_core_error)]
#[kani::stub(gmsol_utils::GeneralError::name, crate::stubs::general_error_name)]
#[kani::stub(<gmsol_utils::GeneralError as std::fmt::Display>::fmt, crate::stubs::fmt_general_error)]
#[kani::stub(anchor_lang::solana_program::log::sol_log, crate::stubs::sol_log)]
fn c18_one_step_from_2_a_disabled() {
    one_step_after(2)
}

//@ prop=C18 tier=experimental kind=hold
//@ enc=RoleStore::{enable_role, disable_role, grant, revoke, has_role, role_index, enabled_role_index, num_roles, num_members}, RoleMetadata::{new, name, enable, disable}, fixed_map! RoleMap/Members insert/get/remove, bytes_to_fixed_str
//@ bound=one arbitrary operation (enable/disable/grant/revoke over role names {A, B, C (never enabled)}, grants/revokes on one address X) from the reachable state #3 (a granted: built from the zero-initialised store with the real operations); a second address Y is observed only; unwind 40
//@ stubs=fixed_map::to_key (sha256) replaced by an injective copy of the short name; alloc::fmt::format, sol_log, CoreError/GeneralError name+Display empty
//@ args=--default-unwind,40
#[kani::proof]
#[kani::stub(gmsol_utils::fixed_map::to_key, to_key_stub)]
#[kani::stub(alloc::fmt::format, crate::stubs::fmt_format)]
#[kani::stub(gmsol_store::CoreError::name, crate::stubs::core_error_name)]
#[kani::stub(<gmsol_store::CoreError as std::fmt::Display>::fmt, crate::stubs::fmt_core_error)]
#[kani::stub(gmsol_utils::GeneralError::name, crate::stubs::general_error_name)]
#[kani::stub(<gmsol_utils::GeneralError as std::fmt::Display>::fmt, crate::stubs::fmt_general_error)]
#[kani::stub(anchor_lang::solana_program::log::sol_log, crate::stubs::sol_log)]
fn c18_one_step_from_3_a_granted() {
    one_step_after(3)
}

//@ prop=C18 tier=experimental kind=hold
//@ enc=RoleStore::{enable_role, disable_role, grant, revoke, has_role, role_index, enabled_role_index, num_roles, num_members}, RoleMetadata::{new, name, enable, disable}, fixed_map! RoleMap/Members insert/get/remove, bytes_to_fixed_str
//@ bound=one arbitrary operation (enable/disable/grant/revoke over role names {A, B, C (never enabled)}, grants/revokes on one address X) from the reachable state #4 (a granted then disabled: built from the zero-initialised store with the real operations); a second address Y is observed only; unwind 40
//@ stubs=fixed_map::to_key (sha256) replaced by an injective copy of the short name; alloc::fmt::format, sol_log, CoreError/GeneralError name+Display empty
//@ args=--default-unwind,40
#[kani::proof]
#[kani::stub(gmsol_utils::fixed_map::to_key, to_key_stub)]
#[kani::stub(alloc::fmt::format, crate::stubs::fmt_format)]
#[kani::stub(gmsol_store::CoreError::name, crate::stubs::core_error_name)]
#[kani::stub(<gmsol_store::CoreError as std::fmt::Display>::fmt, crate::stubs::fmt_core_error)]
#[kani::stub(gmsol_utils::GeneralError::name, crate::stubs::general_error_name)]
#[kani::stub(<gmsol_utils::GeneralError as std::fmt::Display>::fmt, crate::stubs::fmt_general_error)]
#[kani::stub(anchor_lang::solana_program::log::sol_log, crate::stubs::sol_log)]
fn c18_one_step_from_4_a_granted_then_disabled() {
    one_step_after(4)
}

//@ prop=C18 tier=experimental kind=hold
//@ enc=RoleStore::{enable_role, disable_role, grant, revoke, has_role, role_index, enabled_role_index, num_roles, num_members}, RoleMetadata::{new, name, enable, disable}, fixed_map! RoleMap/Members insert/get/remove, bytes_to_fixed_str
//@ bound=one arbitrary operation (enable/disable/grant/revoke over role names {A, B, C (never enabled)}, grants/revokes on one address X) from the reachable state #5 (two roles one grant: built from the zero-initialised store with the real operations); a second address Y is observed only; unwind 40
//@ stubs=fixed_map::to_key (sha256) replaced by an injective copy of the short name; alloc::fmt::format, sol_log, CoreError/GeneralError name+Display empty
//@ args=--default-unwind,40
#[kani::proof]
#[kani::stub(gmsol_utils::fixed_map::to_key, to_key_stub)]
#[kani::stub(alloc::fmt::format, crate::stubs::fmt_format)]
#[kani::stub(gmsol_store::CoreError::name, crate::stubs::core_error_name)]
#[kani::stub(<gmsol_store::CoreError as std::fmt::Display>::fmt, crate::stubs::fmt_core_error)]
#[kani::stub(gmsol_utils::GeneralError::name, crate::stubs::general_error_name)]
#[kani::stub(<gmsol_utils::GeneralError as std::fmt::Display>::fmt, crate::stubs::fmt_general_error)]
#[kani::stub(anchor_lang::solana_program::log::sol_log, crate::stubs::sol_log)]
fn c18_one_step_from_5_two_roles_one_grant() {
    one_step_after(5)
}

//@ prop=C18 tier=experimental kind=hold
//@ enc=RoleStore::{enable_role, disable_role, grant, revoke, has_role, role_index, enabled_role_index, num_roles, num_members}, RoleMetadata::{new, name, enable, disable}, fixed_map! RoleMap/Members insert/get/remove, bytes_to_fixed_str
//@ bound=one arbitrary operation (enable/disable/grant/revoke over role names {A, B, C (never enabled)}, grants/revokes on one address X) from the reachable state #6 (two roles two grants: built from the zero-initialised store with the real operations); a second address Y is observed only; unwind 40
//@ stubs=fixed_map::to_key (sha256) replaced by an injective copy of the short name; alloc::fmt::format, sol_log, CoreError/GeneralError name+Display empty
//@ args=--default-unwind,40
#[kani::proof]
#[kani::stub(gmsol_utils::fixed_map::to_key, to_key_stub)]
#[kani::stub(alloc::fmt::format, crate::stubs::fmt_format)]
#[kani::stub(gmsol_store::CoreError::name, crate::stubs::core_error_name)]
#[kani::stub(<gmsol_store::CoreError as std::fmt::Display>::fmt, crate::stubs::fmt_core_error)]
#[kani::stub(gmsol_utils::GeneralError::name, crate::stubs::general_error_name)]
#[kani::stub(<gmsol_utils::GeneralError as std::fmt::Display>::fmt, crate::stubs::fmt_general_error)]
#[kani::stub(anchor_lang::solana_program::log::sol_log, crate::stubs::sol_log)]
fn c18_one_step_from_6_two_roles_two_grants() {
    one_step_after(6)
}

//@ prop=C18 tier=experimental kind=hold
//@ enc=RoleStore::{enable_role, disable_role, grant, revoke, has_role, role_index, enabled_role_index, num_roles, num_members}, RoleMetadata::{new, name, enable, disable}, fixed_map! RoleMap/Members insert/get/remove, bytes_to_fixed_str
//@ bound=one arbitrary operation (enable/disable/grant/revoke over role names {A, B, C (never enabled)}, grants/revokes on one address X) from the reachable state #7 (two grants b disabled: built from the zero-initialised store with the real operations); a second address Y is observed only; unwind 40
//@ stubs=fixed_map::to_key (sha256) replaced by an injective copy of the short name; alloc::fmt::format, sol_log, CoreError/GeneralError name+Display empty
//@ args=--default-unwind,40
#[kani::proof]
#[kani::stub(gmsol_utils::fixed_map::to_key, to_key_stub)]
#[kani::stub(alloc::fmt::format, crate::stubs::fmt_format)]
#[kani::stub(gmsol_store::CoreError::name, crate::stubs::core_error_name)]
#[kani::stub(<gmsol_store::CoreError as std::fmt::Display>::fmt, crate::stubs::fmt_core_error)]
#[kani::stub(gmsol_utils::GeneralError::name, crate::stubs::general_error_name)]
#[kani::stub(<gmsol_utils::GeneralError as std::fmt::Display>::fmt, crate::stubs::fmt_general_error)]
#[kani::stub(anchor_lang::solana_program::log::sol_log, crate::stubs::sol_log)]
fn c18_one_step_from_7_two_grants_b_disabled() {
    one_step_after(7)
}

/// After a cluster restart only restart admins are authorised, for every role; the store
/// authority always remains an admin.
fn restart_policy(x_is_restart_admin: bool) {
    use gmsol_utils::role::RoleKey;
    let mut st: Box<Store> = Box::new(bytemuck::Zeroable::zeroed());
    let x = Pubkey::new_from_array([1; 32]);
    let y = Pubkey::new_from_array([2; 32]);
    let z = Pubkey::new_from_array([3; 32]);
    st.authority = z;
    // X holds exactly one enabled role: RESTART_ADMIN or the ordinary role "A"
    let held = if x_is_restart_admin { RoleKey::RESTART_ADMIN } else { "A" };
    assert!(st.enable_role(held).is_ok());
    assert!(st.grant(&x, held).is_ok());
    let current: u64 = kani::any();
    crate::stubs::set_last_restart_slot(current);
    // the zero-initialised store cached slot 0
    let restarted = current != 0;
    let asked = if kani::any() { RoleKey::RESTART_ADMIN } else { "A" };
    let rx = st.has_role(&x, asked);
    let ry = st.has_role(&y, asked);
    if restarted {
        // only restart admins are authorised, and they are authorised for every role
        assert!(matches!(rx, Ok(true)) == x_is_restart_admin, "C18: post-restart authorisation is not 'restart admins only, for every role'");
        assert!(rx.is_ok() == x_is_restart_admin);
        assert!(ry.is_err(), "C18: a non-member was authorised after a restart");
    } else {
        let same = (asked == RoleKey::RESTART_ADMIN) == x_is_restart_admin;
        assert!(matches!(rx, Ok(true)) == same, "C18: without a restart the ordinary grant rule applies");
        assert!(!matches!(ry, Ok(true)));
    }
    // the store authority is an admin regardless; others only as restart admins after a restart
    let az = st.has_admin_role(&z);
    assert!(matches!(az, Ok(true)), "C18: the store authority lost the admin role");
    let ax = st.has_admin_role(&x);
    assert!(matches!(ax, Ok(true)) == (restarted && x_is_restart_admin), "C18: admin role granted outside the restart rule");
    kani::cover!(restarted);
    kani::cover!(!restarted);
    std::mem::forget((rx, ry, az, ax));
}

//@ prop=C18 tier=experimental kind=hold
//@ enc=Store::{has_role, has_admin_role, has_restarted, is_authority, enable_role, grant}, RoleStore::has_role
//@ bound=a store in which address X holds the enabled RESTART_ADMIN role; every u64 cluster last-restart slot (cached slot 0), asking for RESTART_ADMIN or an ordinary role; second address Y non-member; unwind 40
//@ stubs=LastRestartSlot::get returns the arbitrary slot drawn by the harness; fixed_map::to_key replaced by an injective copy; format!, sol_log, CoreError/GeneralError name+Display, u64::_fmt empty
//@ args=--default-unwind,40
#[kani::proof]
#[kani::stub(<anchor_lang::solana_program::last_restart_slot::LastRestartSlot as anchor_lang::prelude::SolanaSysvar>::get, crate::stubs::last_restart_slot_get)]
#[kani::stub(gmsol_utils::fixed_map::to_key, to_key_stub)]
#[kani::stub(alloc::fmt::format, crate::stubs::fmt_format)]
#[kani::stub(gmsol_store::CoreError::name, crate::stubs::core_error_name)]
#[kani::stub(<gmsol_store::CoreError as std::fmt::Display>::fmt, crate::stubs::fmt_core_error)]
#[kani::stub(gmsol_utils::GeneralError::name, crate::stubs::general_error_name)]
#[kani::stub(<gmsol_utils::GeneralError as std::fmt::Display>::fmt, crate::stubs::fmt_general_error)]
#[kani::stub(anchor_lang::solana_program::log::sol_log, crate::stubs::sol_log)]
#[kani::stub(u64::_fmt, crate::stubs::u64_fmt)]
fn c18_restart_policy_for_a_restart_admin() {
    restart_policy(true)
}

//@ prop=C18 tier=experimental kind=hold
//@ enc=Store::{has_role, has_admin_role, has_restarted, is_authority, enable_role, grant}, RoleStore::has_role
//@ bound=a store in which address X holds an ordinary enabled role and RESTART_ADMIN does not exist; every u64 cluster last-restart slot (cached slot 0); second address Y non-member; unwind 40
//@ stubs=LastRestartSlot::get returns the arbitrary slot drawn by the harness; fixed_map::to_key replaced by an injective copy; format!, sol_log, CoreError/GeneralError name+Display, u64::_fmt empty
//@ args=--default-unwind,40
#[kani::proof]
#[kani::stub(<anchor_lang::solana_program::last_restart_slot::LastRestartSlot as anchor_lang::prelude::SolanaSysvar>::get, crate::stubs::last_restart_slot_get)]
#[kani::stub(gmsol_utils::fixed_map::to_key, to_key_stub)]
#[kani::stub(alloc::fmt::format, crate::stubs::fmt_format)]
#[kani::stub(gmsol_store::CoreError::name, crate::stubs::core_error_name)]
#[kani::stub(<gmsol_store::CoreError as std::fmt::Display>::fmt, crate::stubs::fmt_core_error)]
#[kani::stub(gmsol_utils::GeneralError::name, crate::stubs::general_error_name)]
#[kani::stub(<gmsol_utils::GeneralError as std::fmt::Display>::fmt, crate::stubs::fmt_general_error)]
#[kani::stub(anchor_lang::solana_program::log::sol_log, crate::stubs::sol_log)]
#[kani::stub(u64::_fmt, crate::stubs::u64_fmt)]
fn c18_restart_policy_for_an_ordinary_member() {
    restart_policy(false)
}
