//! C20 — market-config update policy, state level: the permission store that decides which keys a
//! market-config keeper may touch, and `Market::update_config_with_buffer`.
use gmsol_store::states::market::config::{MarketConfigFlag, MarketConfigKey};
use gmsol_store::states::permissions::MarketConfigPermissions;
use gmsol_store::verif_hooks as vh;

const PW: usize = std::mem::size_of::<MarketConfigPermissions>() / 16;
const _: () = assert!(std::mem::size_of::<MarketConfigPermissions>() % 16 == 0);

fn any_permissions() -> MarketConfigPermissions {
    let w: [u128; PW] = kani::any();
    unsafe { std::mem::transmute::<[u128; PW], MarketConfigPermissions>(w) }
}

const FLAGS: [MarketConfigFlag; 4] = [
    MarketConfigFlag::SkipBorrowingFeeForSmallerSide,
    MarketConfigFlag::IgnoreOpenInterestForUsageFactor,
    MarketConfigFlag::EnableMarketClosedParams,
    MarketConfigFlag::MarketClosedSkipBorrowingFeeForSmallerSide,
];

//@ prop=C20 tier=quick kind=hold
//@ enc=MarketConfigPermissions::{is_factor_updatable, set_factor_updatable, is_flag_updatable, set_flag_updatable, to_factor}, MarketConfigFactorContainer::{get_flag,set_flag}
//@ bound=none: arbitrary permission image, every pair of u16 key codes, every pair of flags, both values
//@ stubs=alloc::fmt::format, sol_log, CoreError::name and CoreError Display are empty (error messages are not the subject)
#[kani::proof]
#[kani::stub(alloc::fmt::format, crate::stubs::fmt_format)]
#[kani::stub(gmsol_store::CoreError::name, crate::stubs::core_error_name)]
#[kani::stub(<gmsol_store::CoreError as std::fmt::Display>::fmt, crate::stubs::fmt_core_error)]
#[kani::stub(anchor_lang::solana_program::log::sol_log, crate::stubs::sol_log)]
fn c20_updatable_marks_are_per_key() {
    let mut p = any_permissions();
    let p0 = p;
    let (c1, c2): (u16, u16) = (kani::any(), kani::any());
    let (i, j): (usize, usize) = (kani::any(), kani::any());
    kani::assume(i < 4 && j < 4);
    let value: bool = kani::any();
    let on_factor: bool = kani::any();
    if on_factor {
        if let (Ok(k1), Ok(k2)) = (MarketConfigKey::try_from(c1), MarketConfigKey::try_from(c2)) {
            let old = vh::is_factor_updatable(&p0, k1).expect("every key has a permission bit");
            let r = vh::set_factor_updatable(&mut p, k1, value);
            let ok = r.is_ok();
            std::mem::forget(r);
            // marking fails only when nothing would change, and then changes nothing
            assert!(ok == (old != value));
            assert!(vh::is_factor_updatable(&p, k1).unwrap() == value);
            if k1 != k2 {
                assert!(vh::is_factor_updatable(&p, k2).unwrap() == vh::is_factor_updatable(&p0, k2).unwrap(), "C20: marking one key changed another key's permission");
            }
            assert!(vh::is_flag_updatable(&p, FLAGS[j]) == vh::is_flag_updatable(&p0, FLAGS[j]));
            kani::cover!(ok && k1 != k2);
        }
    } else {
        let old = vh::is_flag_updatable(&p0, FLAGS[i]);
        let r = vh::set_flag_updatable(&mut p, FLAGS[i], value);
        let ok = r.is_ok();
        std::mem::forget(r);
        assert!(ok == (old != value));
        assert!(vh::is_flag_updatable(&p, FLAGS[i]) == value);
        if i != j {
            assert!(vh::is_flag_updatable(&p, FLAGS[j]) == vh::is_flag_updatable(&p0, FLAGS[j]), "C20: marking one flag changed another flag's permission");
        }
        if let Ok(k) = MarketConfigKey::try_from(c1) {
            assert!(vh::is_factor_updatable(&p, k).unwrap() == vh::is_factor_updatable(&p0, k).unwrap());
        }
        kani::cover!(ok && i != j);
    }
}
