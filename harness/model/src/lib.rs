//! Kani harnesses over the real `gmsol-model` sources (`/repo/crates/model`, features `u128`,
//! `--cfg gmsol_verif`).
//!
//! The generic model code is instantiated at the narrow widths `T = u8, D = 1` (UNIT 10),
//! `T = u16, D = 2` (UNIT 100) and `T = u32, D = 4` (UNIT 10 000); the narrow `Unsigned` /
//! `MulDiv` / `FixedPointOps` impls are the cfg-guarded hook 7c2f4c3 in `crates/model`. Oracles are
//! exact computations in `u64` / `i64`.
//!
//! Harness metadata is carried in `//@` comment lines directly above each `#[kani::proof]`
//! and parsed by `/verif/lib/vcheck.py`.
#![allow(clippy::all)]
#![allow(unused)]

#[cfg(kani)]
mod common;
#[cfg(kani)]
mod vmarket;
#[cfg(kani)]
mod c02_fees;
#[cfg(kani)]
mod c14_impact_distribution;
#[cfg(kani)]
mod c12_funding;
#[cfg(kani)]
mod c03_price_impact;
#[cfg(kani)]
mod c11_pnl;
#[cfg(kani)]
mod c01_helpers;
