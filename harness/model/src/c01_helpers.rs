//! C01 (Kani part) — the generic fixed-point helpers return the exactly rounded result or fail.
//!
//! (a) `narrow`: the GENERIC helper source of crates/model/src/{num.rs, utils.rs, fixed.rs}
//!     (`Unsigned::*` default methods, `MulDiv::checked_mul_div_with_signed_numerator`,
//!     `utils::{apply_factor, div_to_factor, div_to_factor_signed, usd_to_market_token_amount,
//!     market_token_amount_to_usd}`, `Fixed::{checked_mul, checked_pow}`) instantiated at T=u8/D=1 and
//!     T=u16/D=2 and compared with exact integer arithmetic in a wider type: `Some(r)` => `r` is the
//!     mathematically rounded result in the documented direction; `None` => zero divisor, or the exact
//!     result / a documented intermediate does not fit.
//! (b) `wide`: the comparison/add/sub-only helpers at the PRODUCTION widths u64/i64 and u128/i128
//!     (no multiplication), specified relationally without a wider type.
//! The full-width multiplicative kernels (`checked_mul_div{,_ceil}` for u64/u128) are the MIR->SMT part.
use gmsol_model::{
    fixed::{Fixed, FixedPointOps},
    num::{MulDiv, Unsigned, UnsignedAbs},
    utils,
};
use num_traits::{CheckedMul, Zero};

macro_rules! narrow_bodies {
    ($m:ident, $t:ty, $s:ty, $r:ty, $rs:ty, $d:expr) => {
        pub mod $m {
            use super::*;
            crate::width_prelude!($t, $s, $r, $rs, $d);

            fn mag(x: S) -> R {
                x.unsigned_abs() as R
            }
            /// sign(x) * q, as RS
            fn with_sign(x: S, q: R) -> RS {
                if x < 0 { -(q as RS) } else { q as RS }
            }

            // Quotients are specified multiplicatively (q == floor(p/c) <=> q*c <= p < (q+1)*c), which
            // avoids a second divider circuit in the formula.

            /// the narrow `MulDiv` impls themselves (hook code mirroring the u64 impl)
            pub fn mul_div_floor_only() {
                let (a, b, c): (T, T, T) = (kani::any(), kani::any(), kani::any());
                let f = a.checked_mul_div(&b, &c);
                let p = u(a) * u(b);
                if u(c) == 0 {
                    assert!(f.is_none(), "C01: mul_div with a zero denominator did not fail");
                } else {
                    match f {
                        Some(q) => assert!(is_floor_div(u(q), p, u(c)), "C01: checked_mul_div is not floor(a*b/c)"),
                        None => assert!(p >= (TMAX + 1) * u(c), "C01: checked_mul_div fails although floor(a*b/c) fits"),
                    }
                }
                kani::cover!(f.map_or(false, |q| u(q) * u(c) < p && u(q) > 1), "rounded down");
                kani::cover!(f.is_none() && u(c) != 0, "overflow");
            }

            pub fn mul_div_ceil_only() {
                let (a, b, c): (T, T, T) = (kani::any(), kani::any(), kani::any());
                let g = a.checked_mul_div_ceil(&b, &c);
                let p = u(a) * u(b);
                if u(c) == 0 {
                    assert!(g.is_none(), "C01: mul_div_ceil with a zero denominator did not fail");
                } else {
                    match g {
                        Some(q) => assert!(is_ceil_div(u(q), p, u(c)), "C01: checked_mul_div_ceil is not ceil(a*b/c)"),
                        None => assert!(p > TMAX * u(c), "C01: checked_mul_div_ceil fails although ceil(a*b/c) fits"),
                    }
                }
                kani::cover!(g.map_or(false, |q| u(q) * u(c) > p && u(q) > 1), "rounded up");
                kani::cover!(g.is_none() && u(c) != 0, "overflow");
            }

            pub fn mul_div() {
                let (a, b, c): (T, T, T) = (kani::any(), kani::any(), kani::any());
                let f = a.checked_mul_div(&b, &c);
                let g = a.checked_mul_div_ceil(&b, &c);
                let p = u(a) * u(b);
                if u(c) == 0 {
                    assert!(f.is_none() && g.is_none(), "C01: mul_div with a zero denominator did not fail");
                } else {
                    match f {
                        Some(q) => assert!(is_floor_div(u(q), p, u(c)), "C01: checked_mul_div is not floor(a*b/c)"),
                        None => assert!(p >= (TMAX + 1) * u(c), "C01: checked_mul_div fails although floor(a*b/c) fits"),
                    }
                    match g {
                        Some(q) => assert!(is_ceil_div(u(q), p, u(c)), "C01: checked_mul_div_ceil is not ceil(a*b/c)"),
                        None => assert!(p > TMAX * u(c), "C01: checked_mul_div_ceil fails although ceil(a*b/c) fits"),
                    }
                }
                kani::cover!(f.is_some() && g.is_some() && f != g, "floor != ceil");
                kani::cover!(f.is_some() && g.is_none(), "only the ceiling overflows");
                kani::cover!(f.is_none() && u(c) != 0, "overflow");
            }

            pub fn round_up_div() {
                let (a, d): (T, T) = (kani::any(), kani::any());
                let got = a.checked_round_up_div(&d);
                match got {
                    Some(q) => {
                        assert!(u(d) != 0);
                        assert!(is_ceil_div(u(q), u(a), u(d)), "C01: checked_round_up_div is not ceil(a/d)");
                    }
                    // documented intermediate: a + d (checked_add) must fit
                    None => assert!(u(d) == 0 || u(a) + u(d) > TMAX, "C01: checked_round_up_div fails although a + d is representable"),
                }
                kani::cover!(got.map_or(false, |q| u(q) * u(d) > u(a) && u(q) > 1), "rounded up");
                kani::cover!(got.map_or(false, |q| u(q) * u(d) == u(a) && u(q) > 1), "exact");
                kani::cover!(got.is_none() && u(d) != 0, "intermediate overflow");
            }

            pub fn round_up_magnitude_div() {
                let d: T = kani::any();
                let x: S = kani::any();
                let got = d.as_divisor_to_round_up_magnitude_div(&x);
                match got {
                    Some(q) => {
                        assert!(u(d) != 0 && u(d) <= SMAX as R);
                        assert!(is_ceil_div(mag(q), mag(x), u(d)), "C01: round-up-magnitude division: |result| is not ceil(|x|/d)");
                        assert!(q == 0 || (q < 0) == (x < 0), "C01: round-up-magnitude division changed the sign");
                    }
                    // documented intermediates: d as signed; x - d + 1 (negative x) / x + d - 1 (else), step by step
                    None => assert!(
                        u(d) == 0 || u(d) > SMAX as R || (x < 0 && s(x) - (u(d) as RS) < SMIN) || (x >= 0 && s(x) + (u(d) as RS) > SMAX),
                        "C01: round-up-magnitude division fails although every intermediate is representable"
                    ),
                }
                kani::cover!(got.map_or(false, |q| x < 0 && mag(q) * u(d) > mag(x) && mag(q) > 1), "negative, magnitude rounded up");
                kani::cover!(got.map_or(false, |q| x > 0 && mag(q) * u(d) > mag(x) && mag(q) > 1), "positive, rounded up");
                kani::cover!(got.is_none() && u(d) != 0 && u(d) <= SMAX as R, "intermediate overflow");
            }

            pub fn mul_div_signed_numerator() {
                let (x, d): (T, T) = (kani::any(), kani::any());
                let n: S = kani::any();
                let got = x.checked_mul_div_with_signed_numerator(&n, &d);
                let p = u(x) * mag(n);
                match got {
                    Some(q) => {
                        assert!(u(d) != 0);
                        assert!(is_floor_div(mag(q), p, u(d)), "C01: mul_div with signed numerator: |result| is not floor(x*|n|/d)");
                        assert!(q == 0 || (q < 0) == (n < 0), "C01: mul_div with signed numerator changed the sign");
                    }
                    None => assert!(u(d) == 0 || p >= (SMAX as R + 1) * u(d), "C01: mul_div with signed numerator fails although the magnitude fits the signed type"),
                }
                kani::cover!(got.map_or(false, |q| n < 0 && mag(q) * u(d) < p && mag(q) > 0), "negative, truncated towards zero");
                kani::cover!(got.is_none() && u(d) != 0, "overflow");
            }

            pub fn signed_arith() {
                let a: T = kani::any();
                let b: S = kani::any();
                // a + b, a - b over the integers
                let add = (u(a) as RS) + s(b);
                let sub = (u(a) as RS) - s(b);
                let in_t = |x: RS| x >= 0 && x <= TMAX as RS;
                let g = a.checked_add_with_signed(&b);
                assert!(g.map(|x| u(x) as RS) == if in_t(add) { Some(add) } else { None }, "C01: checked_add_with_signed is not the exact sum / fails although it fits");
                let h = a.checked_sub_with_signed(&b);
                assert!(h.map(|x| u(x) as RS) == if in_t(sub) { Some(sub) } else { None }, "C01: checked_sub_with_signed is not the exact difference / fails although it fits");
                // a * b
                let m = a.checked_mul_with_signed(&b);
                let prod = u(a) * mag(b);
                match m {
                    Some(x) => assert!(s(x) == with_sign(b, prod), "C01: checked_mul_with_signed is not the exact product"),
                    // documented intermediate: a*|b| as an unsigned and then as a signed value
                    None => assert!(prod > SMAX as R, "C01: checked_mul_with_signed fails although |a*b| fits the signed type"),
                }
                kani::cover!(g.is_none() && b < 0);
                kani::cover!(g.is_none() && b > 0);
                kani::cover!(h.is_none() && b < 0);
                kani::cover!(m.is_some() && b < 0 && u(a) > 1);
                kani::cover!(m.is_none());
            }

            pub fn conversions() {
                let (a, b): (T, T) = (kani::any(), kani::any());
                let ts = a.to_signed();
                let to = a.to_opposite_signed();
                if u(a) <= SMAX as R {
                    assert!(ts.as_ref().map(|x| s(*x)).ok() == Some(u(a) as RS), "C01: to_signed changed the value");
                    assert!(to.as_ref().map(|x| s(*x)).ok() == Some(-(u(a) as RS)), "C01: to_opposite_signed is not the negation");
                } else {
                    assert!(ts.is_err() && to.is_err(), "C01: to_signed of a value above the signed maximum did not fail");
                }
                let d = a.checked_signed_sub(b);
                let exact = (u(a) as RS) - (u(b) as RS);
                match &d {
                    Ok(x) => assert!(s(*x) == exact, "C01: checked_signed_sub is not the exact difference"),
                    // documented intermediate: |a-b| as a signed value
                    Err(_) => assert!(exact > SMAX || exact < -SMAX, "C01: checked_signed_sub fails although |a-b| fits the signed type"),
                }
                kani::cover!(d.is_ok() && exact < 0);
                kani::cover!(d.is_err() && exact < 0);
                kani::cover!(ts.is_err());
                core::mem::forget((ts, to, d));
            }

            pub fn bound_magnitude() {
                let v: S = kani::any();
                let (min, max): (T, T) = (kani::any(), kani::any());
                let got = <T as Unsigned>::bound_magnitude(&v, &min, &max);
                let m = mag(v);
                let want: Option<RS> = if u(min) > u(max) {
                    None
                } else if m < u(min) {
                    if u(min) > SMAX as R { None } else { Some(with_sign(v, u(min))) }
                } else if m > u(max) {
                    if u(max) > SMAX as R { None } else { Some(with_sign(v, u(max))) }
                } else {
                    Some(s(v))
                };
                match &got {
                    Ok(x) => {
                        assert!(want == Some(s(*x)), "C01: bound_magnitude is not the value clamped to [min, max] in magnitude with its sign kept");
                        assert!(mag(*x) >= u(min) && mag(*x) <= u(max));
                    }
                    Err(_) => assert!(want.is_none(), "C01: bound_magnitude fails although min <= max and the bound fits the signed type"),
                }
                kani::cover!(got.is_ok() && v < 0 && m < u(min), "negative raised to min");
                kani::cover!(got.is_ok() && v < 0 && m > u(max), "negative capped at max");
                kani::cover!(got.is_ok() && v > 0 && m > u(max), "positive capped");
                kani::cover!(got.is_ok() && v == 0 && u(min) > 0, "zero raised to +min");
                kani::cover!(got.is_err() && u(min) <= u(max), "bound not representable");
                core::mem::forget(got);
            }

            /// helpers that divide by the constant UNIT
            pub fn factors_unit_divisor() {
                let (v, f): (T, T) = (kani::any(), kani::any());
                let a = utils::apply_factor::<T, D>(&v, &f);
                assert!(a.map(u) == fit(mul_div_floor(u(v), u(f), UNIT)), "C01: apply_factor is not floor(v*f/UNIT) / fails although it fits");
                let fm = Fixed::<T, D>::from_inner(v).checked_mul(&Fixed::from_inner(f));
                assert!(fm.map(|x| u(x.into_inner())) == fit(mul_div_floor(u(v), u(f), UNIT)), "C01: Fixed::checked_mul is not floor(a*b/UNIT)");
                kani::cover!(a.is_none());
                kani::cover!(a.is_some() && (u(v) * u(f)) % UNIT != 0 && u(v) * u(f) > UNIT);
            }

            /// helpers that divide by a symbolic divisor
            pub fn factors_any_divisor() {
                let (v, dv): (T, T) = (kani::any(), kani::any());
                let up: bool = kani::any();
                let q = utils::div_to_factor::<T, D>(&v, &dv, up);
                let p = u(v) * UNIT;
                if u(dv) == 0 {
                    assert!(q.map(u) == Some(0), "C01: div_to_factor with a zero divisor is not zero");
                } else {
                    match q {
                        Some(q) if up => assert!(is_ceil_div(u(q), p, u(dv)), "C01: div_to_factor (round up) is not ceil(v*UNIT/d)"),
                        Some(q) => assert!(is_floor_div(u(q), p, u(dv)), "C01: div_to_factor is not floor(v*UNIT/d)"),
                        None if up => assert!(p > TMAX * u(dv), "C01: div_to_factor (round up) fails although the result fits"),
                        None => assert!(p >= (TMAX + 1) * u(dv), "C01: div_to_factor fails although the result fits"),
                    }
                }
                let sv: S = kani::any();
                let qs = utils::div_to_factor_signed::<T, D>(&sv, &dv);
                let ps = UNIT * mag(sv);
                if u(dv) == 0 {
                    assert!(qs.map(s) == Some(0));
                } else {
                    match qs {
                        Some(x) => {
                            assert!(is_floor_div(mag(x), ps, u(dv)), "C01: div_to_factor_signed: |result| is not floor(|v|*UNIT/d)");
                            assert!(x == 0 || (x < 0) == (sv < 0), "C01: div_to_factor_signed changed the sign");
                        }
                        None => assert!(ps >= (SMAX as R + 1) * u(dv), "C01: div_to_factor_signed fails although the magnitude fits"),
                    }
                }
                kani::cover!(q.map_or(false, |q| up && u(dv) != 0 && u(q) * u(dv) > p && u(q) > 1));
                kani::cover!(q.is_none());
                kani::cover!(qs.map_or(false, |x| x < -1 && u(dv) > 1));
                kani::cover!(qs.is_none());
            }

            pub fn market_token_conversions() {
                let (usd, pv, supply, divisor): (T, T, T, T) = (kani::any(), kani::any(), kani::any(), kani::any());
                let got = utils::usd_to_market_token_amount(usd, pv, supply, divisor);
                if u(divisor) == 0 {
                    assert!(got.is_none(), "C01: usd_to_market_token_amount with a zero divisor did not fail");
                } else if u(supply) == 0 && u(pv) == 0 {
                    assert!(got.map_or(false, |q| is_floor_div(u(q), u(usd), u(divisor))), "C01: first mint is not floor(usd/divisor)");
                } else if u(supply) == 0 {
                    // documented intermediate: pool_value + usd_value must fit
                    match got {
                        Some(q) => assert!(u(pv) + u(usd) <= TMAX && is_floor_div(u(q), u(pv) + u(usd), u(divisor)), "C01: mint on an unowned pool value is not floor((pool_value+usd)/divisor)"),
                        None => assert!(u(pv) + u(usd) > TMAX, "C01: usd_to_market_token_amount fails although pool_value + usd fits"),
                    }
                } else if u(pv) == 0 {
                    assert!(got.is_none(), "C01: usd_to_market_token_amount with supply but no pool value did not fail");
                } else {
                    match got {
                        Some(q) => assert!(is_floor_div(u(q), u(supply) * u(usd), u(pv)), "C01: usd_to_market_token_amount is not floor(supply*usd/pool_value)"),
                        None => assert!(u(supply) * u(usd) >= (TMAX + 1) * u(pv), "C01: usd_to_market_token_amount fails although the result fits"),
                    }
                }
                let amount: T = kani::any();
                let back = utils::market_token_amount_to_usd(&amount, &pv, &supply);
                if u(supply) == 0 {
                    assert!(back.is_none(), "C01: market_token_amount_to_usd with zero supply did not fail");
                } else {
                    match back {
                        Some(q) => assert!(is_floor_div(u(q), u(pv) * u(amount), u(supply)), "C01: market_token_amount_to_usd is not floor(pool_value*amount/supply)"),
                        None => assert!(u(pv) * u(amount) >= (TMAX + 1) * u(supply), "C01: market_token_amount_to_usd fails although the result fits"),
                    }
                }
                kani::cover!(got.is_some() && u(supply) == 0 && u(pv) == 0 && u(usd) > u(divisor));
                kani::cover!(got.is_some() && u(supply) == 0 && u(pv) != 0);
                kani::cover!(got.map_or(false, |q| u(supply) != 0 && u(q) * u(pv) < u(supply) * u(usd) && u(q) > 0));
                kani::cover!(got.is_none() && u(divisor) != 0 && u(pv) != 0);
                kani::cover!(back.map_or(false, |q| u(q) * u(supply) < u(pv) * u(amount) && u(q) > 0));
            }

            /// integer-exponent `Fixed::checked_pow` (the loop shared by every width)
            pub fn pow(max_units: R) {
                let (x, e): (T, T) = (kani::any(), kani::any());
                kani::assume(u(e) % UNIT == 0 && u(e) / UNIT <= max_units);
                let got = Fixed::<T, D>::from_inner(x).checked_pow(&Fixed::from_inner(e));
                let mut want = Some(UNIT);
                let mut i = 0;
                while i < u(e) / UNIT {
                    want = match want {
                        Some(a) => fit(a * u(x) / UNIT),
                        None => None,
                    };
                    i += 1;
                }
                assert!(got.map(|v| u(v.into_inner())) == want, "C01: integer-exponent checked_pow is not the floor-after-each-step power / fails although every step fits");
                kani::cover!(got.is_some() && u(e) == 3 * UNIT && u(x) > UNIT, "cube");
                kani::cover!(got.is_none(), "overflow");
                kani::cover!(got.is_some() && u(e) == 0 && u(x) != UNIT, "x^0 = 1");
            }
        }
    };
}
narrow_bodies!(w8, u8, i8, u32, i32, 1);
narrow_bodies!(w16, u16, i16, u32, i32, 2);

/// Full-width comparison/add/sub-only helpers, specified relationally (no wider type needed).
macro_rules! wide_bodies {
    ($m:ident, $t:ty, $s:ty) => {
        pub mod $m {
            use super::*;
            type T = $t;
            type S = $s;
            const SMAX_U: T = <$s>::MAX as $t;

            pub fn conversions() {
                let (a, b): (T, T) = (kani::any(), kani::any());
                let ts = a.to_signed();
                let to = a.to_opposite_signed();
                if a <= SMAX_U {
                    assert!(matches!(&ts, Ok(x) if *x >= 0 && x.unsigned_abs() == a), "C01: to_signed changed the value");
                    assert!(matches!(&to, Ok(x) if *x <= 0 && x.unsigned_abs() == a), "C01: to_opposite_signed is not the negation");
                } else {
                    assert!(ts.is_err() && to.is_err(), "C01: to_signed of a value above the signed maximum did not fail");
                }
                let d = a.checked_signed_sub(b);
                let diff = if a >= b { a - b } else { b - a };
                match &d {
                    Ok(x) => assert!(x.unsigned_abs() == diff && (*x >= 0) == (a >= b) || (*x == 0 && a == b), "C01: checked_signed_sub is not the exact difference"),
                    Err(_) => assert!(diff > SMAX_U, "C01: checked_signed_sub fails although |a-b| fits the signed type"),
                }
                if let Ok(x) = &d {
                    assert!((*x > 0) == (a > b) && (*x < 0) == (a < b));
                }
                kani::cover!(matches!(&d, Ok(x) if *x < 0));
                kani::cover!(d.is_err() && a < b);
                kani::cover!(ts.is_err());
                core::mem::forget((ts, to, d));
            }

            pub fn signed_add_sub() {
                let a: T = kani::any();
                let b: S = kani::any();
                let m = b.unsigned_abs();
                let g = a.checked_add_with_signed(&b);
                let h = a.checked_sub_with_signed(&b);
                // a + b
                if b >= 0 {
                    match g {
                        Some(r) => assert!(r >= a && r - a == m, "C01: checked_add_with_signed is not the exact sum"),
                        None => assert!(a > T::MAX - m, "C01: checked_add_with_signed fails although the sum fits"),
                    }
                    match h {
                        Some(r) => assert!(r <= a && a - r == m, "C01: checked_sub_with_signed is not the exact difference"),
                        None => assert!(a < m, "C01: checked_sub_with_signed fails although the difference fits"),
                    }
                } else {
                    match g {
                        Some(r) => assert!(r <= a && a - r == m, "C01: checked_add_with_signed is not the exact sum"),
                        None => assert!(a < m, "C01: checked_add_with_signed fails although the sum fits"),
                    }
                    match h {
                        Some(r) => assert!(r >= a && r - a == m, "C01: checked_sub_with_signed is not the exact difference"),
                        None => assert!(a > T::MAX - m, "C01: checked_sub_with_signed fails although the difference fits"),
                    }
                }
                kani::cover!(g.is_none() && b < 0);
                kani::cover!(g.is_none() && b > 0);
                kani::cover!(h.is_none() && b < 0);
                kani::cover!(h.is_some() && b == S::MIN);
            }

            pub fn bound_magnitude() {
                let v: S = kani::any();
                let (min, max): (T, T) = (kani::any(), kani::any());
                let got = <T as Unsigned>::bound_magnitude(&v, &min, &max);
                let m = v.unsigned_abs();
                match &got {
                    Ok(x) => {
                        let xm = x.unsigned_abs();
                        assert!(min <= max);
                        assert!(xm >= min && xm <= max, "C01: bound_magnitude result outside [min, max]");
                        if m >= min && m <= max {
                            assert!(*x == v, "C01: bound_magnitude changed a value inside the bounds");
                        } else if m < min {
                            assert!(xm == min && (*x < 0) == (v < 0) || (xm == 0 && min == 0), "C01: bound_magnitude did not raise the magnitude to min with the sign kept");
                        } else {
                            assert!(xm == max && ((*x < 0) == (v < 0) || xm == 0), "C01: bound_magnitude did not cap the magnitude at max with the sign kept");
                        }
                    }
                    Err(_) => assert!(
                        min > max || (m < min && min > SMAX_U) || (m > max && max > SMAX_U),
                        "C01: bound_magnitude fails although min <= max and the bound fits the signed type"
                    ),
                }
                kani::cover!(got.is_ok() && v < 0 && m < min);
                kani::cover!(got.is_ok() && v < 0 && m > max);
                kani::cover!(got.is_ok() && v == S::MIN && max >= m);
                kani::cover!(got.is_err() && min <= max);
                core::mem::forget(got);
            }
        }
    };
}
wide_bodies!(x64, u64, i64);
wide_bodies!(x128, u128, i128);

// ---- (a) generic helpers at reduced width ---------------------------------------------------
// u8 / DECIMALS=1: every helper, every operand value (quick).  u16 / DECIMALS=2: quick for the helpers
// without a symbolic divisor, thorough for the ones that divide by a symbolic value (two 16-bit divider
// circuits: 8-10 min each).

//@ prop=C01 tier=quick kind=hold
//@ enc=<u8 as MulDiv>::{checked_mul_div,checked_mul_div_ceil} (narrow hook impl mirroring the u64 impl), Unsigned::checked_round_up_div, Unsigned::as_divisor_to_round_up_magnitude_div, MulDiv::checked_mul_div_with_signed_numerator
//@ bound=width-reduced T=u8/i8: every operand value (incl. zero divisors)
#[kani::proof]
fn c01_division_helpers_u8() {
    w8::mul_div();
    w8::round_up_div();
    w8::round_up_magnitude_div();
    w8::mul_div_signed_numerator();
}

//@ prop=C01 tier=quick kind=hold
//@ enc=Unsigned::{checked_add_with_signed,checked_sub_with_signed,checked_mul_with_signed,to_signed,to_opposite_signed,to_signed_with_sign,checked_signed_sub,bound_magnitude}
//@ bound=width-reduced T=u8/i8: every operand value
#[kani::proof]
fn c01_signed_helpers_u8() {
    w8::signed_arith();
    w8::conversions();
    w8::bound_magnitude();
}

//@ prop=C01 tier=quick kind=hold
//@ enc=utils::{apply_factor,div_to_factor,div_to_factor_signed}, Fixed::{checked_mul,checked_pow}, FixedPointOps::checked_pow_fixed (integer-exponent loop)
//@ bound=width-reduced T=u8, DECIMALS=1 (UNIT 10): every operand value; pow exponent in {0..4}*UNIT (unwind 6)
#[kani::proof]
#[kani::unwind(6)]
fn c01_factor_helpers_u8() {
    w8::factors_unit_divisor();
    w8::factors_any_divisor();
    w8::pow(4);
}

//@ prop=C01 tier=quick kind=hold
//@ enc=utils::{usd_to_market_token_amount,market_token_amount_to_usd}
//@ bound=width-reduced T=u8: every u8 usd value, pool value, supply, divisor, amount
#[kani::proof]
fn c01_market_token_conversions_u8() {
    w8::market_token_conversions();
}

//@ prop=C01 tier=quick kind=hold
//@ enc=Unsigned::{checked_add_with_signed,checked_sub_with_signed,checked_mul_with_signed} (generic default methods)
//@ bound=width-reduced T=u16/i16: every u16 / i16 operand pair
#[kani::proof]
fn c01_signed_arith_u16() {
    w16::signed_arith();
}

//@ prop=C01 tier=quick kind=hold
//@ enc=Unsigned::{to_signed,to_opposite_signed,checked_signed_sub} (generic default methods)
//@ bound=width-reduced T=u16/i16: every u16 operand pair
#[kani::proof]
fn c01_conversions_u16() {
    w16::conversions();
}

//@ prop=C01 tier=quick kind=hold
//@ enc=Unsigned::{bound_magnitude,to_signed_with_sign} (generic default methods)
//@ bound=width-reduced T=u16/i16: every i16 value, every u16 min/max
#[kani::proof]
fn c01_bound_magnitude_u16() {
    w16::bound_magnitude();
}

//@ prop=C01 tier=quick kind=hold
//@ enc=utils::apply_factor, Fixed::checked_mul
//@ bound=width-reduced T=u16, DECIMALS=2: every u16 operand pair
#[kani::proof]
fn c01_apply_factor_u16() {
    w16::factors_unit_divisor();
}

//@ prop=C01 tier=quick kind=hold
//@ enc=Fixed::checked_pow, FixedPointOps::checked_pow_fixed (integer-exponent loop; narrow hook impl with the same loop as u64/u128), Fixed::checked_mul
//@ bound=width-reduced T=u16, DECIMALS=2: every u16 base, exponent in {0..4}*UNIT (unwind 6)
#[kani::proof]
#[kani::unwind(6)]
fn c01_integer_pow_u16() {
    w16::pow(4);
}

//@ prop=C01 tier=quick kind=hold
//@ enc=<u16 as MulDiv>::checked_mul_div (narrow hook impl mirroring the u64 impl)
//@ bound=width-reduced T=u16: every u16 operand triple (incl. zero denominator)
#[kani::proof]
fn c01_narrow_mul_div_floor_u16() {
    w16::mul_div_floor_only();
}

//@ prop=C01 tier=experimental kind=hold
//@ enc=<u16 as MulDiv>::{checked_mul_div,checked_mul_div_ceil} (narrow hook impl mirroring the u64 impl)
//@ bound=width-reduced T=u16: every u16 operand triple (incl. zero denominator)
//@ timeout=5400 mem=30
#[kani::proof]
fn c01_narrow_mul_div_u16() {
    w16::mul_div();
}

//@ prop=C01 tier=quick kind=hold
//@ enc=Unsigned::checked_round_up_div (generic default method)
//@ bound=width-reduced T=u16: every u16 dividend/divisor
#[kani::proof]
fn c01_round_up_div_u16() {
    w16::round_up_div();
}

//@ prop=C01 tier=quick kind=hold
//@ enc=Unsigned::as_divisor_to_round_up_magnitude_div (generic default method)
//@ bound=width-reduced T=u16/i16: every u16 divisor, every i16 dividend
#[kani::proof]
fn c01_round_up_magnitude_div_u16() {
    w16::round_up_magnitude_div();
}

//@ prop=C01 tier=quick kind=hold
//@ enc=MulDiv::checked_mul_div_with_signed_numerator (generic default method)
//@ bound=width-reduced T=u16/i16: every u16 multiplicand/denominator, every i16 numerator
#[kani::proof]
fn c01_mul_div_signed_numerator_u16() {
    w16::mul_div_signed_numerator();
}

//@ prop=C01 tier=experimental kind=hold
//@ enc=utils::{div_to_factor,div_to_factor_signed}
//@ bound=width-reduced T=u16, DECIMALS=2: every u16 / i16 operand
//@ timeout=5400 mem=30
#[kani::proof]
fn c01_div_to_factor_u16() {
    w16::factors_any_divisor();
}

//@ prop=C01 tier=experimental kind=hold
//@ enc=utils::{usd_to_market_token_amount,market_token_amount_to_usd}
//@ bound=width-reduced T=u16: every u16 usd value, pool value, supply, divisor, amount
//@ timeout=5400 mem=30
#[kani::proof]
fn c01_market_token_conversions_u16() {
    w16::market_token_conversions();
}

// ---- (b) comparison/add/sub-only helpers at the production widths ---------------------------

//@ prop=C01 tier=quick kind=hold
//@ enc=Unsigned::{to_signed,to_opposite_signed,checked_signed_sub} for u64/i64 (production impl)
//@ bound=none: every u64 operand pair
#[kani::proof]
fn c01_conversions_u64() {
    x64::conversions();
}

//@ prop=C01 tier=quick kind=hold
//@ enc=Unsigned::{checked_add_with_signed,checked_sub_with_signed} for u64/i64 (production impl)
//@ bound=none: every u64 / i64 operand pair
#[kani::proof]
fn c01_signed_add_sub_u64() {
    x64::signed_add_sub();
}

//@ prop=C01 tier=quick kind=hold
//@ enc=Unsigned::bound_magnitude for u64/i64 (production impl)
//@ bound=none: every i64 value, every u64 min/max
#[kani::proof]
fn c01_bound_magnitude_u64() {
    x64::bound_magnitude();
}

//@ prop=C01 tier=quick kind=hold
//@ enc=Unsigned::{to_signed,to_opposite_signed,checked_signed_sub} for u128/i128 (production impl)
//@ bound=none: every u128 operand pair
#[kani::proof]
fn c01_conversions_u128() {
    x128::conversions();
}

//@ prop=C01 tier=quick kind=hold
//@ enc=Unsigned::{checked_add_with_signed,checked_sub_with_signed} for u128/i128 (production impl)
//@ bound=none: every u128 / i128 operand pair
#[kani::proof]
fn c01_signed_add_sub_u128() {
    x128::signed_add_sub();
}

//@ prop=C01 tier=quick kind=hold
//@ enc=Unsigned::bound_magnitude for u128/i128 (production impl)
//@ bound=none: every i128 value, every u128 min/max
#[kani::proof]
fn c01_bound_magnitude_u128() {
    x128::bound_magnitude();
}

