//! C14 — position impact distribution respects the pool floor.
//!
//! Subject: the real generic `PositionImpactMarketExt::pending_position_impact_pool_distribution_amount`
//! (crates/model/src/market/position_impact.rs) and `DistributePositionImpact::execute`
//! (crates/model/src/action/distribute_position_impact.rs) over the plain-struct market `VMarket`
//! (environment, `vmarket.rs`), instantiated at a narrow width. Oracle: exact arithmetic in a wider type.
use crate::vmarket::*;
use gmsol_model::{
    action::distribute_position_impact::DistributePositionImpactReport, MarketAction,
    PositionImpactMarketExt, PositionImpactMarketMutExt,
};

macro_rules! bodies {
    ($m:ident, $t:ty, $s:ty, $r:ty, $rs:ty, $d:expr) => {
        pub mod $m {
            use super::*;
            crate::width_prelude!($t, $s, $r, $rs, $d);

            /// A market whose position-impact pool, distribution parameters and distribution clock are
            /// symbolic (nothing else is read by the subject).
            pub fn any_market() -> VMarket<T, D> {
                let mut m = VMarket::<T, D>::zero();
                m.position_impact = VPool::any();
                m.distribute_factor = kani::any();
                m.min_position_impact_pool_amount = kani::any();
                m.passed_distribution = kani::any();
                m
            }

            /// Exact reference over the integers: `Some((distributed, next))`, `None` = failure
            /// (duration or rate*duration/UNIT not representable in `T`).
            pub fn reference(cur: R, min: R, rate: R, duration: u64) -> Option<(R, R)> {
                if rate == 0 || cur <= min {
                    return Some((0, cur));
                }
                if duration > TMAX as u64 {
                    return None;
                }
                let amount = (duration as R) * rate / UNIT;
                if amount > TMAX {
                    return None;
                }
                let excess = cur - min;
                let dist = if amount > excess { excess } else { amount };
                Some((dist, cur - dist))
            }

            pub fn pending_amount() {
                let m = any_market();
                let duration: u64 = kani::any();
                let (cur, min, rate) = (u(m.position_impact.long), u(m.min_position_impact_pool_amount), u(m.distribute_factor));
                let want = reference(cur, min, rate, duration);
                let got = m.pending_position_impact_pool_distribution_amount(duration);
                match &got {
                    Ok((dist, next)) => {
                        let (dist, next) = (u(*dist), u(*next));
                        assert!(next <= cur, "C14: distribution increased the position impact pool");
                        if cur > min {
                            assert!(next >= min, "C14: distribution took the pool below the configured minimum");
                        } else {
                            assert!(dist == 0 && next == cur, "C14: a pool at or below the minimum was distributed");
                        }
                        assert!(dist + next == cur, "C14: distributed + next != current");
                        assert!(want == Some((dist, next)), "C14: distributed amount is not min(floor(t*rate/UNIT), current - min)");
                    }
                    Err(_) => assert!(want.is_none(), "C14: pending distribution fails where the exact result is representable"),
                }
                kani::cover!(got.is_ok() && want.map_or(false, |w| w.0 > 0 && w.1 > min), "uncapped distribution");
                kani::cover!(got.is_ok() && want.map_or(false, |w| w.0 > 0 && w.1 == min && min > 0), "capped at the excess over the minimum");
                kani::cover!(got.is_ok() && rate > 0 && cur > min && duration <= TMAX as u64 && ((duration as R) * rate) % UNIT != 0 && want.map_or(false, |w| w.1 > min), "rate*t rounded down");
                kani::cover!(got.is_ok() && cur < min && rate > 0 && duration > 0, "below the minimum: nothing distributed");
                kani::cover!(got.is_ok() && cur == min && rate > 0 && duration > 0 && cur > 0, "at the minimum: nothing distributed");
                kani::cover!(got.is_err() && duration > TMAX as u64, "duration not representable");
                kani::cover!(got.is_err() && duration <= TMAX as u64, "rate*t not representable");
                core::mem::forget(got);
            }

            /// One real `DistributePositionImpact::execute` from an arbitrary state; all step obligations.
            /// Returns the post-state, whether it succeeded and whether the reference was defined.
            pub fn first_step() -> (VMarket<T, D>, VMarket<T, D>, bool, bool) {
                let mut m = any_market();
                let pre = m;
                let (cur, min, rate) = (u(pre.position_impact.long), u(pre.min_position_impact_pool_amount), u(pre.distribute_factor));
                let d1 = pre.passed_distribution;
                let want1 = reference(cur, min, rate, d1);

                let r1 = m.distribute_position_impact().and_then(|a| a.execute());
                let after1 = m;
                match &r1 {
                    Ok(rep) => {
                        let (dist, next) = (u(*rep.distribution_amount()), u(*rep.next_position_impact_pool_amount()));
                        assert!(want1 == Some((dist, next)), "C14: executed distribution differs from min(floor(t*rate/UNIT), current - min)");
                        assert!(rep.duration_in_seconds() == d1, "C14: reported duration is not the elapsed time");
                        assert!(u(after1.position_impact.long) == next, "C14: pool amount after execute is not the reported next amount");
                        assert!(after1.position_impact.long <= pre.position_impact.long, "C14: distribution increased the pool");
                        if cur > min {
                            assert!(u(after1.position_impact.long) >= min, "C14: distribution took the pool below the minimum");
                        } else {
                            assert!(after1.position_impact.long == pre.position_impact.long, "C14: a pool at or below the minimum was distributed");
                        }
                        // the negated delta must be representable in the signed type
                        assert!(dist <= SMAX as R);
                    }
                    Err(_) => {
                        assert!(after1.position_impact.long == pre.position_impact.long, "C14: failed distribution changed the pool");
                        assert!(want1.map_or(true, |w| w.0 > SMAX as R), "C14: execute fails where the exact result is representable");
                    }
                }
                // nothing but the pool's long amount and the distribution clock is touched
                let mut expect = pre;
                expect.position_impact.long = after1.position_impact.long;
                expect.passed_distribution = after1.passed_distribution;
                assert!(after1 == expect, "C14: execute touched unrelated market state");
                let ok = r1.is_ok();
                core::mem::forget(r1);
                (pre, after1, ok, want1.is_some())
            }

            pub fn execute_once() {
                let (pre, after1, ok, defined) = first_step();
                let (cur, min) = (u(pre.position_impact.long), u(pre.min_position_impact_pool_amount));
                kani::cover!(ok && u(after1.position_impact.long) < cur && u(after1.position_impact.long) > min, "uncapped distribution");
                kani::cover!(ok && u(after1.position_impact.long) < cur && u(after1.position_impact.long) == min && min > 0, "capped distribution");
                kani::cover!(!ok && defined, "negated delta not representable");
                kani::cover!(!ok && !defined, "distribution fails");
            }

            /// ... then a second execution on the post-state after an arbitrary further duration.
            pub fn execute_twice() {
                let (pre, after1, ok1, defined1) = first_step();
                let (cur, min, rate) = (u(pre.position_impact.long), u(pre.min_position_impact_pool_amount), u(pre.distribute_factor));
                let mut m = after1;
                let d2: u64 = kani::any();
                m.passed_distribution = d2;
                let cur2 = u(after1.position_impact.long);
                let want2 = reference(cur2, min, rate, d2);
                let r2 = m.distribute_position_impact().and_then(|a| a.execute());
                match &r2 {
                    Ok(rep) => {
                        let (dist, next) = (u(*rep.distribution_amount()), u(*rep.next_position_impact_pool_amount()));
                        assert!(want2 == Some((dist, next)), "C14: repeated distribution differs from the reference");
                        assert!(u(m.position_impact.long) == next);
                        assert!(next <= cur2 && next <= cur, "C14: repeated distribution increased the pool");
                        if cur > min {
                            assert!(next >= min, "C14: repeated distribution took the pool below the minimum");
                        } else {
                            assert!(next == cur, "C14: repeated distribution changed a pool at or below the minimum");
                        }
                    }
                    Err(_) => assert!(u(m.position_impact.long) == cur2, "C14: failed distribution changed the pool"),
                }
                kani::cover!(ok1 && r2.is_ok() && u(m.position_impact.long) < cur2 && cur2 < cur, "two effective distributions");
                kani::cover!(ok1 && r2.is_ok() && u(m.position_impact.long) == min && cur2 > min && cur2 < cur && min > 0, "second distribution hits the floor");
                kani::cover!(!ok1 && r2.is_ok() && u(m.position_impact.long) < cur, "first fails, second distributes");
                core::mem::forget(r2);
            }
        }
    };
}
bodies!(w8, u8, i8, u32, i32, 1);
bodies!(w16, u16, i16, u32, i32, 2);
bodies!(w32, u32, i32, u64, i64, 4);

//@ prop=C14 tier=quick kind=hold
//@ enc=PositionImpactMarketExt::pending_position_impact_pool_distribution_amount, PositionImpactMarketExt::position_impact_pool_amount, utils::apply_factor, <u16 as MulDiv>::checked_mul_div (narrow hook impl)
//@ bound=width-reduced T=u16, DECIMALS=2 (UNIT 100): every u16 pool amount, minimum and distribution rate, every u64 duration
//@ stubs=market environment = plain-struct VMarket (harness/model/src/vmarket.rs)
#[kani::proof]
fn c14_pending_distribution_exact_ref_u16() {
    w16::pending_amount();
}

//@ prop=C14 tier=quick kind=hold
//@ enc=DistributePositionImpact::execute, PositionImpactMarketMutExt::{distribute_position_impact,apply_delta_to_position_impact_pool}, PositionImpactMarketExt::pending_position_impact_pool_distribution_amount, Unsigned::to_opposite_signed, Pool::apply_delta_to_long_amount (default method)
//@ bound=width-reduced T=u16, DECIMALS=2: every u16 pool amount (both sides), minimum, rate, every u64 elapsed time; one execution from an arbitrary state (P2 step: the post-state is again an arbitrary state)
//@ stubs=market environment = plain-struct VMarket; the distribution clock is the field passed_distribution (consumed by just_passed_in_seconds)
#[kani::proof]
fn c14_execute_respects_floor_u16() {
    w16::execute_once();
}

//@ prop=C14 tier=quick kind=hold
//@ enc=DistributePositionImpact::execute, PositionImpactMarketExt::pending_position_impact_pool_distribution_amount
//@ bound=width-reduced T=u8, DECIMALS=1 (UNIT 10): every u8 pool amount, minimum, rate, every u64 elapsed time; two consecutive executions (second after any further u64 duration)
//@ stubs=market environment = plain-struct VMarket
#[kani::proof]
fn c14_execute_twice_respects_floor_u8() {
    w8::execute_twice();
}

//@ prop=C14 tier=thorough kind=hold
//@ enc=DistributePositionImpact::execute, PositionImpactMarketExt::pending_position_impact_pool_distribution_amount
//@ bound=width-reduced T=u16, DECIMALS=2: every u16 value, every u64 elapsed time; two consecutive executions
//@ stubs=market environment = plain-struct VMarket
//@ timeout=5400 mem=30
#[kani::proof]
fn c14_execute_twice_respects_floor_u16() {
    w16::execute_twice();
}

//@ prop=C14 tier=thorough kind=hold
//@ enc=PositionImpactMarketExt::pending_position_impact_pool_distribution_amount, utils::apply_factor, <u32 as MulDiv>::checked_mul_div (narrow hook impl)
//@ bound=width-reduced T=u32, DECIMALS=4 (UNIT 10000): every u32 pool amount, minimum and rate, every u64 duration
//@ stubs=market environment = plain-struct VMarket
//@ timeout=5400 mem=30
#[kani::proof]
fn c14_pending_distribution_exact_ref_u32() {
    w32::pending_amount();
}

//@ prop=C14 tier=experimental kind=hold
//@ enc=DistributePositionImpact::execute, PositionImpactMarketExt::pending_position_impact_pool_distribution_amount
//@ bound=width-reduced T=u32, DECIMALS=4: one execution, every u32 value, every u64 elapsed time
//@ stubs=market environment = plain-struct VMarket
//@ timeout=5400 mem=30
#[kani::proof]
fn c14_execute_respects_floor_u32() {
    w32::execute_once();
}
